"""C18 helpers: histories over locations (write / create / install / read / remove on a few paths, in one process),
driven on the real forml code, with the independent logical-store oracle.  Used by props/c18.py (mixin)."""
from __future__ import annotations

import importlib
import importlib.util
import json
import marshal
import os
import pathlib
import shutil
import sys
import tempfile
import zipfile

from core import framework as fw
from core import sexp

T0 = 1_000_000_000  # origin of the synthetic clock (seconds); real "now" is far later
REAL = T0 + 10 ** 7  # an mtime above this was stamped by the real clock

SIG_PYC = 'manifest-stale-bytecode-same-second-same-size'
SIG_KIND = 'location-kind-change-importer-cache'
SIG_RYW = 'store-read-your-writes'
SIG_SIBLING = 'components-stale-sibling-module-in-sys-modules'


def cps(s: str) -> list[int]:
    return [ord(c) for c in s]


def uncps(c) -> str:
    return ''.join(chr(i) for i in c)


def version_struct(v) -> list:
    """(epoch release pre post dev local) of a packaging Version through its public properties."""
    pre = None if v.pre is None else [{'a': 0, 'b': 1, 'rc': 2}[v.pre[0]], v.pre[1]]
    local = None
    if v.local is not None:
        local = [['num', int(p)] if p.isdigit() else ['str', cps(p)] for p in v.local.split('.')]
    return [v.epoch, list(v.release), pre, v.post, v.dev, local]


def unsx_version(x) -> list:
    """the driver's version S-expression -> the same shape as `version_struct`"""
    ep, rel, pre, post, dev, loc = x
    none = lambda a: None if a == 'none' else a  # noqa: E731
    local = None
    if loc != 'none':
        local = [['num', int(s[1])] if s[0] == 'num' else ['str', sexp.num(s[1])] for s in loc]
    return [int(ep), sexp.num(rel), None if pre == 'none' else sexp.num(pre), None if post == 'none' else int(post),
            None if dev == 'none' else int(dev), local if none(loc) is not None else None]


def man_canon(m) -> list:
    """a real Manifest -> [name, version struct, package, sorted module items]"""
    return [str(m.name), version_struct(m.version), m.package, sorted([k, v] for k, v in m.modules.items())]


def man_sexp(args) -> list:
    """(name, version text, package, modules) -> the driver's SM"""
    from packaging import version as vermod

    name, version, package, modules = args
    return [cps(name), version_struct(vermod.Version(version)), cps(package), [[cps(k), cps(v)] for k, v in modules.items()]]


def unsx_man(x) -> list:
    n, v, p, ms = x
    return [uncps(sexp.num(n)), unsx_version(v), uncps(sexp.num(p)), sorted([uncps(sexp.num(k)), uncps(sexp.num(w))] for k, w in ms)]


class Histories:
    """mixin of C18: `self.rng`, `self.case`, `self.violate`, `self.diverge`, `self._drift`, `self.model`, `self.n`"""

    SRC_T = ('from forml import project\nfrom forml.io import dsl\n\n\nclass {tok}(dsl.Schema):\n    x = dsl.Field(dsl.Integer())\n\n\n'
             'project.setup(project.Source.query({tok}.select({tok}.x)))\n')
    PIPE_T = ('from forml import flow, project\n\n\nclass Op(flow.Operator):\n    def __init__(self, token):\n        self.token = token\n\n'
              '    def compose(self, scope):\n        return scope.expand()\n\n\nproject.setup(Op({tok!r}))\n')
    # the same pipeline taking its token from a sibling helper module of the package
    PIPE_H = ('from forml import flow, project\n\nfrom . import common\n\n\nclass Op(flow.Operator):\n    def __init__(self, token):\n        self.token = token\n\n'
              '    def compose(self, scope):\n        return scope.expand()\n\n\nproject.setup(Op(common.TOKEN))\n')

    _h_warm = False

    # ---- the real code, one operation at a time -----------------------------------------------------------
    @staticmethod
    def _h_tree_files(pkg: str, k: int, safe: bool, helper: bool = False, mods: dict = None) -> dict:
        """the files of tree `k` laid out for the (possibly dotted) package `pkg` and the module map `mods`
        (values: a bare name relative to the package, or an absolute name inside it)"""
        tok = f'Tok{k}'
        parts = pkg.split('.')
        base = '/'.join(parts)
        files = {'/'.join(parts[:i + 1]) + '/__init__.py': '' for i in range(len(parts))}

        def where(component):
            name = (mods or {}).get(component) or component
            if name.startswith(pkg + '.'):
                name = name[len(pkg) + 1:]
            return f'{base}/{name.replace(".", "/")}.py'

        files[where('source')] = Histories.SRC_T.format(tok=tok)
        files[where('pipeline')] = Histories.PIPE_H if helper else Histories.PIPE_T.format(tok=tok)
        if helper:
            files[f'{base}/common.py'] = f'TOKEN = {tok!r}\n'
        if not safe:
            files[f'{base}/data{k}.csv'] = 'a,b\n1,2\n'
        return files

    @staticmethod
    def _h_kind(path: pathlib.Path):
        if path.is_dir():
            return 'dir'
        if path.is_file():
            return 'zip'
        return None

    @staticmethod
    def _h_finder_kind(path: pathlib.Path):
        f = sys.path_importer_cache.get(str(path))
        if f is None:
            return None
        return 'zip' if type(f).__name__ == 'zipimporter' else 'dir'

    @staticmethod
    def _h_exec_manifest(ns: dict):
        return [ns.get('NAME'), ns.get('VERSION'), ns.get('PACKAGE'), ns.get('MODULES')]

    @staticmethod
    def _h_stale_pyc(path: pathlib.Path) -> bool:
        """the bytecode file of `path/__4ml__.py` would be accepted by the import system and holds another module"""
        src = path / '__4ml__.py'
        try:
            pyc = pathlib.Path(importlib.util.cache_from_source(str(src)))
            if not (src.is_file() and pyc.is_file()):
                return False
            data = pyc.read_bytes()
            st = src.stat()
            if int.from_bytes(data[4:8], 'little') != 0:  # hash-based: not validated by mtime
                return False
            if int.from_bytes(data[8:12], 'little') != int(st.st_mtime) & 0xFFFFFFFF or int.from_bytes(data[12:16], 'little') != st.st_size & 0xFFFFFFFF:
                return False
            a, b = {}, {}
            exec(marshal.loads(data[16:]), a)  # pylint: disable=exec-used
            exec(compile(src.read_text(), str(src), 'exec'), b)  # pylint: disable=exec-used
            return Histories._h_exec_manifest(a) != Histories._h_exec_manifest(b)
        except Exception:  # pylint: disable=broad-except
            return False

    def _h_tree_of(self, artifact, ntrees: int):
        """which generated tree the installed artifact's components come from (planted tokens); None = not loadable"""
        try:
            comps = artifact.components
            src = repr(comps.source.extract.train) if comps.source is not None else ''
            pipe = getattr(comps.pipeline, 'token', None)
        except Exception:  # pylint: disable=broad-except
            return None
        for k in range(ntrees):
            if pipe == f'Tok{k}' and f'Tok{k}' in src:
                return k
        return ['mixed', pipe, src[:60]]

    def _h_exec(self, w: dict) -> list:
        """Run a history on the real code in a fresh temporary directory -> per operation
        {'obs': observation, 'stale': [locations whose cached bytecode was stale before the op],
         'kind': [locations whose cached finder does not fit, before or after the op]}"""
        from forml.project import _distribution as dist
        import forml

        if w['bc'] and not Histories._h_warm:
            # bytecode files are about to be switched on for the whole process: import everything of forml the operations
            # need beforehand, so that no bytecode file is ever written into the tree under test
            Histories._h_warm = True
            self._h_exec({'bc': False, 'pkg': 'c18warm', 'helper': True, 'trees': [{'safe': True}, {'safe': False}],
                          'manifests': [['p', '1.0', 'c18warm', {}], ['p', '2.0', 'c18warm', {}]], 'nloc': 3,
                          'ops': [['create', 0, 0, 0], ['create', 1, 1, 1], ['install', 0, 2, 0], ['read', 2], ['install', 1, 2, 1], ['write', 2, 0, 2],
                                  ['read', 2], ['remove', 2]]})
        base = pathlib.Path(tempfile.mkdtemp(prefix='verif-c18-h-')).resolve()
        path0, mods0, dwb0 = list(sys.path), set(sys.modules), sys.dont_write_bytecode
        pic0 = dict(sys.path_importer_cache)
        out = []
        try:
            sys.dont_write_bytecode = not w['bc']
            trees = w['trees']
            for k, tr in enumerate(trees):
                for rel, text in self._h_tree_files(tr.get('pkg', w['pkg']), k, tr['safe'], bool(w.get('helper')), tr.get('mods')).items():
                    f = base / f'src{k}' / rel
                    f.parent.mkdir(parents=True, exist_ok=True)
                    f.write_text(text)
            loc = lambda i: base / f'loc{i}'  # noqa: E731
            nloc = w['nloc']
            for op in w['ops']:
                involved = [op[1]] if op[0] != 'install' else [op[1], op[2]]
                stale = [i for i in involved if loc(i).is_dir() and self._h_stale_pyc(loc(i))]
                kind = [i for i in involved if self._h_finder_kind(loc(i)) not in (None, self._h_kind(loc(i))) and self._h_kind(loc(i)) is not None]
                tick = None
                # a helper module of an earlier load is still imported
                sibling = bool(w.get('helper')) and any(f'{tr.get("pkg", w["pkg"])}.common' in sys.modules for tr in trees)
                pre = [self._h_kind(loc(i)) for i in range(nloc)]
                try:
                    if op[0] == 'write':
                        _, p, j, tick = op
                        dist.Manifest(*w['manifests'][j][:3], **w['manifests'][j][3]).write(loc(p))
                        obs = 'done'
                    elif op[0] == 'create':
                        _, p, j, k = op
                        pkg = dist.Package.create(base / f'src{k}', dist.Manifest(*w['manifests'][j][:3], **w['manifests'][j][3]), loc(p))
                        obs = ['manifest', man_canon(pkg.manifest)]
                    elif op[0] == 'install':
                        _, a, b, tick = op
                        pkg = dist.Package(loc(a))
                        artifact = pkg.install(loc(b))
                        mc = man_canon(pkg.manifest)
                        if (artifact.package, dict(artifact.modules)) != (pkg.manifest.package, dict(pkg.manifest.modules)):
                            mc = ['artifact-differs', artifact.package, dict(artifact.modules)]
                        obs = ['installed', mc, self._h_tree_of(artifact, len(trees))]
                    elif op[0] == 'read':
                        obs = ['manifest', man_canon(dist.Manifest.read(loc(op[1])))]
                    elif op[0] == 'remove':
                        p = loc(op[1])
                        if p.is_dir():
                            shutil.rmtree(p)
                        elif p.exists():
                            p.unlink()
                        obs = 'done'
                    else:
                        raise fw.MachineryError(f'unknown op {op}')
                except forml.MissingError:
                    obs = ['error', 'missing']
                except FileExistsError:
                    obs = ['error', 'file-exists']
                except IsADirectoryError:
                    obs = ['error', 'is-dir']
                except fw.MachineryError:
                    raise
                except Exception as e:  # pylint: disable=broad-except
                    obs = ['error', type(e).__name__]
                finally:
                    sys.path[:] = path0  # `install` leaves the target on sys.path: operations are looked at one by one
                # the clock: a manifest file stamped by the real clock during this operation gets the operation's second
                for i in range(nloc):
                    f = loc(i) / '__4ml__.py'
                    if f.is_file() and f.stat().st_mtime > REAL:
                        t = T0 + (tick if tick is not None else 0)
                        os.utime(f, (t, t))
                kind += [i for i in involved if i not in kind and self._h_finder_kind(loc(i)) not in (None, self._h_kind(loc(i)))
                         and self._h_kind(loc(i)) is not None]
                out.append({'obs': obs, 'stale': stale, 'kind': kind, 'pre': pre, 'sibling': sibling})
            return out
        finally:
            sys.dont_write_bytecode = dwb0
            sys.path[:] = path0
            for name in set(sys.modules) - mods0:
                m = sys.modules.get(name)
                origin = str(getattr(m, '__file__', None) or getattr(getattr(m, '__spec__', None), 'origin', '') or '')
                if origin.startswith(str(base)) or name == '__4ml__' or name.split('.')[0] in {tr.get('pkg', w['pkg']).split('.')[0] for tr in w['trees']}:
                    sys.modules.pop(name, None)
            for key in list(sys.path_importer_cache):
                if key.startswith(str(base)):
                    del sys.path_importer_cache[key]
            for key, val in pic0.items():
                sys.path_importer_cache.setdefault(key, val)
            importlib.invalidate_caches()
            shutil.rmtree(base, ignore_errors=True)

    # ---- the independent oracle: a store Path -> Content ---------------------------------------------------
    @staticmethod
    def _h_key(mc):
        """manifest equality as the property means it (`==`: PEP 440 equality of versions, module map as a mapping)"""
        from props.c18 import pep440_key  # late: circular import

        if not (isinstance(mc, list) and len(mc) == 4 and isinstance(mc[1], list)):
            return ('not-a-manifest', json.dumps(mc, default=str))
        ep, rel, pre, post, dev, loc = mc[1]
        text = (f'{ep}!' if ep else '') + '.'.join(map(str, rel))
        if pre is not None:
            text += 'a b rc'.split()[pre[0]] + str(pre[1])
        if post is not None:
            text += f'.post{post}'
        if dev is not None:
            text += f'.dev{dev}'
        if loc is not None:
            text += '+' + '.'.join(str(s[1]) if s[0] == 'num' else uncps(s[1]) for s in loc)
        return (mc[0], pep440_key(text), mc[2], json.dumps(mc[3]))

    def _h_oracle(self, w: dict, res: list):
        """Property text: what is read back equals what was last written to that location; installing yields the
        package's manifest and components.  -> None | (what, signature, index of the failing operation)"""
        from packaging import version as vermod

        mans = [[m[0], version_struct(vermod.Version(m[1])), m[2], sorted([k, v] for k, v in m[3].items())] for m in w['manifests']]
        store: dict = {}  # location -> {'man': canon | None, 'tree': k | None, 'alias': bool}
        for idx, (op, r) in enumerate(zip(w['ops'], res)):
            obs = r['obs']
            cause = SIG_PYC if r['stale'] else SIG_KIND if r['kind'] else SIG_RYW

            def bad(what):
                return f'after {w["ops"][:idx]}: {what}', cause, idx  # noqa: B023 (`cause` of this iteration)

            if op[0] == 'write':
                _, p, j, _ = op
                if r['pre'][p] == 'zip':
                    continue  # writing a manifest into a regular file: nothing is demanded
                if obs != 'done':
                    return bad(f'Manifest.write at location {p} gave {obs}')
                store[p] = {'man': mans[j], 'tree': store[p]['tree'] if p in store else None, 'alias': False}
            elif op[0] == 'create':
                _, p, j, k = op
                if r['pre'][p] == 'dir':
                    continue  # a directory is in the way
                store[p] = {'man': mans[j], 'tree': k, 'alias': False}
                if obs != ['manifest', mans[j]]:
                    return bad(f'Package.create of {w["manifests"][j][:2]} at location {p} returned a package with manifest {obs}')
            elif op[0] == 'read':
                cur = store.get(op[1])
                want = ['manifest', cur['man']] if cur and cur['man'] is not None else ['error', 'missing']
                same = obs == want or (cur is not None and cur['alias'] and obs[0] == want[0] == 'manifest' and self._h_key(obs[1]) == self._h_key(want[1]))
                if not same:
                    return bad(f'Manifest.read of location {op[1]} gave {obs}, the last write there was {want}')
            elif op[0] == 'remove':
                store.pop(op[1], None)
            elif op[0] == 'install':
                _, a, b, _ = op
                src = store.get(a)
                if src is None or src['man'] is None:
                    if obs != ['error', 'missing']:
                        return bad(f'installing from location {a} that holds no manifest gave {obs}')
                    continue
                dst = store.get(b) if a != b else None
                dst_equal = dst is not None and dst['man'] is not None and self._h_key(dst['man']) == self._h_key(src['man'])
                ok = obs[0] == 'installed' and (obs[1] == src['man'] or (src['alias'] and self._h_key(obs[1]) == self._h_key(src['man'])))
                if not ok:
                    return bad(f'Package(location {a}).install(location {b}) gave {obs}, the package there has manifest {src["man"]}')
                if dst_equal and dst['tree'] != src['tree']:
                    # the target already holds an equal manifest over another content: two contents under one
                    # release are not a legal use (a release is immutable); nothing is demanded of the components
                    store[b] = dict(dst, alias=True)
                    continue
                if src['tree'] is not None and obs[2] != src['tree']:
                    if r.get('sibling') and isinstance(obs[2], list) and obs[2][0] == 'mixed':
                        cause = SIG_SIBLING
                    return bad(f'Package(location {a}).install(location {b}) yields the components of tree {obs[2]}, the package was created from tree {src["tree"]}')
                if a != b:
                    if dst_equal:
                        store[b] = dict(dst, alias=True)  # equal manifests: either spelling may be read back
                    else:
                        store[b] = {'man': src['man'], 'tree': src['tree'], 'alias': src['alias']}
        return None

    # ---- generation ----------------------------------------------------------------------------------------
    H_VERSIONS = ['1.0', '1.1', '1.0.0', '1.10', '2.0a1', '1.0.post1', '0.9', '1.2']

    def _h_gen(self, serial: int) -> dict:
        """One project (name) in 2..4 versions and 1..2 LAYOUTS: builds of one name and version may differ in the package
        name (renamed, moved into a sub-package) or in the module map; every (version, layout) has its own content."""
        from props.c18 import pep440_key  # late: circular import

        r = self.rng
        pkg = f'c18s{self.seed}x{serial}'
        layouts = [{'pkg': pkg, 'mods': {}}]
        if r.random() < 0.6:
            layouts.append(r.choice([{'pkg': pkg + 'b', 'mods': {}}, {'pkg': f'{pkg}.core', 'mods': {}}, {'pkg': pkg, 'mods': {'pipeline': 'flow'}},
                                     {'pkg': pkg, 'mods': {'source': f'{pkg}.feed'}}, {'pkg': pkg, 'mods': {'pipeline': 'pipeline'}},
                                     {'pkg': pkg, 'mods': {'source': 'feed', 'pipeline': f'{pkg}.flow'}}]))
        elif r.random() < 0.5:
            layouts[0]['mods'] = r.choice([{'source': f'{pkg}.source'}, {'pipeline': 'pipeline'}])
        versions = r.sample(self.H_VERSIONS, r.choice([2, 3, 3, 4]))
        name = r.choice(['proj', 'demo-project', 'p'])
        builds = [(v, li) for v in versions for li in range(len(layouts))]
        builds = r.sample(builds, min(len(builds), r.choice([2, 3, 4, 5])))
        manifests = [[name, v, layouts[li]['pkg'], dict(layouts[li]['mods'])] for v, li in builds]
        ambiguous = r.random() < 0.15
        allsafe = r.choice([None, None, True, False])
        trees, klass, tree_of = [], {}, []
        for v, li in builds:
            key = (pep440_key(v), li)
            if key not in klass:
                klass[key] = [len(trees)]
                trees.append({'safe': r.random() < 0.6 if allsafe is None else allsafe, 'pkg': layouts[li]['pkg'], 'mods': dict(layouts[li]['mods'])})
                if ambiguous and r.random() < 0.6:  # a second content under the very same manifest
                    klass[key].append(len(trees))
                    trees.append(dict(trees[-1]))
            tree_of.append(klass[key])
        nloc = r.choice([1, 2, 2, 3])
        ops, t = [], 0
        for _ in range(r.randint(3, 9)):
            if r.random() < 0.5:
                t += r.choice([1, 1, 2, 60])
            kind = r.choice(['write', 'write', 'create', 'create', 'install', 'install', 'read', 'read', 'read', 'remove'])
            p = r.randrange(nloc)
            if kind == 'write':
                ops.append(['write', p, r.randrange(len(manifests)), t])
            elif kind == 'create':
                j = r.randrange(len(manifests))
                ops.append(['create', p, j, r.choice(tree_of[j])])
            elif kind == 'install':
                ops.append(['install', p, r.randrange(nloc), t])
            else:
                ops.append([kind, p])
        if r.random() < 0.7:
            ops.append(['read', r.randrange(nloc)])
        return {'kind': 'history', 'bc': r.random() < 0.5, 'pkg': pkg, 'trees': trees, 'manifests': manifests, 'nloc': nloc,
                'ops': ops, 'ambiguous': ambiguous, 'helper': r.random() < 0.25}

    H_CORPUS = [
        # write, read, write something else, read (one location)
        {'bc': False, 'trees': [{'safe': True}], 'manifests': [['demo', '1.0.dev1', 'PKG', {'source': 'feed'}], ['demo-project', '1.1', 'PKG', {'source': 'feed', 'pipeline': 'flow'}]],
         'nloc': 1, 'ops': [['write', 0, 0, 0], ['read', 0], ['write', 0, 1, 1], ['read', 0]]},
        # the package at one location is rebuilt
        {'bc': False, 'trees': [{'safe': True}, {'safe': True}], 'manifests': [['p', '1.0', 'PKG', {}], ['p', '1.1', 'PKG', {}]],
         'nloc': 2, 'ops': [['create', 0, 0, 0], ['read', 0], ['create', 0, 1, 1], ['read', 0], ['install', 0, 1, 2], ['read', 1]]},
        # install A, B, A at one path
        {'bc': False, 'trees': [{'safe': True}, {'safe': True}], 'manifests': [['p', '1.0', 'PKG', {}], ['p', '2.0', 'PKG', {}]],
         'nloc': 3, 'ops': [['create', 0, 0, 0], ['create', 1, 1, 1], ['install', 0, 2, 1], ['install', 1, 2, 2], ['read', 2], ['install', 0, 2, 3], ['read', 2]]},
        # the same with extracted (not zip-safe) packages
        {'bc': False, 'trees': [{'safe': False}, {'safe': False}], 'manifests': [['p', '1.0', 'PKG', {}], ['p', '2.0', 'PKG', {}]],
         'nloc': 3, 'ops': [['create', 0, 0, 0], ['create', 1, 1, 1], ['install', 0, 2, 1], ['install', 1, 2, 2], ['read', 2], ['install', 0, 2, 3], ['read', 2]]},
        # bytecode files on, clock ticking between the writes
        {'bc': True, 'trees': [{'safe': True}], 'manifests': [['p', '1.0', 'PKG', {}], ['p', '1.1', 'PKG', {}]],
         'nloc': 1, 'ops': [['write', 0, 0, 0], ['read', 0], ['write', 0, 1, 1], ['read', 0]]},
        # bytecode files on, same second, same size (C18-F6)
        {'bc': True, 'trees': [{'safe': True}], 'manifests': [['p', '1.0', 'PKG', {}], ['p', '1.1', 'PKG', {}]],
         'nloc': 1, 'ops': [['write', 0, 0, 5], ['read', 0], ['write', 0, 1, 5], ['read', 0]]},
        # a location changes its kind (C18-F7)
        {'bc': False, 'trees': [{'safe': True}], 'manifests': [['p', '1.0', 'PKG', {}], ['p', '2.0', 'PKG', {}]],
         'nloc': 1, 'ops': [['create', 0, 0, 0], ['read', 0], ['remove', 0], ['write', 0, 1, 1], ['read', 0]]},
        # two releases of one project whose components share a helper module, loaded in one process (C18-F8)
        {'bc': False, 'helper': True, 'trees': [{'safe': True}, {'safe': True}], 'manifests': [['p', '1.0', 'PKG', {}], ['p', '2.0', 'PKG', {}]],
         'nloc': 2, 'ops': [['create', 0, 0, 0], ['create', 1, 1, 1], ['install', 0, 0, 0], ['install', 1, 1, 1]]},
        # one name and version rebuilt in a renamed / moved package, installed over the earlier build
        {'bc': False, 'trees': [{'safe': True, 'pkg': 'PKG'}, {'safe': True, 'pkg': 'PKGb.core'}],
         'manifests': [['demo', '1.0', 'PKG', {}], ['demo', '1.0', 'PKGb.core', {}]],
         'nloc': 3, 'ops': [['create', 0, 0, 0], ['create', 1, 1, 1], ['install', 0, 2, 1], ['install', 1, 2, 2], ['read', 2], ['install', 0, 2, 3], ['read', 2]]},
        # … and rebuilt with another module map (same package, same files otherwise)
        {'bc': False, 'trees': [{'safe': False, 'pkg': 'PKG'}, {'safe': False, 'pkg': 'PKG', 'mods': {'pipeline': 'flow'}}, {'safe': False, 'pkg': 'PKG', 'mods': {'pipeline': 'pipeline'}}],
         'manifests': [['demo', '1.0', 'PKG', {}], ['demo', '1.0', 'PKG', {'pipeline': 'flow'}], ['demo', '1.0', 'PKG', {'pipeline': 'pipeline'}]],
         'nloc': 4, 'ops': [['create', 0, 0, 0], ['create', 1, 1, 1], ['create', 2, 2, 2], ['install', 0, 3, 1], ['install', 1, 3, 2], ['read', 3],
                            ['install', 2, 3, 3], ['read', 3], ['install', 0, 3, 4]]},
        # equal manifests spelled differently: the target is kept
        {'bc': False, 'trees': [{'safe': True}], 'manifests': [['p', '1.0', 'PKG', {}], ['p', '1.0.0', 'PKG', {}]],
         'nloc': 3, 'ops': [['create', 0, 0, 0], ['create', 1, 1, 0], ['install', 0, 2, 1], ['install', 1, 2, 2], ['read', 2]]},
    ]

    def _h_model_line(self, w: dict) -> str:
        ops = []
        for op in w['ops']:
            if op[0] == 'write':
                ops.append(['write', op[1], man_sexp(w['manifests'][op[2]]), op[3]])
            elif op[0] == 'create':
                ops.append(['create', op[1], man_sexp(w['manifests'][op[2]]), [op[3], bool(w['trees'][op[3]]['safe'])]])
            elif op[0] == 'install':
                ops.append(['install', op[1], op[2], op[3]])
            else:
                ops.append([op[0], op[1]])
        return sexp.dumps(['store', bool(w['bc']), ops])

    @staticmethod
    def _h_unsx_obs(x):
        if x == 'done':
            return 'done'
        if x[0] == 'manifest':
            return ['manifest', unsx_man(x[1])]
        if x[0] == 'installed':
            return ['installed', unsx_man(x[1]), None if x[2] == 'none' else int(x[2][0])]
        return ['error', x[1]]

    def _h_shrink(self, w: dict, sig: str) -> dict:
        """Greedy: drop operations / manifests detail while the same root cause is still reported."""
        def fails(cand):
            v = self._h_oracle(cand, self._h_exec(cand))
            return v is not None and v[1] == sig

        cur = json.loads(json.dumps(w))
        v = self._h_oracle(cur, self._h_exec(cur))
        if v is not None:
            cur['ops'] = cur['ops'][:v[2] + 1]  # nothing after the failing operation matters
        i = 0
        while i < len(cur['ops']) - 1 and len(cur['ops']) > 1:
            cand = dict(cur, ops=cur['ops'][:i] + cur['ops'][i + 1:])
            if fails(cand):
                cur = cand
            else:
                i += 1
        return cur

    def _replay_history(self, w: dict):
        v = self._h_oracle(w, self._h_exec(w))
        return fw.Violation(v[0], w, v[1]) if v else None

    def _histories(self):
        cases = []
        for i, c in enumerate(self.H_CORPUS):
            pkg = f'c18s{self.seed}c{i}'
            w = json.loads(json.dumps(c).replace('PKG', pkg))
            cases.append(dict(w, kind='history', pkg=pkg, ambiguous=False, helper=bool(w.get('helper'))))
        for i in range(self.n(60, 1500)):
            cases.append(self._h_gen(i))
        answers = self.model([self._h_model_line(w) for w in cases])
        reported: dict = {}
        for w, ans in zip(cases, answers):
            res = self._h_exec(w)
            impl = [r['obs'] for r in res]
            kinds = sorted({op[0] for op in w['ops']})
            self.case(('history', json.dumps(w, sort_keys=True)), f'history bc={"y" if w["bc"] else "n"} locations={w["nloc"]} ops={"+".join(kinds)}'
                      f'{" ambiguous" if w["ambiguous"] else ""}{" helper-module" if w.get("helper") else ""}', nontrivial=len(w['ops']) > 1,
                      sample={'history': w['ops'], 'manifests': [m[:2] for m in w['manifests']], 'observed': impl} if len(self.samples) < 7 and len(w['ops']) > 4 else None)
            v = self._h_oracle(w, res)
            if v is not None:
                what, sig, _ = v
                if reported.get(sig, 0) < 2:
                    reported[sig] = reported.get(sig, 0) + 1
                    small = self._h_shrink(w, sig)
                    v2 = self._h_oracle(small, self._h_exec(small))
                    self.violate(v2[0] if v2 else what, small, sig)
            m = sexp.loads(ans)
            if m == 'bad-op':
                raise fw.MachineryError(f'model rejected history {w}')
            mobs = [self._h_unsx_obs(x) for x in m[0]]
            lobs = [self._h_unsx_obs(x) for x in m[2]]
            for idx, (a, b, c) in enumerate(zip(impl, mobs, lobs)):
                if a == b:
                    continue
                if res[idx].get('sibling') and a[0] == 'installed' and isinstance(a[2], list):
                    self._drift('history: components built from a sibling module an earlier load left in sys.modules (outside the model, C18-F8)',
                                {'history': w, 'at': idx}, a, b)
                elif w['ambiguous'] or b != c:
                    # the model itself predicts a failure here (stale cache / wrong finder) and the real code fails in another
                    # way or not at all, or the history reuses a manifest for two contents: mechanism, no alarm
                    self._drift('history: the file-level model and the implementation differ where the model predicts a defect', {'history': w, 'at': idx}, a, b)
                else:
                    self.diverge('history over locations: the model returns what was last written, the implementation does not',
                                 {'history': w, 'at': idx}, a, b)
                break


class KeyValues:
    """mixin of C18: keys made from Python values of every type (`Generation.Key(value)`, `Release.Key(value)`)"""

    @staticmethod
    def _kv_encode(v):
        """a Python value -> the driver's PyVal (None = not representable)"""
        from packaging import version as vermod

        if type(v) is bool:
            return ['bool', v]
        if isinstance(v, vermod.Version):
            return ['version', version_struct(v)]
        if isinstance(v, int):  # int and Generation.Key
            return ['int', int(v)]
        if type(v) is float:
            r = repr(v)
            if not any(c in r for c in '.en'):
                raise fw.MachineryError(f'repr of the float {r} has none of . e n')
            return ['float', cps(r)]
        if type(v) is str:
            return ['str', cps(v)]
        if type(v) is bytes:
            return ['bytes', cps(str(v)[1:])]
        if v is None:
            return None  # the atom `none`
        if type(v) is tuple:
            return ['tuple', cps(str(v)[1:])]
        raise fw.MachineryError(f'no PyVal for {v!r}')

    def _kv_values(self) -> list:
        from forml.io import asset
        from packaging import version as vermod

        r = self.rng
        K, R = asset.Generation.Key, asset.Release.Key
        vals = [1, 2, 10, 0, -1, -3, 2 ** 64, 10 ** 30, True, False, 1.0, 1.5, 2.9, 0.0, -1.0, 0.5, 3.0, 1e16, 1e22, 1e-7, float('inf'),
                float('-inf'), float('nan'), 2.5e-300, '1', ' 7 ', '1.5', '1.0', 'True', 'None', "b'1'", '(1,)', '', '1e3', '٣', '１', b'1', b'3',
                b'', b'1.0', b"it's", None, K(1), K(5), K(2 ** 70), (1,), (1, 0), (), ('1.0',), vermod.Version('1.0'), vermod.Version('2!1.0rc1.post2.dev3+a.1'),
                R('1.0'), R('1.0a1'), R('0'), R('1.0+ubuntu.1')]
        for _ in range(self.n(150, 1500)):
            t = r.random()
            if t < 0.2:
                vals.append(r.choice([r.randint(-5, 50), r.randint(-10 ** 6, 10 ** 12), r.randint(1, 2 ** 80)]))
            elif t < 0.45:
                vals.append(r.choice([float(r.randint(-3, 40)), r.randint(0, 99) + r.choice([0.5, 0.25, 0.1, 0.9, 0.10, 0.99]), r.random() * 10,
                                      r.uniform(-5, 5) * 10 ** r.randint(-20, 25), float(r.randint(1, 9)) * 10 ** r.randint(15, 30)]))
            elif t < 0.55:
                vals.append(bytes(r.choice(b'0123456789.ab -') for _ in range(r.randint(0, 4))))
            elif t < 0.65:
                vals.append(tuple(r.choice([0, 1, 2, 10, '1', 1.5]) for _ in range(r.randint(0, 3))))
            elif t < 0.75:
                vals.append(K(r.randint(1, 10 ** 6)))
            elif t < 0.9:
                vals.append(r.choice([vermod.Version, R])(self._gen_version().strip() or '1'))
            else:
                vals.append(r.choice([True, False, None, str(r.randint(-3, 30)), str(r.randint(0, 9)) + r.choice(['.0', '.5', 'e3', ' ', '_0'])]))
        return vals

    def _key_values(self):
        from forml.io import asset
        from packaging import version as vermod

        from props.c18 import pep440_key  # late: circular import

        K, R = asset.Generation.Key, asset.Release.Key
        vals = self._kv_values()
        enc = [self._kv_encode(v) for v in vals]
        gans = self.model([sexp.dumps(['genkeyv', e]) for e in enc])
        rans = self.model([sexp.dumps(['relkeyv', e]) for e in enc])
        for v, e, ga, ra in zip(vals, enc, gans, rans):
            tname = 'Key' if isinstance(v, K) else 'Version' if isinstance(v, vermod.Version) else type(v).__name__
            w = {'kind': 'keyvalue', 'type': tname, 'repr': repr(v), 'pyval': e}
            # ---- Generation.Key
            try:
                k = K(v)
                gimpl = ['ok', int(k), int(k.next)]
                if type(k) is not K:
                    gimpl = ['error', f'returned-{type(k).__name__}']
            except K.Invalid as exc:
                gimpl = ['error', 'not-integer' if 'not an integer' in str(exc) else 'not-natural']
            except Exception as exc:  # pylint: disable=broad-except
                gimpl = ['error', type(exc).__name__]
            gm = sexp.loads(ga)
            if gm == 'bad-op':
                raise fw.MachineryError(f'model rejected {e}')
            text = uncps(sexp.num(gm[0]))
            self.case(('keyvalue', tname, repr(v)), f'key from {tname} -> generation {gimpl[0]}', nontrivial=True)
            if text != str(v):
                self.diverge('str(value) of a key value', w, str(v), text)
            gmod = sexp.num(gm[1])
            if gimpl != gmod and not (gimpl[0] == gmod[0] == 'error'):
                if tname == 'str' and not all(32 <= ord(ch) < 127 or ch in '\t\n\x0b\x0c\r' for ch in v):
                    self._drift('Generation.Key acceptance of text with exotic control characters', w, gimpl, gmod)  # as in `_genkeys`
                else:
                    self.diverge('Generation.Key(value)', w, gimpl, gmod)
            verdict = self._kv_generation_spec(v)
            if verdict == 'reject' and gimpl[0] == 'ok':
                self.violate(f'Generation.Key({v!r}) ({tname}) accepted as generation {gimpl[1]}: not a natural number >= 1', dict(w, level='generation'),
                             'genkey-accepts-non-integer' if tname in ('bool', 'float', 'bytes', 'NoneType', 'tuple') else 'genkey-accepts-invalid')
            elif isinstance(verdict, int) and gimpl[:2] != ['ok', verdict]:
                self.violate(f'Generation.Key({v!r}) ({tname}) gives {gimpl}, it denotes the natural number {verdict}', dict(w, level='generation'), 'genkey-rejects-natural')
            # ---- Release.Key
            try:
                k = R(v)
                rimpl = ['ok', version_struct(k), str(k)]
            except R.Invalid:
                rimpl = 'invalid'
            except Exception as exc:  # pylint: disable=broad-except
                rimpl = ['error', type(exc).__name__]
            rm = sexp.loads(ra)
            rmod = 'invalid' if rm[1] == 'invalid' else ['ok', unsx_version(rm[1][1]), uncps(sexp.num(rm[1][2]))]
            self.case(('relvalue', tname, repr(v)), f'key from {tname} -> release {"ok" if rimpl[0] == "ok" else "rejected"}', nontrivial=True)
            both_reject = rimpl[0] != 'ok' and rmod == 'invalid'
            if rimpl != rmod and not both_reject:
                if tname in ('int', 'float', 'Key'):  # what `str()` of a number looks like to a version parser: mechanism
                    self._drift('Release.Key of a number', w, rimpl, rmod)
                else:
                    self.diverge('Release.Key(value)', w, rimpl, rmod)
            if tname in ('bool', 'NoneType', 'bytes', 'tuple') and rimpl[0] == 'ok':
                self.violate(f'Release.Key({v!r}) ({tname}) accepted as {rimpl[2]}: not a PEP 440 version', dict(w, level='release'), 'release-key-accepts-non-version')
            elif tname == 'str' and (pep440_key(v) is None) != (rimpl[0] != 'ok'):
                self.violate(f'Release.Key({v!r}) {"accepted" if rimpl[0] == "ok" else "rejected"} against PEP 440', dict(w, level='release'), 'release-key-acceptance')
            elif tname in ('Version', 'Key') and isinstance(v, vermod.Version):
                try:
                    same = rimpl[0] == 'ok' and R(v) == v and str(R(v)) == str(v) and hash(R(v)) == hash(R(str(v)))
                except Exception:  # pylint: disable=broad-except
                    same = False
                if not same:
                    self.violate(f'Release.Key({v!r}) is not the version {v}: {rimpl}', dict(w, level='release'), 'release-key-of-version')

    @staticmethod
    def _kv_generation_spec(v):
        """'reject' | the natural number the value denotes | None (nothing demanded)"""
        from forml.io import asset

        if type(v) is bool or type(v) is float or type(v) is bytes or v is None or type(v) is tuple:
            return 'reject'
        if isinstance(v, asset.Generation.Key):
            return int(v)
        if type(v) is int:
            return v if v >= 1 else 'reject'
        return None  # texts: `_oracle_genkey`; versions: their text

    def _replay_keyvalue(self, w: dict):
        import ast

        from forml.io import asset
        from packaging import version as vermod

        K, R = asset.Generation.Key, asset.Release.Key
        ns = {'Key': K, 'Version': vermod.Version, 'inf': float('inf'), 'nan': float('nan')}
        try:
            v = ast.literal_eval(w['repr'])
        except Exception:  # pylint: disable=broad-except
            try:
                v = eval(w['repr'].replace('<Version(', 'Version(').replace('<Key(', 'Key(').replace(')>', ')'), ns)  # pylint: disable=eval-used
            except Exception:  # pylint: disable=broad-except
                return None
        if w.get('level') == 'generation':
            try:
                k = K(v)
            except Exception:  # pylint: disable=broad-except
                k = None
            verdict = self._kv_generation_spec(v)
            if verdict == 'reject' and k is not None:
                return fw.Violation(f'Generation.Key({v!r}) accepted as generation {int(k)}: not a natural number >= 1', w, 'genkey-accepts-non-integer')
            if isinstance(verdict, int) and (k is None or int(k) != verdict):
                return fw.Violation(f'Generation.Key({v!r}) does not give the natural number {verdict}', w, 'genkey-rejects-natural')
            return None
        try:
            k = R(v)
        except Exception:  # pylint: disable=broad-except
            k = None
        if type(v) in (bool, type(None), bytes, tuple) and k is not None:
            return fw.Violation(f'Release.Key({v!r}) accepted as {k}: not a PEP 440 version', w, 'release-key-accepts-non-version')
        return None


class Pep440:
    """mixin of C18: the text syntax and the order of PEP 440 versions, exhaustively over grammars up to a size"""

    P_TOKENS = ['1', '0', '10', '.', '-', '_', '+', '!', 'v', 'a', 'alpha', 'b', 'beta', 'c', 'rc', 'pre', 'preview', 'post', 'rev', 'r', 'dev',
                'A', 'RC', 'Post', 'DEV', ' ', 'x', 'ubuntu']
    P_CHARS = '01.-_+!avrcpd e'
    P_EPOCH = ['', '0!', '1!', '01!']
    P_RELEASE = ['0', '1', '1.0', '1.0.0', '01.10', '2.3.4.5']
    P_PRE = ['', 'a', 'a1', '.a1', '-a.1', '_alpha_2', 'b0', 'beta', 'c1', 'rc1', '-rc-', 'pre2', 'preview.3', 'A1', 'a01']
    P_POST = ['', '-1', '-0', '.post1', 'post', 'post.2', '-post-3', '_rev4', 'r5', '.r', '-r-6', '.POST1']
    P_DEV = ['', '.dev', 'dev1', '-dev-2', '_dev_03', '.DEV4']
    P_LOCAL = ['', '+a', '+1', '+01', '+a.1', '+a-1_b', '+A.B', '+1a', '+0.00.a0']
    P_WRAP = ['{}', ' {} ', 'v{}', 'V{}\n']

    def _p_texts(self) -> list:
        import itertools

        r = self.rng
        texts = set()
        # every string over a small alphabet up to a length
        for n in range(0, (4 if self.quick else 5) + 1):
            for t in itertools.product(self.P_CHARS, repeat=n):
                texts.add(''.join(t))
        # every sequence of spelling tokens up to a length, bare and after a release
        depth = 3 if self.quick else 4
        for prefix in ('', '1', '1.0'):
            for n in range(0, depth + 1):
                if n == 4 and prefix == '':
                    continue
                for t in itertools.product(self.P_TOKENS, repeat=n):
                    texts.add(prefix + ''.join(t))
        # the structured grammar of valid spellings (all of it in the thorough tier, a random part in the quick one)
        grammar = [self.P_WRAP, self.P_EPOCH, self.P_RELEASE, self.P_PRE, self.P_POST, self.P_DEV, self.P_LOCAL]
        if self.quick:
            for _ in range(self.n(30000, 30000)):
                w, *parts = [r.choice(g) for g in grammar]
                texts.add(w.format(''.join(parts)))
        else:
            for w, *parts in itertools.product(*grammar):
                texts.add(w.format(''.join(parts)))
        # white space of every kind around a version, case folding look-alikes
        for c in list(range(0, 0x3100)) + [0xFEFF, 0x1D7CF, 0x212A, 0x17F, 0x130, 0x131]:
            texts.add(chr(c) + '1.0')
            texts.add('1.0' + chr(c))
            texts.add('1.0' + chr(c) + '1')
        return sorted(texts)

    def _pep440_syntax(self):
        from forml.io import asset
        from packaging import version as vermod

        from props.c18 import pep440_key  # late: circular import

        R = asset.Release.Key
        texts = self._p_texts()
        answers = self.model([sexp.dumps(['vparse', cps(t)]) for t in texts])
        nvalid = 0
        for t, ans in zip(texts, answers):
            try:
                k = R(t)
                impl = ['ok', version_struct(k)]
            except R.Invalid:
                impl = 'invalid'
            except Exception as e:  # pylint: disable=broad-except
                impl = ['error', type(e).__name__]
            m = sexp.loads(ans)
            mod = 'invalid' if m == 'invalid' else ['ok', unsx_version(m[1])]
            nvalid += impl != 'invalid'
            if impl != mod:
                self.diverge('PEP 440 text -> parsed version', {'text': t}, impl, mod)
            spec = pep440_key(t)
            if (spec is None) != (impl == 'invalid') or isinstance(impl, list) and impl[0] == 'error':
                self.violate(f'Release.Key({t!r}) {"rejected" if impl == "invalid" else "accepted" if impl[0] == "ok" else "raised " + impl[1]}'
                             f' but PEP 440 says {"invalid" if spec is None else "valid"}', {'kind': 'relkey', 'text': t}, 'release-key-acceptance')
            elif impl != 'invalid':
                try:
                    same = pep440_key(str(k)) == spec and R(str(k)) == k and vermod.Version(t) == k
                except Exception:  # pylint: disable=broad-except
                    same = False
                if not same:
                    self.violate(f'Release.Key({t!r}) != Release.Key(str(it)) = {str(k)!r}', {'kind': 'relkey-str', 'text': t}, 'release-key-str')
        self.histogram['pep440 text (exhaustive grammars) valid'] += nvalid
        self.histogram['pep440 text (exhaustive grammars) invalid'] += len(texts) - nvalid
        self.evaluations += len(texts)
        self.extra['pep440_texts_compared'] = len(texts)

    def _p_versions(self) -> list:
        import itertools

        rel = [[0], [1], [1, 0], [1, 0, 0], [1, 1], [0, 1], [1, 0, 1], [2], [1, 10], [1, 9], [10]]
        pre = [None, [0, 0], [0, 1], [1, 0], [1, 1], [2, 0], [2, 1]]
        loc = [None, [['num', 0]], [['num', 1]], [['str', cps('a')]], [['str', cps('a')], ['num', 1]], [['num', 1], ['str', cps('a')]],
               [['str', cps('b')]], [['str', cps('a')], ['num', 0]], [['num', 10]]]
        if self.quick:
            rel, loc = rel[:7] + rel[8:10], loc[:6]
        return [[e, r, p, po, d, lo] for e, r, p, po, d, lo in itertools.product([0, 1], rel, pre, [None, 0, 1], [None, 0, 1], loc)]

    @staticmethod
    def _p_text(v) -> str:
        e, r, p, po, d, lo = v
        t = (f'{e}!' if e else '') + '.'.join(map(str, r))
        if p is not None:
            t += 'a b rc'.split()[p[0]] + str(p[1])
        if po is not None:
            t += f'.post{po}'
        if d is not None:
            t += f'.dev{d}'
        if lo is not None:
            t += '+' + '.'.join(str(s[1]) if s[0] == 'num' else uncps(s[1]) for s in lo)
        return t

    def _pep440_order(self):
        """All pairs of a structured grammar of versions: the model's comparator, `Release.Key` and the independent PEP 440
        key give the same total preorder — compared through dense ranks (equal ranks for all <=> equal order on all pairs)."""
        import functools

        from forml.io import asset

        from props.c18 import pep440_key  # late: circular import

        R = asset.Release.Key
        vs, texts, keys = [], [], []
        for v in self._p_versions():
            t = self._p_text(v)
            try:
                k = R(t)
                parsed = version_struct(k)
            except Exception as e:  # pylint: disable=broad-except
                self.violate(f'Release.Key({t!r}) raised {type(e).__name__} but PEP 440 says valid', {'kind': 'relkey', 'text': t}, 'release-key-acceptance')
                continue
            if parsed != v:
                self.diverge('PEP 440 text -> parsed version', {'text': t}, parsed, v)
                continue
            vs.append(v)
            texts.append(t)
            keys.append(k)
        mrank = sexp.num(sexp.loads(self.model([sexp.dumps(['vrank', vs])])[0]))

        def dense(order_keys, eq):
            idx = sorted(range(len(vs)), key=order_keys)
            rank, out = -1, [0] * len(vs)
            prev = None
            for i in idx:
                if prev is None or not eq(prev, i):
                    rank += 1
                out[i] = rank
                prev = i
            return out

        try:
            irank = dense(functools.cmp_to_key(lambda a, b: -1 if keys[a] < keys[b] else 1 if keys[b] < keys[a] else 0), lambda a, b: keys[a] == keys[b])
        except Exception as e:  # pylint: disable=broad-except
            self.violate(f'comparing release keys raised {type(e).__name__}: {e}', {'kind': 'vcmp', 'a': texts[0], 'b': texts[-1]}, 'release-key-order')
            return
        specs = [pep440_key(t) for t in texts]
        srank = dense(lambda i: specs[i], lambda a, b: specs[a] == specs[b])
        n = len(vs)
        self.evaluations += n
        self.histogram['pep440 order: versions ranked (all pairs)'] += n
        self.extra['pep440_order_pairs_covered'] = n * n
        if irank != mrank:
            i = next(i for i in range(n) if irank[i] != mrank[i])
            j = next((j for j in range(n) if (irank[i] < irank[j]) != (mrank[i] < mrank[j]) or (irank[i] == irank[j]) != (mrank[i] == mrank[j])), i)
            self.diverge('Release.Key order over the version grammar (ranks)', [texts[i], texts[j]], [irank[i], irank[j]], [mrank[i], mrank[j]])
        if irank != srank:
            i = next(i for i in range(n) if irank[i] != srank[i])
            j = next((j for j in range(n) if (irank[i] < irank[j]) != (srank[i] < srank[j]) or (irank[i] == irank[j]) != (srank[i] == srank[j])), i)
            a, b = keys[i], keys[j]
            impl = 'lt' if a < b else 'gt' if a > b else 'eq' if a == b else 'incomparable'
            spec = 'lt' if specs[i] < specs[j] else 'gt' if specs[i] > specs[j] else 'eq'
            self.violate(f'Release.Key({texts[i]!r}) vs Release.Key({texts[j]!r}): {impl}, PEP 440 order says {spec}',
                         {'kind': 'vcmp', 'a': texts[i], 'b': texts[j]}, 'release-key-order')
        # the sort must agree with the pairwise comparison it is built from: sampled neighbours and random pairs
        r = self.rng
        idx = sorted(range(n), key=lambda i: irank[i])
        pairs = list(zip(idx, idx[1:])) + [(r.randrange(n), r.randrange(n)) for _ in range(self.n(3000, 30000))]
        for i, j in pairs:
            a, b = keys[i], keys[j]
            want = 'lt' if irank[i] < irank[j] else 'gt' if irank[i] > irank[j] else 'eq'
            try:
                impl = 'lt' if a < b else 'gt' if a > b else 'eq' if a == b else 'incomparable'
                bad = impl != want or (impl == 'eq') != (hash(a) == hash(b)) or (a <= b) != (impl in ('lt', 'eq')) or (a >= b) != (impl in ('gt', 'eq'))
            except Exception as e:  # pylint: disable=broad-except
                impl, bad = f'raised {type(e).__name__}', True
            if bad:
                spec = 'lt' if specs[i] < specs[j] else 'gt' if specs[i] > specs[j] else 'eq'
                self.violate(f'Release.Key({texts[i]!r}) vs Release.Key({texts[j]!r}): {impl}, PEP 440 order says {spec}',
                             {'kind': 'vcmp', 'a': texts[i], 'b': texts[j]}, 'release-key-order')
                break
