"""C18 — persisted metadata and keys read back exactly as written.

Real code: forml.io.asset `Tag.dumps/loads` (+ the lifecycle setters `trigger/replace`), `Generation.Key`,
`Release.Key`, `Level.Listing`; forml.project `Manifest.write/read`, `Package.create/install`, `Artifact.components`.
Model: lean/ForML/Model/{Tag,Keys,Manifest}.lean through drv_c18.
"""
from __future__ import annotations

import datetime
import decimal
import importlib
import json
import math
import os
import pathlib
import re
import shutil
import struct
import sys
import tempfile
import uuid
import zipfile

from core import framework as fw
from core import sexp
from props import c18h

UTC = datetime.timezone.utc

# ---------------------------------------------------------------------------------------------------------
# canonical forms (JSON-able, exact types)
# ---------------------------------------------------------------------------------------------------------
NAN_BITS = 0x7FF8000000000000


def fbits(x: float) -> int:
    if math.isnan(x):
        return NAN_BITS  # any NaN counts as the same value (NaN != NaN is not a persistence defect)
    if x == 0:
        x = 0.0  # -0.0 == 0.0 in Python: "equal" is all the property asks for
    return struct.unpack('>Q', struct.pack('>d', x))[0]


def bits_f(b: int) -> float:
    return struct.unpack('>d', struct.pack('>Q', b))[0]


def cps(s: str) -> list[int]:
    return [ord(c) for c in s]


def uncps(c) -> str:
    return ''.join(chr(i) for i in c)


def ts_canon(t):
    if t is None:
        return None
    if type(t) is not datetime.datetime:
        return ['not-a-datetime', type(t).__name__, str(t)]
    off = t.utcoffset()
    tz = None if off is None else int(off.total_seconds() // 60)
    return [t.year, t.month, t.day, t.hour, t.minute, t.second, t.microsecond, tz]


def ts_build(c):
    if c is None:
        return None
    y, mo, d, h, mi, s, us, tz = c
    tzinfo = None if tz is None else (UTC if tz == 0 else datetime.timezone(datetime.timedelta(minutes=tz)))
    return datetime.datetime(y, mo, d, h, mi, s, us, tzinfo=tzinfo)


def ord_canon(o):
    if o is None:
        return None
    if type(o) is bool:
        return ['bool', o]
    if type(o) is int:
        return ['int', o]
    if type(o) is float:
        return ['float', fbits(o)]
    if type(o) is str:
        return ['str', cps(o)]
    if type(o) is datetime.datetime:
        return ['datetime', ts_canon(o)]
    if type(o) is datetime.date:
        return ['date', o.year, o.month, o.day]
    if type(o) is decimal.Decimal:
        return ['decimal', cps(str(o)), int(o), fbits(float(str(o)))]
    return ['other', type(o).__name__, repr(o)]


def ord_build(c):
    if c is None:
        return None
    k = c[0]
    if k in ('bool', 'int'):
        return c[1]
    if k == 'float':
        return bits_f(c[1])
    if k == 'str':
        return uncps(c[1])
    if k == 'datetime':
        return ts_build(c[1])
    if k == 'date':
        return datetime.date(c[1], c[2], c[3])
    if k == 'decimal':
        return decimal.Decimal(uncps(c[1]))
    raise ValueError(c)


def num_canon(x):
    if x is None:
        return None
    if type(x) is int:
        return ['int', x]
    if type(x) is float:
        return ['float', fbits(x)]
    return ['other', type(x).__name__, repr(x)]


def num_build(c):
    if c is None:
        return None
    return c[1] if c[0] == 'int' else bits_f(c[1])


def tag_canon(t) -> dict:
    return {'train_ts': ts_canon(t.training.timestamp), 'ordinal': ord_canon(t.training.ordinal),
            'tune_ts': ts_canon(t.tuning.timestamp), 'score': num_canon(t.tuning.score),
            'states': [s.int if isinstance(s, uuid.UUID) else ['not-a-uuid', repr(s)] for s in t.states]}


def tag_build(c: dict, lifecycle: bool = False):
    """Build the real Tag from its canonical form; `lifecycle` goes through trigger/replace as the runner does."""
    from forml.io.asset._directory.level.minor import Tag

    tts, ordinal, uts, score = ts_build(c['train_ts']), ord_build(c['ordinal']), ts_build(c['tune_ts']), num_build(c['score'])
    states = [uuid.UUID(int=i) for i in c['states']]
    if not lifecycle:
        return Tag(Tag.Training(tts, ordinal), Tag.Tuning(uts, score), states)
    tag = Tag()
    if tts is not None:
        tag = tag.training.trigger(tts)
    if ordinal is not None:
        tag = tag.training.replace(ordinal=ordinal)
    if uts is not None:
        tag = tag.tuning.trigger(uts)
    if score is not None:
        tag = tag.tuning.replace(score=score)
    return tag.replace(states=states)


def sx_ts(c):
    return None if c is None else list(c)


def sx_ord(c):
    if c is None:
        return None
    return list(c)


def tag_sexp(c: dict) -> str:
    return sexp.dumps(['tag', sx_ts(c['train_ts']), sx_ord(c['ordinal']), sx_ts(c['tune_ts']),
                       None if c['score'] is None else list(c['score']), c['states']])


def unsx_ts(x):
    if x == 'none':
        return None
    v = sexp.num(x)
    return v[:7] + [None if v[7] == 'none' else v[7]]


def unsx_tag(x) -> dict:
    tts, o, uts, sc, st = x
    if o == 'none':
        oc = None
    else:
        k = o[0]
        if k == 'bool':
            oc = ['bool', o[1] == 'true']
        elif k == 'datetime':
            oc = ['datetime', unsx_ts(o[1])]
        else:
            oc = [k] + sexp.num(o[1:])
    return {'train_ts': unsx_ts(tts), 'ordinal': oc, 'tune_ts': unsx_ts(uts),
            'score': None if sc == 'none' else [sc[0], int(sc[1])], 'states': sexp.num(st)}


# ---------------------------------------------------------------------------------------------------------
# root-cause classification of string ordinals (written from the observed library behaviour, char level)
# ---------------------------------------------------------------------------------------------------------
def x_trigger(s: str) -> bool:
    """Python's repr writes a `\\xNN` escape for some character, or the text has a backslash followed by x."""
    for i, ch in enumerate(s):
        o = ord(ch)
        if o < 0x100 and not ch.isprintable() and ch not in '\t\n\r':
            return True
        if ch == '\\' and s[i + 1:i + 2] == 'x':
            return True
    return False


def leading_quotes(s: str) -> bool:
    return s == '"' or s.startswith('""')


def u_trigger(s: str) -> bool:
    """a character written as \\uXXXX/\\UXXXXXXXX escape together with a literal backslash followed by u/U"""
    esc = any(ord(ch) >= 0x100 and not ch.isprintable() for ch in s)
    lit = any(ch == '\\' and s[i + 1:i + 2] in ('u', 'U') for i, ch in enumerate(s))
    return esc and lit


def modelled_str(s: str) -> bool:
    """The string model writes every code point >= 0x100 raw, i.e. it covers printable ones only."""
    return all(ord(ch) < 0x100 or ch.isprintable() for ch in s)


SIG_TS = 'tag-loads-missing-training-timestamp'
SIG_X = 'tag-str-ordinal-toml-x-escape'
SIG_Q = 'tag-str-ordinal-toml-leading-quotes'
SIG_U = 'tag-str-ordinal-toml-u-escape'
SIG_DEC = 'tag-decimal-ordinal-comes-back-float-or-int'
SIG_ASTRAL = 'manifest-module-path-non-bmp-surrogates'

PEP440 = re.compile(r"""^\s*v?(?:(?P<epoch>[0-9]+)!)?(?P<release>[0-9]+(?:\.[0-9]+)*)
    (?P<pre>[-_.]?(?P<pre_l>alpha|a|beta|b|preview|pre|c|rc)[-_.]?(?P<pre_n>[0-9]+)?)?
    (?P<post>(?:-(?P<post_n1>[0-9]+))|(?:[-_.]?(?P<post_l>post|rev|r)[-_.]?(?P<post_n2>[0-9]+)?))?
    (?P<dev>[-_.]?(?P<dev_l>dev)[-_.]?(?P<dev_n>[0-9]+)?)?
    (?:\+(?P<local>[a-z0-9]+(?:[-_.][a-z0-9]+)*))?\s*$""", re.VERBOSE | re.IGNORECASE)


def pep440_key(text: str):
    """Ordering key written from the text of PEP 440 (independent of `packaging`); None = not a version."""
    m = PEP440.match(text)
    if not m:
        return None
    epoch = int(m.group('epoch') or 0)
    release = [int(p) for p in m.group('release').split('.')]
    while release and release[-1] == 0:
        release.pop()
    pre = None
    if m.group('pre'):
        letter = m.group('pre_l').lower()
        rank = {'a': 0, 'alpha': 0, 'b': 1, 'beta': 1, 'c': 2, 'rc': 2, 'pre': 2, 'preview': 2}[letter]
        pre = (rank, int(m.group('pre_n') or 0))
    post = None
    if m.group('post'):
        post = int(m.group('post_n1') or m.group('post_n2') or 0)
    dev = int(m.group('dev_n') or 0) if m.group('dev') else None
    # X.devN < X.aN < X.bN < X.rcN < X < X.postN ; a dev release of a pre/post release sorts just before it
    if pre is None and post is None and dev is not None:
        k_pre = (-1, 0)
    elif pre is None:
        k_pre = (3, 0)
    else:
        k_pre = pre
    k_post = (0, 0) if post is None else (1, post)
    k_dev = (1, 0) if dev is None else (0, dev)
    local = ()
    has_local = 0
    if m.group('local'):
        has_local = 1
        local = tuple((1, int(p), '') if p.isdigit() else (0, 0, p.lower()) for p in re.split(r'[-_.]', m.group('local')))
    return (epoch, tuple(release), k_pre, k_post, k_dev, has_local, local)


def version_struct(v) -> list:
    """(epoch release pre post dev local) of a packaging Version through its public properties."""
    pre = None if v.pre is None else [{'a': 0, 'b': 1, 'rc': 2}[v.pre[0]], v.pre[1]]
    local = None
    if v.local is not None:
        local = [['num', int(p)] if p.isdigit() else ['str', cps(p)] for p in v.local.split('.')]
    return [v.epoch, list(v.release), pre, v.post, v.dev, local]


# ---------------------------------------------------------------------------------------------------------
class C18(c18h.Histories, c18h.KeyValues, c18h.Pep440, fw.Check):
    ID = 'C18'
    LEAN_MODULES = ['ForML.Props.C18']
    DRIVER = 'drv_c18'
    RULE = ('tags: training/tuning timestamp present or absent (microseconds, UTC / +-hh:mm offsets), ordinal of every '
            'primitive kind (none, int incl. > 64 bit, float incl. inf/-0.0/nan, bool, str over an alphabet of quotes, '
            'backslashes, control, C1, non-BMP and TOML-structural characters with 0..8 chars, date, datetime, Decimal), '
            'score none/float/int, 0..8 states, half of them built through trigger/replace; distinct by canonical tag, '
            'non-trivial when some optional field is set.  manifests: PEP 503/508 names, PEP 440 versions in every '
            'spelling, dotted packages, module maps over {source,pipeline,evaluation,extra} with ASCII / BMP / non-BMP '
            'identifiers and arbitrary printable values; distinct by (name, version, package, modules).  packages: '
            'generated project trees with ADVERSARIAL NAMES (package names that are a prefix of / equal to a conventional '
            'component name such as pipe / pipeline, dotted packages with repeated segments, no package at all, a trailing '
            'dot; module names that begin with / equal / extend the package name, relative bare, relative dotted and '
            'absolute mappings, components that are packages; decoy modules with other tokens where a wrong relative / '
            'absolute decision would look; data files, __pycache__, *.dist-info, stale root and nested __4ml__.py) packed as '
            'zip and as directory, installed twice, components compared by planted tokens and with the resolution the model '
            'predicts.  HISTORIES over 1..3 locations in one process: 3..10 operations of Manifest.write / Package.create / '
            'Package(src).install(dst) / Manifest.read / removal with 2..4 manifests of one project (versions of equal and '
            'different text length, 1.0 vs 1.0.0) over 2..3 trees (zip-safe or not), bytecode files on or off, a clock of '
            'whole seconds that ticks or not between operations; distinct by the whole history.  keys: ASCII texts over '
            'digits/sign/underscore/space/letters for Generation.Key; Python VALUES of every type (int incl. huge / zero / '
            'negative, bool, float integral / non-integral / inf / nan / exponent forms, str, bytes, None, tuples, '
            'Generation.Key, packaging Version and Release.Key instances) for both key classes; random key sets for listings; '
            'PEP 440: every string over a 15-character alphabet up to length 4 (5), every sequence of up to 3 (4) spelling '
            'tokens bare and after a release, a grammar of valid spellings (sampled / complete), every code point below '
            'U+3100 as padding — parsed fields vs packaging vs the model; order: all pairs of a grammar of 6 804 (12 474) '
            'versions through dense ranks (model, Release.Key, independent PEP 440 key) plus random pairs; random registry '
            'contents (0..6 releases x 0..5 generations, repeats, shuffled) for the implicit "latest" key.  '
            'Compared with the model: behaviour the property talks about (does the value read back, which manifest / '
            'components a history observes, which module a component resolves to, key acceptance, parsed version fields, '
            'listing content, order, normalised version text); differences in incidental mechanism (text written, archive '
            'members, install mode, how a defect the model predicts shows itself) are counted under mechanism_drift and never alarm.')
    TRUSTED = [
        'toml 0.10.2 line/section structure, float/int/date/datetime text forms, uuid text form, utf-8 (opaque tokens in '
        'the model; only key presence, value kind and the basic-string escaping of string ordinals are modelled)',
        'Python import system beyond what is modelled (bytecode files validated by source mtime in whole seconds and size; one '
        'path entry finder per location and kind kept for the life of the process; packages before modules; regular packages '
        'only), zipfile, shutil, json (only the string-literal sub-language is modelled), string.Template',
        'packaging.version: parsing and ordering are modelled (Keys.vparse / cmpkey) and compared exhaustively over the grammars '
        'named in the rule; its regular-expression engine itself is trusted',
        'str.isprintable() agrees with the model on code points < 0x100 (checked at start-up); code points >= 0x100 are '
        'sent to the model only when printable',
    ]
    ASSUMPTIONS = ['legal string ordinals are sequences of Unicode scalar values (no lone surrogates)',
                   'timezone offsets are whole minutes; NaN ordinals compare equal to NaN and -0.0 to 0.0 (Python ==)',
                   'int(str) digit limit (4300 digits) is not reached',
                   'a release is immutable: two different package contents never share a manifest; where a history puts an equal '
                   'manifest over other content at the install target nothing is demanded of the installed components '
                   '(already-installed shortcut of Package.install; Lean: C18_store_install_partial / _counterexample)',
                   'histories: sys.path is restored after every operation (Package.install leaves its target on it); the mtime of a '
                   'manifest file is set from the clock of the history (whole seconds) after the operation that stamped it',
                   'repr(float) contains one of ". e n" (checked on every generated float)',
                   'package directories are regular packages (with __init__.py); namespace packages are not generated']

    # ---- generators -----------------------------------------------------------------------------------
    STR_ALPHABET = ['a', 'b', 'x', 'u', 'U', '0', '1', 'f', '\\', '\\', '"', '"', "'", '#', '=', '[', ']', ',', ' ', '\t',
                    '\n', '\r', '\x00', '\x01', '\x08', '\x0c', '\x1f', '\x7f', '\x80', '\x85', '\xa0', '\xad', '\xe9',
                    '\xff', 'ł', '名', ' ', '​', '﻿', '\U0001F600', '\U0001d431', '{', '}', '.', '-', ':',
                    'T', 'Z', '$', '%']

    def _gen_ts(self):
        r = self.rng
        y = r.choice([1, 999, 1970, 2000, 2024, 9999]) if r.random() < 0.2 else r.randint(1990, 2040)
        us = r.choice([0, 0, r.randint(1, 999999), r.choice([1, 10, 100, 1000, 120000, 999999])])
        tz = r.choice([None, None, 0, r.choice([60, 120, -300, 330, 345, -570, 840, -720, 1])])
        return [y, r.randint(1, 12), r.randint(1, 28), r.randint(0, 23), r.randint(0, 59), r.randint(0, 59), us, tz]

    def _gen_str(self):
        r = self.rng
        style = r.random()
        if style < 0.35:  # benign text incl. printable non-ASCII
            return ''.join(r.choice('abcxyzuU019 _-.:/é名ł😀') for _ in range(r.randint(0, 8)))
        if style < 0.6:  # quotes, backslashes and TOML structure but nothing repr would \x-escape
            return ''.join(r.choice('ab"\'\\\\#=[],{} \t\n\rxuU0') for _ in range(r.randint(0, 8)))
        return ''.join(r.choice(self.STR_ALPHABET) for _ in range(r.randint(0, 8)))

    def _gen_ordinal(self):
        r = self.rng
        kind = r.choice(['none', 'int', 'float', 'bool', 'str', 'str', 'str', 'str', 'date', 'datetime', 'decimal'])
        if kind == 'none':
            return None
        if kind == 'int':
            return ['int', r.choice([0, 1, -1, 2 ** 63, -2 ** 63 - 1, 2 ** 70, r.randint(-10 ** 6, 10 ** 6), r.randint(0, 2 ** 40)])]
        if kind == 'float':
            x = r.choice([0.0, -0.0, 1.5, 2.0, 1e20, 1e22, 1e-7, 5e-324, 1.7976931348623157e308, float('inf'), float('-inf'),
                          float('nan'), 0.1, r.random(), r.uniform(-1e6, 1e6), r.uniform(-1, 1) * 10 ** r.randint(-30, 30)])
            return ['float', fbits(x)]
        if kind == 'bool':
            return ['bool', r.random() < 0.5]
        if kind == 'str':
            return ['str', cps(self._gen_str())]
        if kind == 'date':
            return ['date', r.choice([1, 1970, 2024, 9999, r.randint(1900, 2100)]), r.randint(1, 12), r.randint(1, 28)]
        if kind == 'datetime':
            return ['datetime', self._gen_ts()]
        d = r.choice(['1.5', '0', '-3', '10.25', '1E+2', '0.1', '123456789.123456789', str(r.randint(-999, 999)) + '.' + str(r.randint(0, 999))])
        return ord_canon(decimal.Decimal(d))

    def _gen_tag(self) -> dict:
        r = self.rng
        score = r.choice([None, None, ['float', fbits(r.choice([0.0, 0.25, 1.0, r.random(), -r.random() * 100]))], ['int', r.randint(0, 5)]])
        train_ts = self._gen_ts() if r.random() < 0.8 else None
        tune_ts = self._gen_ts() if r.random() < 0.35 else None
        # a mode without timestamp is falsy and `Tag.__new__` replaces it by an empty one: ordinal / score exist
        # only on triggered modes (that is what "reachable through the lifecycle" means)
        return {'train_ts': train_ts,
                'ordinal': self._gen_ordinal() if train_ts is not None else None,
                'tune_ts': tune_ts,
                'score': score if tune_ts is not None else None,
                'states': [r.getrandbits(128) for _ in range(r.choice([0, 0, 1, 2, 3, 5, 8]))]}

    TAG_CORPUS = [
        {'train_ts': None, 'ordinal': None, 'tune_ts': None, 'score': None, 'states': []},
        {'train_ts': None, 'ordinal': None, 'tune_ts': [2020, 1, 2, 3, 4, 5, 0, None], 'score': ['float', fbits(0.5)], 'states': []},
        {'train_ts': None, 'ordinal': None, 'tune_ts': None, 'score': None, 'states': [1, 2]},
        {'train_ts': [2020, 1, 2, 3, 4, 5, 0, None], 'ordinal': ['str', cps('a\x01b')], 'tune_ts': None, 'score': None, 'states': []},
        {'train_ts': [2020, 1, 2, 3, 4, 5, 0, None], 'ordinal': ['str', cps('a\\xb')], 'tune_ts': None, 'score': None, 'states': []},
        {'train_ts': [2020, 1, 2, 3, 4, 5, 0, None], 'ordinal': ['str', cps('\x85')], 'tune_ts': None, 'score': None, 'states': []},
        {'train_ts': [2020, 1, 2, 3, 4, 5, 0, None], 'ordinal': ['str', cps('"')], 'tune_ts': None, 'score': None, 'states': []},
        {'train_ts': [2020, 1, 2, 3, 4, 5, 0, None], 'ordinal': ['str', cps('""x')], 'tune_ts': None, 'score': None, 'states': []},
        {'train_ts': [2020, 1, 2, 3, 4, 5, 0, None], 'ordinal': ['str', cps(' \\u}')], 'tune_ts': None, 'score': None, 'states': []},
        {'train_ts': [2020, 1, 2, 3, 4, 5, 0, None], 'ordinal': ['decimal', cps('1.5'), 1, fbits(1.5)], 'tune_ts': None, 'score': None, 'states': []},
        {'train_ts': [2020, 1, 2, 3, 4, 5, 123, 0], 'ordinal': ['str', cps('')], 'tune_ts': None, 'score': None, 'states': [0]},
        {'train_ts': [1, 1, 1, 0, 0, 0, 0, None], 'ordinal': ['str', cps('2020-01-01')], 'tune_ts': None, 'score': None, 'states': []},
        {'train_ts': [2020, 1, 2, 3, 4, 5, 0, -570], 'ordinal': ['datetime', [2021, 2, 3, 0, 0, 0, 0, 345]], 'tune_ts': None, 'score': None, 'states': []},
    ]

    # ---- tags: implementation, oracle ---------------------------------------------------------------------
    @staticmethod
    def _impl_tag(c: dict, lifecycle: bool):
        """-> {'built': canon, 'dump': ('ok', text) | ('error', cls), 'load': ('ok', canon) | ('error', cls)}"""
        from forml.io.asset._directory.level.minor import Tag

        tag = tag_build(c, lifecycle)
        out = {'built': tag_canon(tag)}
        try:
            raw = tag.dumps()
        except Exception as e:  # pylint: disable=broad-except
            out['dump'] = ('error', type(e).__name__)
            return out
        out['dump'] = ('ok', raw.decode('utf-8'))
        try:
            back = Tag.loads(raw)
        except Exception as e:  # pylint: disable=broad-except
            out['load'] = ('error', type(e).__name__)
            return out
        out['load'] = ('ok', tag_canon(back))
        return out

    @staticmethod
    def _tag_signature(c: dict, res: dict) -> str:
        o = c['ordinal']
        failed = res['dump'][0] == 'error' or res['load'][0] == 'error'
        if c['train_ts'] is None and res['dump'][0] == 'ok' and res['load'] == ('error', 'KeyError'):
            return SIG_TS
        if o is not None and o[0] == 'str':
            s = uncps(o[1])
            others_ok = failed or all(res['load'][1][k] == c[k] for k in ('train_ts', 'tune_ts', 'score', 'states'))
            if others_ok:
                if x_trigger(s):
                    return SIG_X
                if leading_quotes(s):
                    return SIG_Q
                if u_trigger(s):
                    return SIG_U
        if o is not None and o[0] == 'decimal' and not failed:
            if res['load'][1] in (dict(c, ordinal=['float', o[3]]), dict(c, ordinal=['int', o[2]])):
                return SIG_DEC
        kind = 'none' if o is None else o[0]
        how = 'dump-error' if res['dump'][0] == 'error' else 'load-error' if res['load'][0] == 'error' else 'differs'
        return f'tag-roundtrip-{how}-ordinal-{kind}'

    def _oracle_tag(self, c: dict, res: dict):
        """Property text: a tag reads back equal to what was written (all fields, exact types). -> None | (what, sig)"""
        if (c['ordinal'] is not None and c['train_ts'] is None) or (c['score'] is not None and c['tune_ts'] is None):
            return None  # not a tag reachable through the lifecycle (a mode without timestamp is empty): nothing is demanded
        if res['built'] != c:
            return (f'Tag setters did not produce the requested tag: {res["built"]}', 'tag-lifecycle-setters')
        if res['dump'][0] == 'error':
            what = f'Tag.dumps raised {res["dump"][1]}'
        elif res['load'][0] == 'error':
            what = f'Tag.loads(tag.dumps()) raised {res["load"][1]}'
        elif res['load'][1] != c:
            diff = [k for k in c if res['load'][1][k] != c[k]]
            what = f'Tag.loads(tag.dumps()) differs from the tag in {diff}: got {({k: res["load"][1][k] for k in diff})}'
        else:
            return None
        return what, self._tag_signature(c, res)

    def _shrink_tag(self, c: dict, sig: str) -> dict:
        """Greedy: drop optional parts / characters while the same root cause is still reported."""
        def fails(cand):
            v = self._oracle_tag(cand, self._impl_tag(cand, False))
            return v is not None and v[1] == sig

        cur = dict(c)
        for k, v in (('states', []), ('tune_ts', None), ('score', None)):
            cand = dict(cur, **{k: v})
            if cur[k] != v and fails(cand):
                cur = cand
        if cur['train_ts'] is not None:
            cand = dict(cur, train_ts=[2020, 1, 2, 3, 4, 5, 0, None])
            if fails(cand):
                cur = cand
        if cur['ordinal'] is not None and cur['ordinal'][0] == 'str':
            s = list(cur['ordinal'][1])
            i = 0
            while i < len(s):
                cand = dict(cur, ordinal=['str', s[:i] + s[i + 1:]])
                if fails(cand):
                    s = s[:i] + s[i + 1:]
                    cur = cand
                else:
                    i += 1
        return cur

    @staticmethod
    def _toml_shape(text: str):
        """keys per section and the raw literal of a string ordinal, read off the writer's text"""
        keys = {'': [], 'training': [], 'tuning': []}
        sect, lit = '', None
        for line in text.split('\n'):
            if line.startswith('[') and line.endswith(']') and line[1:-1] in keys:
                sect = line[1:-1]
            elif ' = ' in line:
                k, v = line.split(' = ', 1)
                keys.setdefault(sect, []).append(k)
                if sect == 'training' and k == 'ordinal' and v.startswith('"'):
                    lit = v
        return keys, lit

    def _tags(self):
        cases = [(c, False) for c in self.TAG_CORPUS]
        for _ in range(self.n(2000, 40000)):
            cases.append((self._gen_tag(), self.rng.random() < 0.5))
        lines, idx = [], []
        for i, (c, _) in enumerate(cases):
            o = c['ordinal']
            if o is None or o[0] != 'str' or modelled_str(uncps(o[1])):
                idx.append(i)
                lines.append(tag_sexp(c))
        answers = dict(zip(idx, self.model(lines)))
        reported: dict[str, int] = {}
        for i, (c, lifecycle) in enumerate(cases):
            res = self._impl_tag(c, lifecycle)
            o = c['ordinal']
            kind = 'none' if o is None else o[0]
            region = ''
            if kind == 'str':
                s = uncps(o[1])
                region = ' x-escape' if x_trigger(s) else ' leading-quotes' if leading_quotes(s) else ' u-escape' if u_trigger(s) else ' safe'
            shape = (f'tag train_ts={"y" if c["train_ts"] else "n"} tune_ts={"y" if c["tune_ts"] else "n"} '
                     f'ordinal={kind}{region}')
            self.case(json.dumps(c, sort_keys=True), shape, nontrivial=any(c[k] for k in ('train_ts', 'ordinal', 'tune_ts', 'score', 'states')),
                      sample={'tag': c, 'toml': res['dump'][1] if res['dump'][0] == 'ok' else res['dump']} if i % 97 == 13 else None)
            v = self._oracle_tag(c, res)
            if v is not None:
                what, sig = v
                if reported.get(sig, 0) < 3:
                    reported[sig] = reported.get(sig, 0) + 1
                    w = self._shrink_tag(c, sig)
                    v2 = self._oracle_tag(w, self._impl_tag(w, False))
                    self.violate(v2[0] if v2 else what, {'kind': 'tag', 'tag': w}, sig)
            if i in answers:
                self._compare_tag(c, res, sexp.loads(answers[i]), kind, region)

    def _drift(self, what: str, case, impl, model):
        """The real code and the model differ in *incidental mechanism* (text written, member order, install mode)
        while nothing the property talks about is affected on this case: counted and reported in the evidence,
        never an alarm (a harmless refactoring of forml must stay quiet)."""
        d = self.extra.setdefault('mechanism_drift', {})
        if what not in d:
            d[what] = {'count': 0, 'first': {'case': case, 'impl': impl, 'model': model}}
        d[what]['count'] += 1

    def _compare_tag(self, c, res, m, kind, region):
        """Behaviour the property talks about = does the tag read back equal.  The model predicting a round trip that
        the real code does not deliver is a divergence (and the oracle has reported the failing tag); the real code
        doing better than the model, or failing in another shape inside a region where both fail, is drift."""
        if m == 'bad-op':
            raise fw.MachineryError(f'model rejected {c}')
        impl_ok = res['dump'][0] == 'ok' and res.get('load') == ('ok', c)
        if m[0] == 'error':
            model_ok, mview = False, m
        else:
            mload = m[4]
            model_ok = mload[0] == 'ok' and unsx_tag(mload[1]) == c
            mview = mload
        if model_ok and not impl_ok:
            self.diverge('Tag.loads(Tag.dumps(t)): the model reads the tag back, the implementation does not', c,
                         res.get('load', res['dump']), 'ok')
            return
        if impl_ok and not model_ok:
            self._drift('tag round-trips in the implementation but not in the model (model pessimistic)', c, 'ok', mview)
            return
        if not impl_ok:  # both fail: the shape of the failure is incidental (same region, reported by the oracle)
            if m[0] == 'error':
                same = res['dump'] == ('error', m[1])
            elif m[4][0] == 'error':
                same = res.get('load') == ('error', m[4][1])
            else:
                same = res.get('load') == ('ok', unsx_tag(m[4][1]))
            if not same and region not in (' x-escape', ' u-escape'):
                self._drift('tag fails to round-trip in both, in different ways', c, res.get('load', res['dump']), mview)
            return
        # both round-trip: what was written (mechanism; informational)
        keys, lit = self._toml_shape(res['dump'][1])
        mlit = None if m[3] == 'none' else uncps(sexp.num(m[3]))
        if sorted(keys['training']) != sorted(m[1]) or sorted(keys['tuning']) != sorted(m[2]):
            self._drift('keys written by Tag.dumps', c, keys, [m[1], m[2]])
        if kind == 'str' and lit != mlit:
            self._drift('TOML literal of a string ordinal', c, lit, mlit)

    # ---- keys -----------------------------------------------------------------------------------------
    def _genkeys(self):
        from forml.io import asset

        K = asset.Generation.Key
        r = self.rng
        texts = ['1', '0', '-1', '+5', ' 7 ', '007', '1_0', '1__0', '_1', '1_', '', ' ', '+', '-', '1.0', 'abc', '\t3\n', '3\x0b',
                 '\x0c3', '1 2', '+ 1', '-0', '+0', '00', '1e3', '0x10', '1_000_000', '99999999999999999999999', ' +1_2 ', '--1', '1-']
        for _ in range(self.n(600, 6000)):
            style = r.random()
            if style < 0.4:
                texts.append(''.join(r.choice('0123456789') for _ in range(r.randint(1, 25))))
            elif style < 0.8:
                texts.append(''.join(r.choice('0011223456789 _+-\t\n\x0b') for _ in range(r.randint(0, 7))))
            else:
                texts.append(''.join(r.choice('019 _+-.aeEx\x1c\x00') for _ in range(r.randint(0, 6))))
        answers = self.model([sexp.dumps(['genkey', cps(t)]) for t in texts])
        for t, ans in zip(texts, answers):
            try:
                k = K(t)
                impl = ['ok', int(k), int(k.next)]
                if type(k) is not K or type(k.next) is not K:
                    self.violate(f'Generation.Key({t!r}) is a {type(k).__name__}', {'kind': 'genkey', 'text': t}, 'genkey-type')
            except K.Invalid as e:
                impl = ['error', 'not-integer' if 'not an integer' in str(e) else 'not-natural']
            except Exception as e:  # pylint: disable=broad-except
                impl = ['error', type(e).__name__]
            m = sexp.num(sexp.loads(ans))
            self.case(('genkey', t), f'genkey -> {impl[0] if impl[0] == "ok" else impl[1]}', nontrivial=len(t) > 1)
            if impl != m:
                # the model covers ASCII text with `int()`'s ASCII white space; what other control / non-ASCII characters
                # count as strippable white space is not something the property speaks about
                if all(32 <= ord(ch) < 127 or ch in '\t\n\x0b\x0c\r' for ch in t):
                    self.diverge('Generation.Key acceptance', {'text': t}, impl, m)
                else:
                    self._drift('Generation.Key acceptance of text with exotic control characters', {'text': t}, impl, m)
            v = self._oracle_genkey(t, impl)
            if v:
                self.violate(v[0], {'kind': 'genkey', 'text': t}, v[1])
        # integers and keys as input; Key(k) = k; next
        for n in [1, 2, 10, 2 ** 64, 0, -3] + [r.randint(1, 10 ** 9) for _ in range(self.n(50, 500))]:
            self.case(('genkey-int', n), 'genkey int', nontrivial=False)
            try:
                k = K(n)
                ok = int(k) == n and int(K(k)) == n and int(K(str(k))) == n and int(k.next) == n + 1 and n >= 1
            except K.Invalid:
                ok = n < 1
            if not ok:
                self.violate(f'Generation.Key({n}) is not the natural number {n} (or was accepted below one)',
                             {'kind': 'genkey-int', 'n': n}, 'genkey-int')

    @staticmethod
    def _oracle_genkey(t: str, impl):
        """accepted <=> the text denotes an integer >= 1 (only the unambiguous part of that is demanded)"""
        if re.fullmatch(r'[1-9][0-9]*', t):
            if impl[:2] != ['ok', int(t)] or impl[2] != int(t) + 1:
                return f'canonical natural number {t!r} gives {impl}', 'genkey-rejects-natural'
        elif re.search(r'[^0-9+\-_\s]', t) or not re.search(r'[0-9]', t) or re.fullmatch(r'\s*[+-]?0+\s*', t) or re.fullmatch(r'\s*-[0-9_]+\s*', t):
            if impl[0] != 'error':
                return f'{t!r} does not denote an integer >= 1 but gives {impl}', 'genkey-accepts-invalid'
        elif impl[0] == 'ok':
            digits = re.sub(r'[^0-9]', '', t)
            if impl[1] != int(digits) or impl[1] < 1:
                return f'{t!r} accepted as {impl[1]}', 'genkey-wrong-value'
        return None

    def _listings(self):
        from forml.io import asset

        K, L = asset.Generation.Key, asset.Level.Listing
        r = self.rng
        sets = [[], [1], [3, 1, 3, 2], [5, 5, 5]]
        for _ in range(self.n(300, 3000)):
            hi = r.choice([3, 10, 1000])
            sets.append([r.randint(1, hi) for _ in range(r.randint(0, 12))])
        answers = self.model([sexp.dumps(['listing', s]) for s in sets])
        for s, ans in zip(sets, answers):
            lst = L(K(i) for i in s)
            impl = [int(k) for k in lst]
            try:
                last = int(lst.last)
            except L.Empty:
                last = 'Empty'
            m = sexp.num(sexp.loads(ans))
            self.case(('listing', tuple(s)), f'listing gen n={len(s)} dup={"y" if len(set(s)) < len(s) else "n"}', nontrivial=len(s) > 1)
            if [impl, last] != m:
                self.diverge('Listing of generation keys', s, [impl, last], m)
            spec = sorted(set(s))
            if impl != spec or last != (spec[-1] if spec else 'Empty') or (spec and (int(lst.last.next) in s)):
                v = self._shrink_keys({'kind': 'listing', 'keys': s})
                self.violate(v.what, v.witness, v.signature)

    VERSION_CORPUS = ['0', '1', '1.0', '1.0.0', '01.02', 'v1.0', ' 1.0 ', '1.0-1', '1.0.post1', '1.0a', '1.0alpha1', '1.0-rc.1', '1.0c1',
                      '1.0-preview3', '1.0_r4', '1.0+abc.1', '1.0+ABC-1', '1.0+a_b', '1!1', '1!0.5', '1.0.dev', '1.0.dev1', '1.0a1.dev1',
                      '1.0.post1.dev2', '1.0a1.post1', '1.0rc1', '1.0b2', '1.9', '1.10', '1.0+1', '1.0+a', '1.0+a.1', '1.0+1.a', '1.0+10',
                      '2', '1.0.0.0.1', '1.0+0']
    BAD_VERSIONS = ['', 'abc', '1..0', '1.0+', '1.0+a..b', '1.0-', '1.0.x', '!1', '1!', '1.0 a', 'one', '1,0', '1.0+é', '-1']

    def _gen_version(self) -> str:
        r = self.rng
        s = ''
        if r.random() < 0.15:
            s += f'{r.randint(0, 2)}!'
        s += '.'.join(str(r.choice([0, 0, 1, 2, 9, 10, r.randint(0, 30)])) for _ in range(r.randint(1, 4)))
        if r.random() < 0.35:
            s += r.choice(['', '.', '-', '_']) + r.choice(['a', 'b', 'rc', 'alpha', 'beta', 'c', 'pre', 'preview', 'RC', 'A']) + \
                r.choice(['', '.', '-']) + r.choice(['', str(r.randint(0, 3))])
        if r.random() < 0.3:
            s += r.choice(['.post', '-post', 'post', '.rev', '-r', '.POST', '-']) + str(r.randint(0, 3))
        if r.random() < 0.3:
            s += r.choice(['.dev', '-dev', 'dev', '_dev', '.DEV']) + r.choice(['', str(r.randint(0, 3))])
        if r.random() < 0.25:
            s += '+' + r.choice(['.', '-', '_']).join(r.choice(['1', '2', '10', 'a', 'b', 'ab', 'Ubuntu', '0', '01', 'a1'])
                                                      for _ in range(r.randint(1, 3)))
        if r.random() < 0.1:
            s = r.choice(['v', ' ', 'V']) + s + r.choice(['', ' ', '\n'])
        return s

    def _versions(self):
        from forml.io import asset
        from packaging import version as vermod

        R, L = asset.Release.Key, asset.Level.Listing
        r = self.rng
        texts = list(self.VERSION_CORPUS) + [self._gen_version() for _ in range(self.n(400, 4000))]
        good = []
        for t in texts + self.BAD_VERSIONS:
            spec = pep440_key(t)
            try:
                k = R(t)
            except R.Invalid:
                k = None
            except Exception as e:  # pylint: disable=broad-except
                k = e
            self.case(('relkey', t), f'release key {"accepted" if k is not None and not isinstance(k, Exception) else "rejected"}', nontrivial=True)
            if isinstance(k, Exception) or (k is None) != (spec is None):
                self.violate(f'Release.Key({t!r}) {"raised " + repr(k) if isinstance(k, Exception) else "accepted" if k is not None else "rejected"}'
                             f' but PEP 440 says {"invalid" if spec is None else "valid"}', {'kind': 'relkey', 'text': t}, 'release-key-acceptance')
            elif k is not None:
                good.append((t, k, spec))
        # normalised text: model vs str(); re-reading the normalised text gives an equal key
        answers = self.model([sexp.dumps(['vstr', version_struct(k)]) for _, k, _ in good])
        for (t, k, spec), ans in zip(good, answers):
            m = uncps(sexp.num(sexp.loads(ans)))
            if m != str(k):
                self.diverge('str(Release.Key)', t, str(k), m)
            if not (R(str(k)) == k and hash(R(str(k))) == hash(k) and pep440_key(str(k)) == spec):
                self.violate(f'Release.Key({t!r}) != Release.Key(str(it)) = {str(k)!r}', {'kind': 'relkey-str', 'text': t}, 'release-key-str')
        # pairwise order: implementation vs model vs PEP 440 key
        pairs = [(r.choice(good), r.choice(good)) for _ in range(self.n(1500, 15000))]
        pairs += [(good[i], good[j]) for i in range(len(self.VERSION_CORPUS)) for j in range(len(self.VERSION_CORPUS))]
        answers = self.model([sexp.dumps(['vcmp', version_struct(a[1]), version_struct(b[1])]) for a, b in pairs])
        for (a, b), ans in zip(pairs, answers):
            impl = 'lt' if a[1] < b[1] else 'gt' if a[1] > b[1] else 'eq' if a[1] == b[1] else 'incomparable'
            spec = 'lt' if a[2] < b[2] else 'gt' if a[2] > b[2] else 'eq'
            self.case(('vcmp', a[0], b[0]), f'version order {spec}', nontrivial=a[0] != b[0])
            if impl != ans:
                self.diverge('Release.Key comparison', [a[0], b[0]], impl, ans)
            consistent = (a[1] <= b[1]) == (impl in ('lt', 'eq')) and (a[1] >= b[1]) == (impl in ('gt', 'eq')) and \
                (a[1] != b[1]) == (impl != 'eq') and (impl != 'eq' or hash(a[1]) == hash(b[1])) and \
                (a[1] < b[1]) == (vermod.Version(a[0]) < vermod.Version(b[0]))
            if impl != spec or not consistent:
                self.violate(f'Release.Key({a[0]!r}) vs Release.Key({b[0]!r}): {impl}, PEP 440 order says {spec}',
                             {'kind': 'vcmp', 'a': a[0], 'b': b[0]}, 'release-key-order')
        # listings of release keys
        sets = [[r.choice(good) for _ in range(r.randint(0, 10))] for _ in range(self.n(200, 2000))]
        sets += [[], [good[1], good[2], good[3]]]
        answers = self.model([sexp.dumps(['vlisting', [version_struct(k) for _, k, _ in s]]) for s in sets])
        for s, ans in zip(sets, answers):
            keys = [R(t) for t, _, _ in s]  # fresh objects: identity tells which representative was kept
            lst = L(keys)
            pos = {id(k): i for i, k in enumerate(keys)}
            impl_keys = [s[pos[id(k)]][2] for k in lst]
            try:
                last = s[pos[id(lst.last)]][2]
            except L.Empty:
                last = 'Empty'
            m = sexp.num(sexp.loads(ans))
            mkeys = [s[i][2] for i in m[0]]
            mlast = 'Empty' if m[1] == 'Empty' else s[m[1]][2]
            self.case(('vlisting', tuple(t for t, _, _ in s)), f'listing rel n={len(s)}', nontrivial=len(s) > 1)
            if (impl_keys, last) != (mkeys, mlast):
                self.diverge('Listing of release keys', [t for t, _, _ in s], [str(k) for k in lst], m)
            spec = sorted({k for _, _, k in s})
            if impl_keys != spec or last != (spec[-1] if spec else 'Empty'):
                w = {'kind': 'vlisting', 'keys': [t for t, _, _ in s]}
                v = self._shrink_keys(w) if self._replay_keys(w) else fw.Violation(f'Listing({w["keys"]}) = {[str(k) for k in lst]}', w, 'listing-release')
                self.violate(v.what, v.witness, v.signature)
        # Level.key: implicit key = last of the parent's listing; unknown explicit keys are refused
        self._level_keys()

    def _level_keys(self):
        """`Level.key`: an implicit key is the maximum of the parent's listing ("latest"); an empty listing has no latest.
        Random registry contents through the public Directory API."""
        r = self.rng
        fixed = {'1.0': [1, 2, 7], '1.10': [3], '1.9': [], '1.10.dev1': [9]}
        contents = [fixed]
        pool = ['0.1', '0.9', '0.10', '1', '1.0.1', '1.9', '1.10', '2.0a1', '2.0rc1', '2.0', '2.0.post1', '2.0.dev3', '1!0.1', '10', '9']
        for _ in range(self.n(40, 400)):
            rels = r.sample(pool, r.randint(0, 6))
            contents.append({rel: r.sample(range(1, 40), r.choice([0, 1, 2, 5])) for rel in rels})
        for content in contents:
            listed = {rel: list(gens) + ([gens[0]] if gens and r.random() < 0.3 else []) for rel, gens in content.items()}
            shuffled = dict(r.sample(sorted(listed.items()), len(listed)))
            self.case(('level-key', json.dumps(shuffled, sort_keys=True)), f'level key releases={len(content)}', nontrivial=len(content) > 1)
            for what, sig in self._level_key_case(shuffled):
                self.violate(what, {'kind': 'level-key', 'content': shuffled}, sig)

    @staticmethod
    def _level_key_case(content: dict) -> list:
        """content: {release text: [generation numbers]} as the registry lists them (any order, repeats allowed)"""
        from forml.io import asset
        from props.c17 import _registry_double

        out = []
        proj = asset.Directory(_registry_double()({'p': content})).get('p')
        want_rel = max(content, key=pep440_key) if content else None
        try:
            got_rel = str(proj.get().key)
        except asset.Level.Listing.Empty:
            got_rel = None
        except Exception as e:  # pylint: disable=broad-except
            got_rel = f'{type(e).__name__}: {e}'
        if got_rel != want_rel:
            return [(f'latest release of {sorted(content)} resolved to {got_rel}, the PEP 440 maximum is {want_rel}', 'level-implicit-key')]
        for rel, gens in content.items():
            want = max(gens) if gens else None
            try:
                got = int(proj.get(rel).get().key)
            except asset.Level.Listing.Empty:
                got = None
            except Exception as e:  # pylint: disable=broad-except
                got = f'{type(e).__name__}: {e}'
            if got != want:
                out.append((f'latest generation of release {rel} with generations {gens} resolved to {got}, the maximum is {want}', 'level-implicit-key'))
        return out

    # ---- manifests ------------------------------------------------------------------------------------
    IDENT_START = 'abcdefgxyzABC_'
    IDENT_REST = 'abcdefgxyz_0123456789'

    def _gen_ident(self, exotic: float = 0.0) -> str:
        r = self.rng
        s = r.choice(self.IDENT_START) + ''.join(r.choice(self.IDENT_REST) for _ in range(r.randint(0, 6)))
        if r.random() < exotic:
            s += r.choice(['é', 'ł', '名', 'ß', 'λ', '\U0001d431', '\U00020000'])
        return s

    def _gen_dotted(self, exotic: float = 0.0) -> str:
        return '.'.join(self._gen_ident(exotic) for _ in range(self.rng.randint(1, 3)))

    def _gen_name(self) -> str:
        r = self.rng
        alnum = 'abcdefghijklmnopqrstuvwxyzABCXYZ0123456789'
        n = r.randint(1, 12)
        if n == 1:
            return r.choice(alnum)
        return r.choice(alnum) + ''.join(r.choice(alnum + '-._') for _ in range(n - 2)) + r.choice(alnum)

    def _gen_modules(self) -> dict:
        r = self.rng
        mods = {}
        for comp in r.sample(['source', 'pipeline', 'evaluation', 'extra', 'with space', 'ключ'], r.choice([0, 0, 1, 2, 3, 4])):
            style = r.random()
            if style < 0.6:
                mods[comp] = self._gen_dotted(0.15)
            elif style < 0.9:
                mods[comp] = ''.join(r.choice('ab. "\'\\/\t\n{}:,$%#') for _ in range(r.randint(0, 6)))
            else:
                mods[comp] = ''.join(r.choice(self.STR_ALPHABET) for _ in range(r.randint(0, 6)))
        return mods

    def _impl_manifest(self, name, version, package, modules):
        from forml.project import _distribution as dist

        with tempfile.TemporaryDirectory(prefix='verif-c18-m-') as tmp:
            m = dist.Manifest(name, version, package, **modules)
            m.write(tmp)
            with open(dist.Manifest.path(tmp), encoding='utf-8') as f:
                text = f.read()
            try:
                back = dist.Manifest.read(tmp)
            except Exception as e:  # pylint: disable=broad-except
                return m, text, ('error', type(e).__name__)
            return m, text, ('ok', back)

    @staticmethod
    def _manifest_equal(m, back) -> bool:
        return (back == m and type(back.name) is type(m.name) and str(back.name) == str(m.name)
                and back.version == m.version and str(back.version) == str(m.version)
                and type(back.package) is str and back.package == m.package
                and dict(back.modules) == dict(m.modules)  # a mapping: the order of the entries is not part of equality
                and all(type(v) is str for v in back.modules.values()))

    def _manifests(self):
        r = self.rng
        cases = [('foo', '1.0.0-rc1', 'a.b', {'pipeline': 'x.y', 'source': 'z'}), ('foo-bar.baz_q', '1!2.0.post1.dev3+ubuntu.1', 'a.b', {}),
                 ('f', '0', '', {}), ('foo', '1', 'a', {'pipeline': 'p.\U0001d431'}), ('foo', '1', 'a', {'pipeline': 'a"b\\c\nd'}),
                 ('foo', '1', 'a', {'source': 'é.ł', 'evaluation': '\x7f\x00'})]
        for _ in range(self.n(300, 6000)):
            cases.append((self._gen_name(), self._gen_version().strip().lstrip('vV') or '1', self._gen_dotted() if r.random() < 0.9 else '',
                          self._gen_modules()))
        cases = [c for c in cases if pep440_key(c[1]) is not None]
        impl = [self._impl_manifest(*c) for c in cases]
        lines = [sexp.dumps(['manifest', cps(c[0]), cps(str(m.version)), cps(c[2]), [[cps(k), cps(v)] for k, v in c[3].items()]])
                 for c, (m, _, _) in zip(cases, impl)]
        answers = self.model(lines)
        for c, (m, text, back), ans in zip(cases, impl, answers):
            name, version, package, modules = c
            astral = any(ord(ch) > 0xFFFF for k, v in modules.items() for ch in k + v)
            self.case(('manifest', name, version, package, tuple(modules.items())),
                      f'manifest modules={len(modules)}{" non-bmp" if astral else ""}', nontrivial=bool(modules),
                      sample={'manifest': [name, version, package, modules], 'text': text} if len(modules) == 2 and r.random() < 0.05 else None)
            mm = sexp.loads(ans)
            written = [name, str(m.version), package, [[k, v] for k, v in modules.items()]]
            impl_ok = back[0] == 'ok' and self._manifest_equal(m, back[1])
            mback = None
            if mm[1][0] == 'ok':
                mback = [uncps(sexp.num(mm[1][1])), uncps(sexp.num(mm[1][2])), uncps(sexp.num(mm[1][3])),
                         [[uncps(sexp.num(k)), uncps(sexp.num(v))] for k, v in mm[1][4]]]
            model_ok = mback == written
            iback = back if back[0] == 'error' else [str(back[1].name), str(back[1].version), back[1].package,
                                                     [[k, v] for k, v in back[1].modules.items()]]
            if model_ok and not impl_ok:
                self.diverge('Manifest.read(Manifest.write(m)): the model reads the manifest back, the implementation does not', list(c), iback, 'ok')
            elif impl_ok and not model_ok:
                self._drift('manifest round-trips in the implementation but not in the model (model pessimistic)', list(c), 'ok', mm[1])
            elif not impl_ok and iback != (mback if mback is not None else ('error', 'SyntaxError')) and mm[1][1:] != ['out-of-model']:
                self._drift('manifest fails to round-trip in both, in different ways', list(c), iback, mm[1])
            elif uncps(sexp.num(mm[0])) != text:
                self._drift('manifest module text', list(c), text, uncps(sexp.num(mm[0])))
            # oracle: the manifest reads back equal to what was written
            if back[0] == 'error' or not self._manifest_equal(m, back[1]):
                got = back[1] if back[0] == 'error' else [str(back[1].name), str(back[1].version), back[1].package, dict(back[1].modules)]
                ok_but_modules = back[0] == 'ok' and (str(back[1].name), back[1].version, back[1].package) == (name, m.version, package)
                sig = SIG_ASTRAL if astral and ok_but_modules else 'manifest-roundtrip'
                w = {'kind': 'manifest', 'name': name, 'version': version, 'package': package, 'modules': modules}
                if sig == SIG_ASTRAL:  # minimise: one entry, one offending character
                    k, v = next((k, v) for k, v in modules.items() if any(ord(ch) > 0xFFFF for ch in k + v))
                    w = {'kind': 'manifest', 'name': 'p', 'version': '1', 'package': 'a',
                         'modules': {''.join(ch for ch in k if ord(ch) > 0xFFFF)[:1] or 'source': ''.join(ch for ch in v if ord(ch) > 0xFFFF)[:1] or 'm'}}
                    if self._replay_manifest(w) is None:
                        w = {'kind': 'manifest', 'name': name, 'version': version, 'package': package, 'modules': modules}
                self.violate(f'Manifest({name!r}, {version!r}, {package!r}, **{modules!r}) reads back as {got}', w, sig)
        # names outside the legal alphabet: characterised in the model (C18_manifest_illegal_name); no demand on the code
        for name in ['fo"o', 'fo\\\\o', 'fo\\qo', 'a\\nb', 'x\\', 'tab\\there', 'a\\"b', 'q\\u0041']:
            m, text, back = self._impl_manifest(name, '1', 'a', {})
            mm = sexp.loads(self.model([sexp.dumps(['manifest', cps(name), cps('1'), cps('a'), []])])[0])
            self.case(('manifest-illegal', name), 'manifest illegal name', nontrivial=False)
            iname = back if back[0] == 'error' else str(back[1].name)
            mname = uncps(sexp.num(mm[1][1])) if mm[1][0] == 'ok' else ('error', 'SyntaxError' if mm[1][1] == 'syntax' else mm[1][1])
            if iname != mname or uncps(sexp.num(mm[0])) != text:
                self._drift('Manifest write/read of a name outside the legal alphabet', name, iname, mname)

    def _replay_manifest(self, w):
        m, _, back = self._impl_manifest(w['name'], w['version'], w['package'], w['modules'])
        if back[0] == 'error' or not self._manifest_equal(m, back[1]):
            astral = any(ord(ch) > 0xFFFF for k, v in w['modules'].items() for ch in k + v)
            got = back[1] if back[0] == 'error' else dict(back[1].modules)
            return fw.Violation(f'Manifest {w["name"]}-{w["version"]} with modules {w["modules"]!r} reads back as {got}', w,
                                SIG_ASTRAL if astral and back[0] == 'ok' else 'manifest-roundtrip')
        return None

    # ---- packages -------------------------------------------------------------------------------------
    SRC = ('from forml import project\nfrom forml.io import dsl\n\n\nclass {tok}(dsl.Schema):\n    x = dsl.Field(dsl.Integer())\n\n\n'
           'project.setup(project.Source.query({tok}.select({tok}.x)))\n')
    PIPE = ('from forml import flow, project\n\n\nclass Op(flow.Operator):\n    def __init__(self, token):\n        self.token = token\n\n'
            '    def compose(self, scope):\n        return scope.expand()\n\n\nproject.setup(Op({tok!r}))\n')
    EVAL = ('from forml import evaluation, project\n\n\ndef {tok}(true, pred):\n    return 0.0\n\n\n'
            'project.setup(project.Evaluation(evaluation.Function({tok}), evaluation.HoldOut(test_size=0.2, stratify=False, random_state=1)))\n')

    @staticmethod
    def _put(tree: dict, segs: list, content) -> None:
        """plant a file (content str) in the nested tree; intermediate directories become regular packages"""
        level = tree
        for d in segs[:-1]:
            level = level.setdefault(d, {})
            level.setdefault('__init__.py', '')
        level[segs[-1]] = content

    def _gen_project(self, serial: int):
        """-> (tree as nested dict name -> str content | dict, manifest args, expected tokens).
        Package and module names are adversarial: packages whose name is a prefix of a conventional component name
        (`pipe` / `pipeline`), module names that begin with / equal / extend the package name, dotted packages, relative
        and absolute mappings, components that are packages; decoy modules with other tokens sit where a wrong
        relative / absolute decision would look."""
        r = self.rng
        uniq = f'c18p{self.seed}x{serial}'
        style = r.random()
        if style < 0.45:
            parts = [uniq] + [self._gen_ident() for _ in range(r.choice([0, 0, 1, 2]))]
        elif style < 0.75:  # the package name is a prefix of / equal to a component name
            parts = [r.choice(['s', 'so', 'sour', 'source', 'p', 'pipe', 'pipelin', 'pipeline', 'e', 'eval', 'evaluation'])]
            if r.random() < 0.3:
                parts.append(r.choice(['source', 'pipe', 'p', parts[0], self._gen_ident()]))
        elif style < 0.95:  # dotted, repeated segments
            parts = [uniq, r.choice([uniq, 'pipeline', 'source', uniq[:-1], self._gen_ident()])]
            if r.random() < 0.3:
                parts.append(r.choice([uniq, parts[1], self._gen_ident()]))
        else:
            parts = []  # no package: every component is a top-level module
        package = '.'.join(parts)
        tree: dict = {}
        if parts:
            self._put(tree, parts + ['__init__.py'], '')
        top, last = (parts[0], parts[-1]) if parts else ('', '')
        modules, tokens, used, planted = {}, {}, set(), []
        for comp, tmpl in (('source', self.SRC), ('pipeline', self.PIPE), ('evaluation', self.EVAL)):
            if comp == 'evaluation' and r.random() < 0.4:
                tokens[comp] = None
                continue
            tok = f'Tok{comp[:3]}{serial}x{r.randint(0, 10 ** 6)}'
            decoy = f'Decoy{comp[:3]}{serial}'
            tokens[comp] = tok
            names = [f'{last}_{comp}', f'{last}{comp[:3]}', last, f'{top}x', top[:-1], f'{comp}_{last}', comp + 'x', comp[:4],
                     self._gen_ident() + comp[:2], self._gen_ident() + comp[:2]]
            names = [n for n in names if n and n.isidentifier() and n not in used and n not in ('source', 'pipeline', 'evaluation')]
            kind = r.random()
            if kind < 0.4 or not names or not parts:
                bare, mapped = comp, (None if r.random() < 0.8 or not parts else f'{package}.{comp}')  # conventional name
            else:
                bare = r.choice(names)
                mapped = bare if kind < 0.75 else f'{package}.{bare}'
            used.add(bare)
            sub = None
            if parts and mapped is not None and '.' not in mapped and r.random() < 0.15:
                sub = r.choice(['sub', 'impl', comp[:3] + 'pkg'])  # a relative dotted mapping (never starting with the package name)
                if sub != top:
                    mapped = f'{sub}.{bare}'
                else:
                    sub = None
            if mapped is not None:
                modules[comp] = mapped
            where = parts + ([sub] if sub else [])
            if r.random() < 0.15:
                self._put(tree, where + [bare, '__init__.py'], tmpl.format(tok=tok))  # the component is a package
            else:
                self._put(tree, where + [bare + '.py'], tmpl.format(tok=tok))
            planted.append((bare, tmpl, decoy))
        # decoys: where the name would be found if a relative name were taken as absolute, or the other way round
        for bare, tmpl, decoy in planted:
            if parts and bare != top and bare not in tree and bare + '.py' not in tree and r.random() < 0.7:
                tree[bare + '.py'] = tmpl.format(tok=decoy)
            if len(parts) == 1 and top not in used and top not in ('source', 'pipeline', 'evaluation') and top not in tree[top] and top + '.py' not in tree[top] and r.random() < 0.3:
                self._put(tree, [top, top, bare + '.py'], tmpl.format(tok=decoy + 'n'))
            elif len(parts) == 1 and isinstance(tree[top].get(top), dict) and top not in used:
                tree[top][top].setdefault(bare + '.py', tmpl.format(tok=decoy + 'n'))
        level = tree
        for p in parts:
            level = level[p]
        # decoys and extras
        if r.random() < 0.5:
            level['__pycache__'] = {'junk.cpython-312.pyc': 'junk'}
        if r.random() < 0.3:
            tree[f'{uniq}-1.0.dist-info'] = {'METADATA': 'Name: x'}
        if r.random() < 0.4:
            tree['__4ml__.py'] = 'NAME = "stale"\nVERSION = "0"\nPACKAGE = "stale"\nMODULES = {}'
        if r.random() < 0.3 and parts:
            level['__4ml__.py'] = '# nested file of the same name is ordinary content\n'
        if r.random() < 0.5:
            level[r.choice(['data.csv', 'README', 'conf.toml', 'x.pyc.txt'])] = 'a,b\n1,2\n'
        if r.random() < 0.3:
            level['helper.py'] = 'VALUE = 1\n'
        if r.random() < 0.2:
            level['emptydir'] = {}
        if parts and r.random() < 0.05:
            package += '.'  # `Components.load` strips trailing dots
        manifest = (self._gen_name(), self._gen_version().strip().lstrip('vV') or '1', package, modules)
        return tree, manifest, tokens

    @staticmethod
    def _materialise(tree: dict, root: pathlib.Path):
        root.mkdir(parents=True, exist_ok=True)
        for name, content in tree.items():
            if isinstance(content, dict):
                C18._materialise(content, root / name)
            else:
                (root / name).write_text(content)

    @staticmethod
    def _tree_sexp(tree: dict):
        return [['d', cps(n), C18._tree_sexp(c)] if isinstance(c, dict) else ['f', cps(n)] for n, c in tree.items()]

    @staticmethod
    def _tree_files(tree: dict, prefix: str = '') -> list[str]:
        out = []
        for n, c in tree.items():
            out.extend(C18._tree_files(c, prefix + n + '/') if isinstance(c, dict) else [prefix + n])
        return out

    @staticmethod
    def _tokens_of(components) -> dict:
        src = repr(components.source.extract.train) if components.source is not None else None
        pipe = getattr(components.pipeline, 'token', None) if components.pipeline is not None else None
        ev = repr(vars(components.evaluation.metric)) if components.evaluation is not None else None
        return {'source': src, 'pipeline': pipe, 'evaluation': ev}

    def _tokens_match(self, got: dict, want: dict) -> bool:
        for comp, tok in want.items():
            g = got[comp]
            if tok is None:
                if g is not None:
                    return False
            elif g is None or tok not in g:
                return False
        return True

    def _package_case(self, work: pathlib.Path, tree: dict, margs, tokens: dict, mode: str, mm=None, observed: dict = None) -> list:
        """Create (zip) / assemble (dir) the package of `tree`, install it, load the components -> [(what, signature)];
        what was loaded goes to `observed['tokens']` (or `observed['error']`)."""
        from forml.project import _distribution as dist

        out = []
        mods0 = set(sys.modules)
        src = work / 'src'
        if not src.exists():
            self._materialise(tree, src)
        try:
            manifest = dist.Manifest(margs[0], margs[1], margs[2], **margs[3])
        except Exception as e:  # pylint: disable=broad-except
            if observed is not None:
                observed['error'] = type(e).__name__
            return [(f'Manifest{tuple(margs)} raised {type(e).__name__}: {e}', f'package-{mode}-raises-{type(e).__name__}')]
        try:
            if mode == 'zip':
                pkg = dist.Package.create(src, manifest, work / f'{margs[0]}.4ml')
                names = zipfile.ZipFile(pkg.path).namelist()
                if mm is not None and sorted(names) != sorted(mm[0]):
                    self._drift('archive members of Package.create', self._tree_files(tree), sorted(names), sorted(mm[0]))
            else:
                manifest.write(src)  # a directory based package is the tree with its manifest
                pkg = dist.Package(src)
            target = work / 'inst' / mode / margs[0]
            artifact = pkg.install(target)
            got = self._tokens_of(artifact.components)
            if observed is not None:
                observed['tokens'] = got
            installed = dist.Manifest.read(target)
            if mm is not None and mode == 'zip' and target.is_file() != (mm[1] == 'true'):
                self._drift('zip-safe decision of Package.install', self._tree_files(tree), target.is_file(), mm[1])
            # idempotent re-install must keep the content
            again = self._tokens_of(pkg.install(target).components)
        except Exception as e:  # pylint: disable=broad-except
            if observed is not None and 'tokens' not in observed:
                observed['error'] = type(e).__name__
            return [(f'{mode}-based package of {manifest} (package {margs[2]!r}, modules {margs[3]}) could not be created/installed/loaded: '
                     f'{type(e).__name__}: {e}', f'package-{mode}-raises-{type(e).__name__}')]
        finally:
            sys.path[:] = [p for p in sys.path if not str(p).startswith(str(work))]
            for name in set(sys.modules) - mods0:
                m = sys.modules.get(name)
                origin = str(getattr(m, '__file__', None) or getattr(getattr(m, '__spec__', None), 'origin', '') or '')
                paths = [str(p) for p in (getattr(m, '__path__', None) or [])]
                if name.split('.')[0].startswith('c18p') or name == '__4ml__' or origin.startswith(str(work)) or any(p.startswith(str(work)) for p in paths):
                    del sys.modules[name]
            for key in list(sys.path_importer_cache):
                if key.startswith(str(work)):
                    del sys.path_importer_cache[key]
            importlib.invalidate_caches()
        if not self._manifest_equal(manifest, pkg.manifest) or not self._manifest_equal(manifest, installed):
            out.append((f'{mode}-based package manifest {manifest} reads back as {tuple(pkg.manifest)} / installed {tuple(installed)}',
                        f'package-{mode}-manifest'))
        if not self._tokens_match(got, tokens) or not self._tokens_match(again, tokens):
            out.append((f'{mode}-based package of {manifest} (package {margs[2]!r}, modules {margs[3]}) installs components {got}, written {tokens}',
                        f'package-{mode}-components'))
        if (artifact.package, dict(artifact.modules)) != (margs[2], margs[3]):
            out.append((f'artifact of {manifest} has package/modules {artifact.package}/{dict(artifact.modules)}', f'package-{mode}-artifact'))
        return out

    @staticmethod
    def _tree_token(tree: dict, dotted: str):
        """the token planted in the module a dotted name denotes below the root of `tree` (packages before modules)"""
        level = tree
        segs = dotted.split('.')
        for d in segs[:-1]:
            level = level.get(d)
            if not isinstance(level, dict) or '__init__.py' not in level:
                return None
        leaf = level.get(segs[-1])
        text = None
        if isinstance(leaf, dict) and isinstance(leaf.get('__init__.py'), str):
            text = leaf['__init__.py']
        elif isinstance(level.get(segs[-1] + '.py'), str):
            text = level[segs[-1] + '.py']
        if text is None:
            return None
        m = re.search(r'(Tok|Decoy)\w+', text)
        return m.group(0) if m else ''

    def _packages(self):
        n = self.n(24, 400)
        base = pathlib.Path(tempfile.mkdtemp(prefix='verif-c18-p-'))
        path0 = list(sys.path)
        try:
            projects = [self._gen_project(i) for i in range(n)]
            answers = self.model([sexp.dumps(['package', self._tree_sexp(t)]) for t, _, _ in projects])
            resolved = self.model([sexp.dumps(['components', cps(m[2]), [[cps(k), cps(v)] for k, v in m[3].items()], self._tree_sexp(t)])
                                   for t, m, _ in projects])
            for i, ((tree, margs, tokens), ans, res) in enumerate(zip(projects, answers, resolved)):
                if pep440_key(margs[1]) is None:
                    continue
                mm = sexp.loads(ans)
                rr = sexp.loads(res)
                if mm == 'bad-op' or rr == 'bad-op' or rr[0] != 'ok':
                    raise fw.MachineryError(f'model rejected the project {tree} {margs}: {ans[:80]} {res[:80]}')
                mm = [[uncps(sexp.num(n)) for n in mm[0]], mm[1]]
                # the model: which module each component resolves to, and whether it is there in the source tree / installed
                names = {comp: uncps(sexp.num(x[0])) for comp, x in zip(('source', 'pipeline', 'evaluation'), rr[1])}
                found = {comp: (x[1], x[2], x[3]) for comp, x in zip(('source', 'pipeline', 'evaluation'), rr[1])}
                predicted = {comp: (self._tree_token(tree, names[comp]) if found[comp][1] != 'nothing' else None) for comp in names}
                adversarial = margs[2] == '' or not margs[2].startswith('c18p') or any(v.startswith(margs[2].split('.')[0]) for v in margs[3].values())
                for mode in ('zip', 'dir'):
                    w = {'kind': 'package', 'mode': mode, 'tree': tree, 'manifest': [margs[0], margs[1], margs[2], margs[3]], 'tokens': tokens}
                    self.case(('package', mode, i, json.dumps(tree, sort_keys=True)),
                              f'package {mode} modules={len(margs[3])} eval={"y" if tokens["evaluation"] else "n"}{" adversarial-names" if adversarial else ""}',
                              nontrivial=True, sample={'mode': mode, 'files': self._tree_files(tree), 'manifest': f'{margs[0]}-{margs[1]}', 'package': margs[2],
                                                       'modules': margs[3], 'resolved': names} if i < 2 else None)
                    observed: dict = {}
                    for what, sig in self._package_case(base / str(i), tree, margs, tokens, mode, mm, observed):
                        self.violate(what, w, sig)
                    # model vs implementation: the component a name resolves to (by planted token)
                    if 'tokens' in observed:
                        got = observed['tokens']
                        same = all((predicted[c] is None and got[c] is None) or (predicted[c] is not None and got[c] is not None and predicted[c] in got[c])
                                   for c in predicted)
                    else:
                        got = ('error', observed.get('error'))
                        same = predicted['source'] is None or predicted['pipeline'] is None
                    if not same:
                        self.diverge('component resolution of an installed package', {'mode': mode, 'package': margs[2], 'modules': margs[3], 'files': self._tree_files(tree)},
                                     got, {'resolved': names, 'tokens': predicted})
                    for comp, (fsrc, finst, ok) in found.items():
                        if mode == 'zip' and fsrc != finst and ok == 'true':
                            raise fw.MachineryError(f'model: installed tree differs from the source tree for {names[comp]} although its names are kept')
        finally:
            sys.path[:] = path0
            shutil.rmtree(base, ignore_errors=True)

    def _replay_package(self, w):
        base = pathlib.Path(tempfile.mkdtemp(prefix='verif-c18-r-'))
        path0 = list(sys.path)
        try:
            for what, sig in self._package_case(base, w['tree'], w['manifest'], w['tokens'], w['mode']):
                return fw.Violation(what, w, sig)
            return None
        finally:
            sys.path[:] = path0
            shutil.rmtree(base, ignore_errors=True)

    def _shrink_keys(self, w):
        """Greedy: drop keys of a failing listing witness while it still fails -> the Violation of the smallest one."""
        best = self._replay_keys(w)
        keys = list(w['keys'])
        i = 0
        while best is not None and i < len(keys):
            cand = dict(w, keys=keys[:i] + keys[i + 1:])
            v = self._replay_keys(cand)
            if v is not None:
                keys, best = cand['keys'], v
            else:
                i += 1
        return best if best is not None else fw.Violation(f'Listing({w["keys"]}) is not the sorted duplicate-free key set', w,
                                                         'listing-generation' if w['kind'] == 'listing' else 'listing-release')

    def _replay_keys(self, w):
        """Key / listing witnesses: the oracles of `_genkeys`, `_listings`, `_versions`, `_level_keys` on one input."""
        from forml.io import asset

        K, R, L = asset.Generation.Key, asset.Release.Key, asset.Level.Listing
        kind = w['kind']
        if kind == 'genkey':
            t = w['text']
            try:
                k = K(t)
                impl = ['ok', int(k), int(k.next)]
            except K.Invalid as e:
                impl = ['error', 'not-integer' if 'not an integer' in str(e) else 'not-natural']
            except Exception as e:  # pylint: disable=broad-except
                impl = ['error', type(e).__name__]
            v = self._oracle_genkey(t, impl)
            return fw.Violation(v[0], w, v[1]) if v else None
        if kind == 'genkey-int':
            n = w['n']
            try:
                k = K(n)
                ok = int(k) == n and int(K(k)) == n and int(K(str(k))) == n and int(k.next) == n + 1 and n >= 1
            except K.Invalid:
                ok = n < 1
            return None if ok else fw.Violation(f'Generation.Key({n}) is not the natural number {n} (or was accepted below one)', w, 'genkey-int')
        if kind == 'listing':
            s = w['keys']
            lst = L(K(i) for i in s)
            impl, spec = [int(k) for k in lst], sorted(set(s))
            try:
                last = int(lst.last)
            except L.Empty:
                last = 'Empty'
            if impl != spec or last != (spec[-1] if spec else 'Empty') or (spec and int(lst.last.next) in s):
                return fw.Violation(f'Listing({s}) = {impl}, last = {last}', w, 'listing-generation')
            return None
        if kind == 'vlisting':
            texts = w['keys']
            lst = L(R(t) for t in texts)
            impl, spec = [pep440_key(str(k)) for k in lst], sorted({pep440_key(t) for t in texts})
            if impl != spec or (spec and pep440_key(str(lst.last)) != spec[-1]):
                return fw.Violation(f'Listing({texts}) = {[str(k) for k in lst]}', w, 'listing-release')
            return None
        if kind == 'relkey':
            t = w['text']
            try:
                accepted = R(t) is not None
            except R.Invalid:
                accepted = False
            except Exception as e:  # pylint: disable=broad-except
                return fw.Violation(f'Release.Key({t!r}) raised {e!r}', w, 'release-key-acceptance')
            if accepted != (pep440_key(t) is not None):
                return fw.Violation(f'Release.Key({t!r}) {"accepted" if accepted else "rejected"} against PEP 440', w, 'release-key-acceptance')
            return None
        if kind == 'relkey-str':
            k = R(w['text'])
            if not (R(str(k)) == k and pep440_key(str(k)) == pep440_key(w['text'])):
                return fw.Violation(f'Release.Key({w["text"]!r}) != Release.Key(str(it)) = {str(k)!r}', w, 'release-key-str')
            return None
        if kind == 'vcmp':
            a, b = R(w['a']), R(w['b'])
            impl = 'lt' if a < b else 'gt' if a > b else 'eq' if a == b else 'incomparable'
            ka, kb = pep440_key(w['a']), pep440_key(w['b'])
            spec = 'lt' if ka < kb else 'gt' if ka > kb else 'eq'
            if impl != spec or (impl == 'eq' and hash(a) != hash(b)):
                return fw.Violation(f'Release.Key({w["a"]!r}) vs Release.Key({w["b"]!r}): {impl}, PEP 440 order says {spec}', w, 'release-key-order')
            return None
        if kind == 'level-key' and 'content' in w:
            for what, sig in self._level_key_case(w['content']):
                return fw.Violation(what, w, sig)
            return None
        return None

    # ---- framework hooks ----------------------------------------------------------------------------------
    def _selfcheck(self):
        from forml.io.asset._directory.level.minor import Tag  # noqa: F401  (import check)

        for c in range(0x100):
            xesc = not chr(c).isprintable() and chr(c) not in '\t\n\r'
            model = (c < 32 and c not in (9, 10, 13)) or 127 <= c <= 160 or c == 173
            if xesc != model:
                raise fw.MachineryError(f'str.isprintable disagrees with the model table at U+{c:04X}')

    def _guard(self, part: str, fn):
        """Run one part of the correspondence.  An exception that comes out of the code under test (a frame inside the tree
        under test or its libraries `packaging` / `toml`) is behaviour, not a machinery error: it is recorded as a violation
        of that part and the check goes on."""
        import traceback

        try:
            fn()
        except fw.MachineryError:
            raise
        except Exception as e:  # pylint: disable=broad-except
            frames = traceback.extract_tb(e.__traceback__)
            inner = [f for f in frames if f.filename.startswith(os.path.join(fw.REPO, 'forml')) or '/packaging/' in f.filename or '/toml/' in f.filename]
            if not inner:
                raise
            where = [f'{os.path.basename(f.filename)}:{f.lineno} {f.name}' for f in frames[-4:]]
            self.violate(f'{part}: the code under test raised {type(e).__name__}: {e} ({"; ".join(where)})',
                         {'kind': 'exception', 'part': part, 'exception': type(e).__name__, 'frames': where}, f'unexpected-exception-{part}')

    def correspondence(self):
        self._selfcheck()
        for part, fn in (('tags', self._tags), ('generation-keys', self._genkeys), ('key-values', self._key_values), ('listings', self._listings),
                         ('release-keys', self._versions), ('pep440-syntax', self._pep440_syntax), ('pep440-order', self._pep440_order),
                         ('manifests', self._manifests), ('packages', self._packages), ('histories', self._histories)):
            self._guard(part, fn)
        drift = self.extra.get('mechanism_drift', {})
        self.extra['mechanism_drift'] = drift  # always present in the evidence; empty = the model mirrors the mechanism
        for what, d in drift.items():
            self.notes.append(f'mechanism drift (no alarm): {what}: {d["count"]} case(s), first {json.dumps(d["first"], default=str)[:300]}')

    def search(self, reason):
        """Widen around the diverging cases and run the oracle on the real code: tags (mutated strings), histories over
        locations (reads inserted after every operation, operations repeated), component resolution (the diverging
        package / module map over fresh trees with decoys at the other interpretation)."""
        tried = 0
        for d in self.divergences[:50]:
            c = d.case
            if not (isinstance(c, dict) and 'ordinal' in c):
                continue
            for _ in range(40):
                cand = json.loads(json.dumps(c))
                if cand['ordinal'] is not None and cand['ordinal'][0] == 'str' and cand['ordinal'][1]:
                    s = cand['ordinal'][1]
                    s[self.rng.randrange(len(s))] = ord(self.rng.choice(self.STR_ALPHABET))
                else:
                    cand = dict(self._gen_tag(), ordinal=cand['ordinal'])
                    if cand['train_ts'] is None:
                        cand['train_ts'] = self._gen_ts()  # an ordinal exists only on a triggered training mode
                tried += 1
                v = self._oracle_tag(cand, self._impl_tag(cand, False))
                if v:
                    self.violate(v[0], {'kind': 'tag', 'tag': self._shrink_tag(cand, v[1])}, v[1])
        self.notes.append(f'failing-input search ({reason}): {tried} mutated tags through the oracle')
        # histories: every location is read after every operation; operations are doubled
        tried = 0
        for d in [x for x in self.divergences if isinstance(x.case, dict) and 'history' in x.case][:10]:
            w = d.case['history']
            variants = []
            ops = []
            for op in w['ops']:
                ops.append(op)
                ops.extend(['read', p] for p in range(w['nloc']))
            variants.append(dict(w, ops=ops, ambiguous=False))
            variants.append(dict(w, ops=[o for op in w['ops'] for o in (op, op)] + [['read', p] for p in range(w['nloc'])], ambiguous=False))
            for bc in (False, True):
                variants.append(dict(w, bc=bc, ops=w['ops'] + [['read', p] for p in range(w['nloc'])], ambiguous=False))
            for cand in variants:
                tried += 1
                v = self._h_oracle(cand, self._h_exec(cand))
                if v:
                    self.violate(v[0], self._h_shrink(cand, v[1]), v[1])
                    break
        # component resolution: the diverging package name / module map, planted by the documented rule
        for d in [x for x in self.divergences if isinstance(x.case, dict) and 'modules' in x.case and 'package' in x.case][:10]:
            package, modules = d.case['package'], d.case['modules']
            if not package:
                continue
            parts = package.rstrip('.').split('.')
            tree, tokens = {}, {}
            self._put(tree, parts + ['__init__.py'], '')
            for comp, tmpl in (('source', self.SRC), ('pipeline', self.PIPE)):
                name = modules.get(comp) or comp
                tok = f'Tok{comp[:3]}s{tried}'
                tokens[comp] = tok
                if '.' not in name:  # "modules without dot in their names are considered as relative to that package"
                    self._put(tree, parts + [name + '.py'], tmpl.format(tok=tok))
                    if name != parts[0]:
                        tree[name + '.py'] = tmpl.format(tok='Decoy' + comp[:3])
                elif name.startswith(package.rstrip('.') + '.'):
                    self._put(tree, name.split('.')[:-1] + [name.split('.')[-1] + '.py'], tmpl.format(tok=tok))
                else:
                    tokens = None
                    break
            if tokens is None:
                continue
            tokens['evaluation'] = None
            base = pathlib.Path(tempfile.mkdtemp(prefix='verif-c18-s-'))
            path0 = list(sys.path)
            try:
                for mode in ('zip', 'dir'):
                    tried += 1
                    margs = ['search', '1.0', package, {k: v for k, v in modules.items() if k in ('source', 'pipeline')}]
                    for what, sig in self._package_case(base / mode, tree, margs, tokens, mode):
                        self.violate(what, {'kind': 'package', 'mode': mode, 'tree': tree, 'manifest': margs, 'tokens': tokens}, sig)
            finally:
                sys.path[:] = path0
                shutil.rmtree(base, ignore_errors=True)
        self.notes.append(f'failing-input search ({reason}): {tried} widened histories / projects through the oracle')

    def replay_finding(self, entry):
        w = entry['witness']
        kind = w.get('kind')
        if kind == 'tag':
            c = w['tag']
            v = self._oracle_tag(c, self._impl_tag(c, False))
            return fw.Violation(v[0], w, v[1]) if v else None
        if kind == 'manifest':
            return self._replay_manifest(w)
        if kind == 'package':
            return self._replay_package(w)
        if kind == 'history':
            return self._replay_history(w)
        if kind == 'keyvalue':
            return self._replay_keyvalue(w)
        return self._replay_keys(w)


if __name__ == '__main__':
    raise SystemExit(fw.run(C18))
