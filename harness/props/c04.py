"""C04 — persisted states are bound to the actors that produced them in every mode.

Implementation side: a real test project (package `c04proj`, written to a temp dir on every run, packaged with
`project.Package.create`, pushed to a real `posix` registry in a temp dir) whose pipeline is built from an expression
AST with the real operator library (`wrap.Operator`, `payload.MapReduce`, `payload.Dump`, `ensemble.FullStack`) over
*symbolic actors* that use forml's **default** `get_state/set_state/get_params/set_params` machinery and append what
they receive (own occurrence tag, current hyper-parameter, origin of the state they hold) to a log file.  Lifecycle
actions (train / re-train, batch apply, production performance tracking, serving call) are run through the real
`runtime.Runner` subclasses (`dask` with the synchronous scheduler, `pyfunc`) each in a fresh sub-process (and, for
part of the cases, all in one process).

Model side: lean/ForML/Model/Persist.lean through `drv_c04` (see that file).  The composition graph of every case is
extracted from the real expansion (canonical ids) and sent to the model together with the action history; compared
is what every stateful actor receives.

Oracle (independent of the model, written from the property text): an actor applied while generation k is loaded holds
a state whose producer occurrence is its own and whose training run is the run that committed k; a re-trained actor
starts from exactly that state; the hyper-parameters are the current code's.
"""
from __future__ import annotations

import collections
import itertools
import json
import multiprocessing
import os
import shutil
import subprocess
import sys
import tempfile
import typing

from core import framework as fw
from core import sexp

PROJECT = 'c04proj'
RELEASE = '1'
NONE = 'none'

# ==================================================================================================
# part A — code that runs inside the test project / inside an action process (imports forml lazily)
# ==================================================================================================
_CACHE: dict = {}


def _log(event: dict) -> None:
    path = os.environ.get('C04_LOG')
    if not path:
        return
    line = (json.dumps(event, sort_keys=True) + '\n').encode()
    fd = os.open(path, os.O_WRONLY | os.O_APPEND | os.O_CREAT, 0o644)
    try:
        os.write(fd, line)
    finally:
        os.close(fd)


def _canon(x):
    """Canonical form of a symbolic payload: the raw inputs of the two modes are not told apart."""
    if isinstance(x, (tuple, list)):
        if len(x) == 2 and x[0] == 'input':
            return 'in'
        return [_canon(i) for i in x]
    return x


def _sig(args) -> str:
    """Short fingerprint of what an actor is fed with = where in the pipeline it sits."""
    import hashlib

    return hashlib.sha1(json.dumps(_canon(args)).encode()).hexdigest()[:8]


_NONCE = itertools.count()


def actors():
    """Symbolic actor classes. State and hyper-parameters go through forml's *default* Actor implementation
    (`get_state` = pickled `__dict__`, `set_state` restores the current params afterwards), so what is loaded is
    exactly what the registry handed out."""
    if 'actors' in _CACHE:
        return _CACHE['actors']
    from forml import flow

    class _Sym(flow.Actor):
        def __init__(self, tag: int, hp: int = 0, szout: int = 1, path=None):
            self.tag = tag  # occurrence id (a hyper-parameter: survives set_state)
            self.hp = hp  # the hyper-parameter the current code configures
            self.szout = szout
            self.path = path  # only to satisfy payload.Dump
            self.origin = None  # {'tag','run','hp','prev'}: who produced the state this actor holds

        def apply(self, *args):
            pos = _sig(args)
            _log({'ev': 'apply', 'tag': self.tag, 'hp': self.hp, 'origin': self.origin, 'stateful': self.is_stateful(), 'pos': pos})
            if self.szout == 1:
                return ('a', self.tag, pos)
            return tuple(('p', i, self.tag, pos) for i in range(self.szout))

        def get_params(self):
            return {'tag': self.tag, 'hp': self.hp, 'szout': self.szout, 'path': self.path}

        def set_params(self, **params):
            for k, v in params.items():
                setattr(self, k, v)

    class Stateful(_Sym):
        """Flavour 0: forml's default state handling (`__dict__` pickled - hyper-parameters included -, the default
        `set_state` puts the current hyper-parameters back itself)."""

        def train(self, features, labels, /):
            prev = None if self.origin is None else [self.origin['tag'], self.origin['run']]
            pos = _sig((features,))
            _log({'ev': 'train', 'tag': self.tag, 'hp': self.hp, 'prev': self.origin, 'pos': pos})
            # pos: where the trainer sits (what it is fed with); nonce: this very state (two groups built from one
            # builder, fed alike, still produce two states)
            self.origin = {'tag': self.tag, 'run': int(os.environ.get('C04_RUN', '-1')), 'hp': self.hp, 'prev': prev,
                           'pos': pos, 'nonce': f'{os.getpid()}-{next(_NONCE)}'}

    class OwnCodec(Stateful):
        """Flavour 1: a native actor with its own codec whose snapshot carries the hyper-parameters it was trained with;
        `set_state` installs the snapshot as it is (putting the current hyper-parameters back is `SetState.set`'s job)."""

        def get_state(self):
            return json.dumps({'origin': self.origin, 'hp': self.hp, 'tag': self.tag, 'szout': self.szout}).encode()

        def set_state(self, state):
            if not state:
                return
            snapshot = json.loads(state.decode())
            self.origin, self.hp, self.tag, self.szout = snapshot['origin'], snapshot['hp'], snapshot['tag'], snapshot['szout']

    class DictCodec(Stateful):
        """Flavour 2: the whole `__dict__` pickled (as the default does), installed without restoring anything."""

        def get_state(self):
            import pickle

            return pickle.dumps(dict(self.__dict__))

        def set_state(self, state):
            import pickle

            if state:
                self.__dict__.update(pickle.loads(state))

    class Stateless(_Sym):
        pass

    class Source(flow.Actor):
        """0-in (batch) or 1-in (pyfunc passes the entry) source."""

        def __init__(self, n: int):
            self.n = n

        def apply(self, *args):
            return ('input', self.n)

    class Labels(flow.Actor):
        def apply(self, raw):
            return ('input', 1), ('input', 2)

    class Parallel(flow.Operator):
        """Feature-union like user operator: the branches are applied side by side (each on the same input, each
        with its own train / label path) and merged by one N:1 worker per mode - a single, unambiguous tail."""

        def __init__(self, *branches, merger):
            self._branches = branches
            self._merger = merger

        def compose(self, scope):
            left = scope.expand()
            head = flow.Trunk()
            apply = flow.Worker(self._merger, len(self._branches), 1)
            train = apply.fork()
            for index, trunk in enumerate(branch.expand() for branch in self._branches):
                trunk.apply.subscribe(head.apply)
                trunk.train.subscribe(head.train)
                trunk.label.subscribe(head.label)
                apply[index].subscribe(trunk.apply.publisher)
                train[index].subscribe(trunk.train.publisher)
            return left.extend(head.apply.extend(tail=apply), head.train.extend(tail=train), head.label)

    class Passes(flow.Operator):
        """User operator running N consecutive passes of ONE builder object: every pass is a worker group of its own
        (apply worker, trainer, train-path worker) - groups are not determined by their builder."""

        def __init__(self, builder, passes: int):
            self._builder = builder
            self._passes = passes

        def compose(self, scope):
            left = scope.expand()
            for _ in range(self._passes):
                apply = flow.Worker(self._builder, 1, 1)
                train = apply.fork()
                if apply.stateful:
                    apply.fork().train(left.train.publisher, left.label.publisher)
                left = left.extend(apply, train)
            return left

    assert Stateful.is_stateful() and not Stateless.is_stateful()
    _CACHE['actors'] = (Stateful, Stateless, Source, Labels)
    _CACHE['passes'] = Passes
    _CACHE['flavours'] = (Stateful, OwnCodec, DictCodec)
    _CACHE['parallel'] = Parallel
    return _CACHE['actors']


def flavour_of(tag):
    """The class of the stateful actor with builder `tag`: state handling varies with the occurrence (1, 4, 7.. own
    codec carrying the hyper-parameters; 2, 5, 8.. pickled __dict__ without restoring; 0, 3, 6.. forml's default)."""
    actors()
    return _CACHE['flavours'][int(tag) % 3]


def _builder(actor, hp: int, szout: int = 1, **kwargs):
    tag, stateful = actor
    _, Stateless, _, _ = actors()
    cls = flavour_of(tag) if stateful else Stateless
    if szout != 1:
        kwargs['szout'] = szout
    return cls.builder(tag=int(tag), hp=hp, **kwargs)


def _wrap_operator(lab, app, trn, hp: int):
    """As props/pipegen._wrap_operator (public decorators of wrap.Operator; equal tags share one builder)."""
    from forml.pipeline import wrap

    Stateful, Stateless, _, _ = actors()
    groups: dict = collections.OrderedDict()
    for name, a in (('label', lab), ('apply', app), ('train', trn)):
        if a == NONE:
            continue
        groups.setdefault((int(a[0]), bool(a[1])), []).append(name)
    if not groups:
        raise ValueError('empty wrap operator')
    cls = None
    for (tag, stateful), names in groups.items():
        actor = flavour_of(tag) if stateful else Stateless
        if names == ['apply', 'train']:
            cls = (cls or wrap.Operator).mapper(actor, tag=tag, hp=hp)
            continue
        first = True
        for name in names:
            if first:
                cls = getattr(cls or wrap.Operator, name)(actor, tag=tag, hp=hp)
                first = False
            else:
                cls = getattr(wrap.Operator, name)(cls)
    return cls


def build(ast, hp: int = 0):
    """Fresh real composable for the expression AST (grammar of props/pipegen.py)."""
    from forml.pipeline import ensemble, payload

    kind = ast[0]
    if kind == 'wrap':
        return _wrap_operator(ast[1], ast[2], ast[3], hp)()
    if kind == 'mapreduce':
        return payload.MapReduce(*(_builder(a, hp) for a in ast[1]), reducer=_builder([ast[2], False], hp))
    if kind == 'debug':
        return payload.Dump(apply=_builder(ast[1], hp, path='dump-$mode-$seq'), train=_builder(ast[2], hp, path='dump-$mode-$seq'))
    if kind == 'stack':
        _, bases, nsplits, splitter, appender, stacker, reducer = ast
        return ensemble.FullStack(
            *(build(b, hp) for b in bases),
            splitter=_builder([splitter, True], hp, szout=2 * int(nsplits)),
            nsplits=int(nsplits),
            appender=_builder([appender, False], hp),
            stacker=_builder([stacker, False], hp),
            reducer=_builder([reducer, False], hp),
        )
    if kind == 'passes':  # ['passes', [tag, stateful], n]: n groups built from one and the same builder object
        actors()
        return _CACHE['passes'](_builder(ast[1], hp), int(ast[2]))
    if kind == 'mapreduce1':  # ['mapreduce1', [tag, stateful], n, reducer]: MapReduce(b, b, ..): one builder object n times
        shared = _builder(ast[1], hp)
        return payload.MapReduce(*([shared] * int(ast[2])), reducer=_builder([ast[3], False], hp))
    if kind == 'seq':
        return build(ast[1], hp) >> build(ast[2], hp)
    if kind == 'par':  # ['par', [expr, ...], merger_tag]: C04's own extension of the grammar (user-defined operator)
        actors()
        return _CACHE['parallel'](*(build(b, hp) for b in ast[1]), merger=_builder([ast[2], False], hp))
    if kind == 'par1':  # ['par1', expr, n, merger]: the SAME operator instance in n branches (equal but distinct builders)
        actors()
        branch = build(ast[1], hp)
        return _CACHE['parallel'](*([branch] * int(ast[2])), merger=_builder([ast[3], False], hp))
    raise ValueError(f'unknown expression kind {kind!r}')


def _env_ast():
    return json.loads(os.environ['C04_AST'])


def _env_hp() -> int:
    return int(os.environ.get('C04_HP', '0'))


def project_pipeline():
    """`pipeline.py` of the test project: the *current code* = expression and hyper-parameter of the environment."""
    return build(_env_ast(), _env_hp())


def project_source():
    from forml import project
    from forml.io import dsl

    class C04Table(dsl.Schema):
        x = dsl.Field(dsl.Integer())
        y = dsl.Field(dsl.Integer())

    return project.Source.query(C04Table.select(C04Table.x), C04Table.y)


def project_evaluation():
    from forml import evaluation, flow, project

    _, Stateless, _, _ = actors()

    class Metric(evaluation.Metric):
        def score(self, *outcomes):
            worker = flow.Worker(Stateless.builder(tag=0, hp=_env_hp()), 2 * len(outcomes), 1)
            for i, o in enumerate(outcomes):
                worker[2 * i].subscribe(o.true)
                worker[2 * i + 1].subscribe(o.pred)
            return worker

    class Method(evaluation.Method):
        def produce(self, pipeline, features, labels):
            raise NotImplementedError('train-test evaluation is not part of C04')

    return project.Evaluation(Metric(), Method())


def source_operator():
    from forml.io._input import extract

    _, _, Source, Labels = actors()
    return extract.Operator(Source.builder(0), Source.builder(-1), Labels.builder())


def feed():
    from forml import io

    class Feed(io.Feed):
        """Feed double: whatever the extraction query, deliver the symbolic source."""

        def load(self, extract, lower=None, upper=None):
            return source_operator()

        @property
        def sources(self):
            return {}

    return Feed()


def sink():
    """Sink double: one stateless symbolic writer appended to the pipeline (as `Runner._build` does with
    `sink.save(schema)`)."""
    from forml import io
    from forml.pipeline import wrap

    _, Stateless, _, _ = actors()

    class Sink(io.Sink):
        def save(self, schema):
            return wrap.Operator.mapper(Stateless, tag=0, hp=_env_hp())()

    return Sink()


PROJECT_FILES = {
    '__init__.py': '',
    'source.py': 'from forml import project\nfrom props import c04\nproject.setup(c04.project_source())\n',
    'pipeline.py': 'from forml import project\nfrom props import c04\nproject.setup(c04.project_pipeline())\n',
    'evaluation.py': 'from forml import project\nfrom props import c04\nproject.setup(c04.project_evaluation())\n',
}


def make_package(workdir: str) -> str:
    """Write the project source tree and package it with the real `project.Package.create`."""
    from forml import project

    tree = os.path.join(workdir, 'tree')
    pkg = os.path.join(tree, PROJECT)
    os.makedirs(pkg, exist_ok=True)
    for name, content in PROJECT_FILES.items():
        with open(os.path.join(pkg, name), 'w') as f:
            f.write(content)
    path = os.path.join(workdir, f'{PROJECT}-{RELEASE}.4ml')
    project.Package.create(tree, project.Manifest(PROJECT, RELEASE, PROJECT), path)
    return path


def new_registry(root: str, package: str) -> None:
    from forml import project
    from forml.provider.registry.filesystem import posix

    posix.Registry(root).push(project.Package(package))


def _decode_origin(raw: bytes):
    """The origin record inside a persisted state, whatever the codec of the actor flavour that produced it."""
    import cloudpickle

    if raw[:1] == b'{':
        return json.loads(raw.decode()).get('origin')
    return cloudpickle.loads(raw).get('origin')


def _listing(registry) -> list:
    """[(generation, [origin of each committed state, in tag.states order])] read back from the registry files
    (a state that cannot be read is reported as None)."""
    import cloudpickle
    from forml.io import asset

    out = []
    for g in sorted(int(k) for k in registry.generations(asset.Project.Key(PROJECT), asset.Release.Key(RELEASE))):
        tag = registry.open(asset.Project.Key(PROJECT), asset.Release.Key(RELEASE), asset.Generation.Key(g))
        origins = []
        for sid in tag.states:
            try:
                raw = registry.read(asset.Project.Key(PROJECT), asset.Release.Key(RELEASE), asset.Generation.Key(g), sid)
                origins.append(_decode_origin(raw) if raw else None)
            except Exception:  # pylint: disable=broad-except
                origins.append(None)
        out.append([g, origins])
    return out


def listing_of(root: str):
    from forml.provider.registry.filesystem import posix

    try:
        return _listing(posix.Registry(root))
    except Exception:  # pylint: disable=broad-except
        return None


CRASH_EXIT = 17


def _arm_crash(after: int, marker: str) -> None:
    """Process death inside the commit: the `after`+1-th file-system micro-step (mkdir / open for writing / rename)
    performed inside `posix.Registry.write` or `posix.Registry.close` does not happen - the process exits."""
    import pathlib

    from forml.provider.registry.filesystem import posix

    state = {'inside': 0, 'done': 0}

    def scoped(method):
        def wrapper(self, *args, **kwargs):
            state['inside'] += 1
            try:
                return method(self, *args, **kwargs)
            finally:
                state['inside'] -= 1

        return wrapper

    def step(method, writes_only=False):
        def wrapper(self, *args, **kwargs):
            mode = args[0] if args else kwargs.get('mode', 'r')
            if state['inside'] and (not writes_only or any(c in str(mode) for c in 'wax+')):
                if state['done'] == after:
                    with open(marker, 'w') as out:
                        out.write(str(state['done']))
                    os._exit(CRASH_EXIT)  # pylint: disable=protected-access
                state['done'] += 1
            return method(self, *args, **kwargs)

        return wrapper

    posix.Registry.write = scoped(posix.Registry.write)
    posix.Registry.close = scoped(posix.Registry.close)
    pathlib.Path.mkdir = step(pathlib.Path.mkdir)
    pathlib.Path.rename = step(pathlib.Path.rename)
    pathlib.Path.open = step(pathlib.Path.open, writes_only=True)


def _arm_race(action: dict, result: dict) -> None:
    """Another process re-trains (and commits a new generation) right after the first state load of this action
    (`asset.State.load` has returned once - whether it found a generation or the release was still empty)."""
    from forml.io.asset import _access

    original = _access.State.load
    fired = []

    def load(self, *args, **kwargs):
        data = original(self, *args, **kwargs)
        if not fired:
            fired.append(True)
            race = dict(action, kind='train', gen=None, race=None, crash=None, run=action['race']['run'],
                        hp=action['race']['hp'], log=action['log'] + '.race')
            result['raced'] = _forked(perform, race).get('status')
        return data

    _access.State.load = load
    result['_disarm'] = lambda: setattr(_access.State, 'load', original)


_HANDLES: dict = {}  # (in this process) handle id -> the objects the handle keeps alive across actions
HANDLE_LEVELS = ('registry', 'directory', 'release', 'instance', 'runner')


class _Upper:
    """Stand-in for the levels above a kept `asset.Release` (`asset.Instance` walks `registry.get(p).get(r).get(g)`)."""

    def __init__(self, below):
        self._below = below

    def get(self, _key):
        return self._below


def _chain(action: dict):
    """(asset.Instance, kept runner slot or None) the action works through: a fresh chain of objects - or the objects
    a long-lived handle keeps: the registry provider, the `asset.Directory`, the `asset.Release` level, the
    `asset.Instance`, or the runner objects themselves."""
    from forml.io import asset
    from forml.provider.registry.filesystem import posix

    handle = action.get('handle')
    if not handle:
        return asset.Instance(PROJECT, RELEASE, action.get('gen'), asset.Directory(posix.Registry(action['registry']))), None
    slot = _HANDLES.setdefault((action['registry'], handle['id']), {})
    level = handle['level']
    if level == 'registry':
        if 'registry' not in slot:
            slot['registry'] = posix.Registry(action['registry'])
        return asset.Instance(PROJECT, RELEASE, action.get('gen'), asset.Directory(slot['registry'])), None
    if level == 'directory':
        if 'directory' not in slot:
            slot['directory'] = asset.Directory(posix.Registry(action['registry']))
        return asset.Instance(PROJECT, RELEASE, action.get('gen'), slot['directory']), None
    if level == 'release':
        if 'release' not in slot:
            slot['release'] = asset.Directory(posix.Registry(action['registry'])).get(PROJECT).get(RELEASE)
        return asset.Instance(PROJECT, RELEASE, action.get('gen'), _Upper(_Upper(slot['release']))), None
    if 'instance' not in slot:
        slot['instance'] = asset.Instance(PROJECT, RELEASE, handle.get('gen'), asset.Directory(posix.Registry(action['registry'])))
    return slot['instance'], (slot if level == 'runner' else None)


def prune(action: dict) -> dict:
    """Housekeeping (not a forml action): the directory of generation action['gen'] is removed from the registry."""
    removed = []
    for path, _, files in os.walk(action['registry']):
        if os.path.basename(path) == str(action['gen']) and 'tag.toml' in files:
            removed.append(path)
    for path in removed:
        shutil.rmtree(path)
    return {'status': 'ok', 'pruned': len(removed), 'generations': listing_of(action['registry'])}


def perform(action: dict) -> dict:
    """One lifecycle action against the registry at action['registry'] through the real runner.

    action: {'kind': train|apply|perftrack|serve, 'gen': int|None, 'hp': int, 'run': int, 'ast': ..., 'registry': dir,
             'log': file, 'sink': bool, 'crash': None|k (train: die before the k+1-th micro-step of write/close),
             'race': None|{'run','hp'} (a re-training commits right after the first state load),
             'handle': None|{'id', 'level', 'gen'} (work through the objects a long-lived handle keeps)}.
    Returns {'status': 'ok'|'error', 'error': class name, 'where': build|run, 'generations': [...], 'raced': status,
             'built': True if the serving runner was built by this action}.
    Whatever the code under test raises is recorded as behaviour.
    """
    from forml.provider.runner import dask as daskmod
    from forml.provider.runner import pyfunc

    if action['kind'] == 'prune':
        return prune(action)
    os.environ['C04_AST'] = json.dumps(action['ast'])
    os.environ['C04_HP'] = str(action['hp'])
    os.environ['C04_RUN'] = str(action['run'])
    os.environ['C04_LOG'] = action['log']
    result: dict = {'status': 'ok'}
    stage = 'build'
    extra: dict = {}
    if action.get('crash') is not None and action['kind'] == 'train':
        _arm_crash(int(action['crash']), action['log'] + '.crashed')  # only ever in a process of its own
    if action.get('race') and action['kind'] != 'train':
        _arm_race(action, extra)
    try:
        instance, kept = _chain(action)
        kind = action['kind']
        out = sink() if action.get('sink') else None
        if kind == 'serve':
            runner = kept.get('pyfunc') if kept is not None else None
            if runner is None:
                runner = pyfunc.Runner(instance, feed(), out)
                extra['built'] = True
                if kept is not None:
                    kept['pyfunc'] = runner
            stage = 'run'
            runner.call(None)
        else:
            runner = kept.get('dask') if kept is not None else None
            if runner is None:
                runner = daskmod.Runner(instance, feed(), out, scheduler='synchronous')
                if kept is not None:
                    kept['dask'] = runner
            stage = 'run'
            with runner:
                if kind == 'train':
                    runner.train()
                elif kind == 'apply':
                    runner.apply()
                elif kind == 'perftrack':
                    runner.eval_perftrack()
                else:
                    raise ValueError(kind)
    except BaseException as err:  # pylint: disable=broad-except
        if isinstance(err, (KeyboardInterrupt, GeneratorExit)):
            raise
        result = {'status': 'error', 'error': type(err).__name__, 'where': stage, 'message': str(err)[:200]}
    finally:
        if '_disarm' in extra:
            extra.pop('_disarm')()
    result.update(extra)
    result['generations'] = listing_of(action['registry'])
    return result


def read_log(path: str) -> list:
    if not os.path.exists(path):
        return []
    with open(path) as f:
        return [json.loads(line) for line in f if line.strip()]


def _quiet() -> None:
    import logging
    import warnings

    warnings.filterwarnings('ignore')
    logging.disable(logging.CRITICAL)

    def hook(unraisable):
        if isinstance(unraisable.exc_value, AttributeError) and 'discard' in str(unraisable.exc_value):
            return
        sys.__unraisablehook__(unraisable)

    sys.unraisablehook = hook


def _preset_real(cases: list) -> list:
    """[(flavour, current hp, training hp, empty state)] -> what the actor runs with after the real preset."""
    from forml.flow._code.target import user

    actors()
    out = []
    work = tempfile.mkdtemp(prefix='verif-c04-preset-')
    try:
        for k, (fl, cur, was, empty) in enumerate(cases):
            cls = _CACHE['flavours'][fl]
            os.environ['C04_RUN'] = '0'
            os.environ['C04_LOG'] = ''
            trained = cls(tag=1, hp=was)
            trained.train(None, None)
            state = b'' if empty else trained.get_state()
            os.environ['C04_LOG'] = os.path.join(work, f'log-{k}')
            user.Apply().functor(cls.builder(tag=1, hp=cur)).preset_state().execute(state, ('input', 0))
            (event,) = [e for e in read_log(os.environ['C04_LOG']) if e['ev'] == 'apply']
            out.append({'hp': event['hp'], 'origin': event.get('origin')})
    finally:
        shutil.rmtree(work, ignore_errors=True)
    return out


def action_main() -> int:
    """Entry of a fresh action process: one JSON action on stdin, one JSON result on stdout."""
    _quiet()
    action = json.loads(sys.stdin.read())
    out = perform(action)
    sys.stdout.write('\nC04-RESULT ' + json.dumps(out) + '\n')
    return 0


# ==================================================================================================
# part B — extraction of the composition graph from the real expansion (model input)
# ==================================================================================================
def _compositions(ast, hp: int = 0, with_sink: bool = False):
    """(plain, perf): `Composition` of the pipeline as `Runner._build` assembles it, and of
    `pipeline >> PerfTrackScore` as `Runner._eval` does; perf is {'error': class} if composing it is refused.
    Built in helper frames so that every temporary of the real call path is released before anything is inspected."""
    from forml import evaluation, flow
    from forml.flow._suite import clean  # noqa: F401  (Composition.builder wraps the source in clean.Stateless)

    def plain():
        builder = flow.Composition.builder(source_operator(), None)
        return builder.via(build(ast, hp)).build(sink().save(None) if with_sink else None)

    def perf():
        spec = project_evaluation()
        builder = flow.Composition.builder(source_operator(), None)
        return builder.via(build(ast, hp) >> evaluation.PerfTrackScore(spec.metric)).build(
            sink().save(None) if with_sink else None)

    first = plain()
    try:
        second = perf()
    except Exception as err:  # pylint: disable=broad-except
        second = {'error': type(err).__name__}
    return first, second


def _input_port(port) -> int:
    from forml.flow._graph import port as portmod

    if isinstance(port, portmod.Train):
        return 1000
    if isinstance(port, portmod.Label):
        return 1001
    return int(port)


def extract_comp(comp) -> dict:
    """Canonical graph of a real `flow.Composition`: workers reachable from the two heads (through every kind of
    subscription) closed under group membership; uids/gids numbered by first occurrence."""
    from forml import flow

    def visited(segment):
        out = []

        class V(flow.Visitor):
            def visit_node(self, node):
                out.append(node)

        segment.accept(V())
        return out

    order: list = []
    known: set = set()

    def add(node):
        if isinstance(node, flow.Worker) and id(node) not in known:
            known.add(id(node))
            order.append(node)
            return True
        return False

    for node in visited(comp.apply) + visited(comp.train):
        add(node)
    i = 0
    while i < len(order):
        node = order[i]
        i += 1
        for port in node.output:
            for sub in port:
                add(sub.node)
        for member in sorted(node.group, key=lambda n: (bool(n.trained), str(n.uid))):
            add(member)
    uid = {id(n): k for k, n in enumerate(order)}
    gids: dict = {}
    nodes = []
    for n in order:
        g = gids.setdefault(n.gid, len(gids))
        nodes.append([uid[id(n)], g, int(n.builder.kwargs.get('tag', 0)) if 'tag' in n.builder.kwargs else 0,
                      bool(n.stateful), bool(n.trained)])
    edges = []
    ports = []  # per edge: [output port index of the publisher, input port of the subscriber (Train 1000, Label 1001)]
    for n in order:
        for index, port in enumerate(n.output):
            for sub in port:
                if id(sub.node) in uid:
                    edges.append([uid[id(n)], uid[id(sub.node)]])
                    ports.append([index, _input_port(sub.port)])
    extra = itertools.count(len(order))

    def ref(node):
        return uid[id(node)] if id(node) in uid else next(extra)

    # --- where every worker sits: the fingerprint of what it is fed with (as the symbolic actors compute it at run time)
    kinds = [getattr(n.builder.actor, '__name__', '?') for n in order]
    feeds: dict = collections.defaultdict(list)  # subscriber uid -> [(input port, publisher uid, output port)]
    for (pub, sub), (oport, iport) in zip(edges, ports):
        feeds[sub].append((iport, pub, oport))
    memo: dict = {}

    def published(u, oport):
        if kinds[u] in ('Source', 'Labels'):
            return ('input', 0)
        if order[u].szout == 1:
            return ('a', nodes[u][2], position(u))
        return ('p', oport, nodes[u][2], position(u))

    def position(u):
        if u not in memo:
            memo[u] = None  # (no cycles in a composition; a defect there must not hang the extraction)
            if nodes[u][4]:  # a trainer: fed with the features on its Train port
                fed = [published(pub, oport) for iport, pub, oport in feeds[u] if iport == 1000]
            else:
                fed = [published(pub, oport) for iport, pub, oport in sorted(feeds[u]) if iport < 1000]
            memo[u] = _sig(tuple(fed))
        return memo[u]

    applied = {uid[id(n)] for n in visited(comp.apply)}
    groups: dict = {}
    for u, n in enumerate(nodes):
        if not n[3] or kinds[u] in ('Source', 'Labels'):
            continue
        grp = groups.setdefault(n[1], {'gid': n[1], 'tag': n[2], 'apos': [], 'tpos': None})
        if n[4]:
            grp['tpos'] = position(u)
        elif u in applied and feeds[u]:
            grp['apos'].append(position(u))
    # occurrence tag of a stateful group for the model: builder * 100 + rank among the groups built from that builder
    # (ranked by where they sit, so that independently expanded compositions number their groups alike)
    persistent_gids = [gids[g] for g in comp.persistent]
    ranked: dict = collections.defaultdict(list)
    for grp in groups.values():
        # groups that are applied at the same place (the fold replicas of an ensemble) are ranked in the order of
        # Composition.persistent: where they were trained is not visible in every composition (the evaluation's
        # composition leaves the pipeline's train path dangling)
        at = persistent_gids.index(grp['gid']) if grp['gid'] in persistent_gids else len(nodes)
        ranked[grp['tag']].append((sorted(grp['apos']), at, str(grp['tpos']), grp['gid']))
    ordinal = {member[-1]: k for members in ranked.values() for k, member in enumerate(sorted(members))}
    occ = [n[2] * 100 + (ordinal.get(n[1], 0) if n[3] else 0) for n in nodes]

    # pylint: disable=protected-access
    # `Segment.copy`: a dangling Future tail is just a proxy of the publisher it is registered with
    from forml.flow._graph import atomic

    copy_tail = comp.apply._tail
    while isinstance(copy_tail, atomic.Future) and copy_tail is not comp.apply._head and copy_tail._input:
        (publisher,) = copy_tail._input
        copy_tail = publisher._node
    return {'nodes': nodes, 'occ': occ, 'edges': edges, 'ports': ports, 'copy_tail': ref(copy_tail),
            'groups': [dict(groups[g], persistent=True) for g in persistent_gids if g in groups],
            'heads': [ref(comp.apply._head), ref(comp.apply._tail), ref(comp.train._head), ref(comp.train._tail)],
            'persistent': [nodes[next(k for k, n in enumerate(order) if n.gid == g)][2] for g in comp.persistent],
            'apply_stateful': sorted({nodes[uid[id(n)]][2] for n in visited(comp.apply) if n.stateful}),
            'train_stateful': sorted({nodes[uid[id(n)]][2] for n in visited(comp.train) if n.stateful})}


def extract_case(spec) -> dict:
    """Both compositions of an expression as the model wants them (runs in a scratch process).
    spec = ast or {'ast':, 'sink': bool}."""
    ast, with_sink = (spec['ast'], bool(spec.get('sink'))) if isinstance(spec, dict) else (spec, False)
    os.environ.setdefault('C04_HP', '0')
    plain, perf = _compositions(ast, 0, with_sink)
    out = {'plain': extract_comp(plain)}
    out['perf'] = perf if isinstance(perf, dict) else extract_comp(perf)
    again, _ = _compositions(ast, 0, with_sink)  # a second fresh expansion must be the same graph up to uuids
    out['stable'] = extract_comp(again) == out['plain']
    return out


# ==================================================================================================
# part C — running histories against the real code with different process isolation
# ==================================================================================================
class Died(Exception):
    """The child process exited without delivering a result."""


def _forked(func, arg):
    """Run func(arg) in a forked child (fresh copy of this process), JSON result through a pipe."""
    r, w = os.pipe()
    pid = os.fork()
    if pid == 0:
        status = 0
        try:
            os.close(r)
            _quiet()
            try:
                payload = json.dumps({'ok': func(arg)})
            except BaseException as err:  # pylint: disable=broad-except
                payload = json.dumps({'fail': f'{type(err).__name__}: {err}'[:500]})
            with os.fdopen(w, 'w') as out:
                out.write(payload)
        except BaseException:  # pylint: disable=broad-except
            status = 1
        finally:
            os._exit(status)  # pylint: disable=protected-access
    os.close(w)
    with os.fdopen(r) as inp:
        data = inp.read()
    _, code = os.waitpid(pid, 0)
    if not data:
        raise Died(f'forked action produced no result (wait status {code})')
    res = json.loads(data)
    if 'fail' in res:
        raise RuntimeError('forked action failed: ' + res['fail'])
    return res['ok']


def _crashed(action: dict) -> typing.Optional[dict]:
    """The result of an action whose process was killed by the armed crash (None if it was not)."""
    marker = action['log'] + '.crashed'
    if action.get('crash') is None or not os.path.exists(marker):
        return None
    with open(marker) as f:
        done = int(f.read() or 0)
    return {'status': 'crashed', 'done': done, 'generations': _forked(listing_of, action['registry'])}


def _died(action: dict, err) -> dict:
    """The action's process ended without a result and without the armed crash: recorded as behaviour."""
    try:
        listing = _forked(listing_of, action['registry'])
    except Exception:  # pylint: disable=broad-except
        listing = None
    return {'status': 'died', 'error': 'ProcessDied', 'where': 'run', 'message': str(err)[:200], 'generations': listing}


def _act_forked(action: dict) -> dict:
    try:
        return _forked(perform, action)
    except (Died, RuntimeError) as err:
        res = _crashed(action)
        return res if res is not None else _died(action, err)


def _subprocess(action: dict) -> dict:
    # (cwd: forml opens ./<program>.log upon import - keep it inside the case's scratch directory)
    proc = subprocess.run([sys.executable, os.path.abspath(__file__), '--action'], input=json.dumps(action),
                          capture_output=True, text=True, timeout=600, cwd=os.path.dirname(action['log']))
    for line in proc.stdout.split('\n'):
        if line.startswith('C04-RESULT '):
            return json.loads(line[len('C04-RESULT '):])
    res = _crashed(action)
    if res is not None:
        return res
    return _died(action, f'action process failed ({proc.returncode}): {proc.stderr[-300:]}')


def _perform_all(actions: list) -> list:
    return [perform(a) for a in actions]


def run_case(job: dict) -> dict:
    """job: {'ast', 'sink', 'history': [{'kind','gen','hp','crash','race'}...], 'isolation': subprocess|fork|inprocess,
    'package', 'extract'}.  Returns {'extract': ..., 'steps': [{'result':..., 'events': [...], 'race_events': [...]}]}."""
    work = tempfile.mkdtemp(prefix='verif-c04-case-')
    try:
        out: dict = {}
        if job.get('extract', True):
            try:
                out['extract'] = _forked(extract_case, {'ast': job['ast'], 'sink': job.get('sink')})
            except (RuntimeError, Died) as err:  # the code under test refuses to expand the pipeline: behaviour
                out['extract_error'] = str(err)[:300]
        registry = os.path.join(work, 'registry')
        try:
            _forked(lambda _: new_registry(registry, job['package']), None)
        except (RuntimeError, Died) as err:  # the code under test cannot publish the package: behaviour
            out['setup_error'] = str(err)[:300]
            out['steps'] = []
            return out
        actions = []
        handles = job.get('handles') or {}
        for i, act in enumerate(job['history']):
            handle = None
            if act.get('handle') is not None and job['isolation'] == 'handles':
                handle = dict(handles[str(act['handle'])], id=str(act['handle']))
            actions.append({'kind': act['kind'], 'gen': act['gen'], 'hp': act['hp'], 'run': i, 'ast': job['ast'],
                            'sink': bool(job.get('sink')), 'crash': act.get('crash') if job['isolation'] != 'handles' else None,
                            'race': {'run': 100 + i, 'hp': (act['hp'] + 5) % 10} if act.get('race') else None,
                            'handle': handle, 'registry': registry, 'log': os.path.join(work, f'log-{i}')})
        iso = job['isolation']
        if iso == 'inprocess' and any(a['crash'] is not None for a in actions):
            iso = 'fork'  # a process that is to die cannot host the rest of the history
        if iso in ('inprocess', 'handles'):
            try:
                results = _forked(_perform_all, actions)
            except (RuntimeError, Died) as err:
                results = [_died(a, err) for a in actions]
        elif iso == 'fork':
            results = [_act_forked(a) for a in actions]
        elif iso == 'subprocess':
            results = [_subprocess(a) for a in actions]
        else:
            raise ValueError(iso)
        out['steps'] = [{'result': r, 'events': read_log(a['log']), 'race_events': read_log(a['log'] + '.race')}
                        for r, a in zip(results, actions)]
        return out
    finally:
        shutil.rmtree(work, ignore_errors=True)


def _run_case_safe(job: dict) -> dict:
    import time

    t0 = time.time()
    try:
        out = run_case(job)
    except Exception as err:  # pylint: disable=broad-except
        out = {'machinery': f'{type(err).__name__}: {err}'[:800]}
    out['wall'] = time.time() - t0
    return out


# ==================================================================================================
# part D — the check
# ==================================================================================================
def _origin(o):
    """Canonical state summary [tag, run, hp, prev] of a logged origin dict."""
    if o is None:
        return NONE
    return [int(o['tag']), int(o['run']), int(o['hp']), NONE if o.get('prev') is None else [int(x) for x in o['prev']]]


def impl_observations(events: list) -> list:
    """Sorted observations of the stateful actors: ['a'|'t', tag, hp, state]."""
    out = []
    for ev in events:
        if ev['ev'] == 'apply':
            if ev.get('stateful'):
                out.append(['a', int(ev['tag']), int(ev['hp']), _origin(ev.get('origin'))])
        elif ev['ev'] == 'train':
            out.append(['t', int(ev['tag']), int(ev['hp']), _origin(ev.get('prev'))])
    return sorted(out, key=json.dumps)


def _unique(observations: list) -> list:
    out = []
    for o in observations:
        if o not in out:
            out.append(o)
    return out


def _facts(res: dict) -> dict:
    """What the oracle takes from the real expansion: which builders are applied statefully, and the persistent groups
    with the place each one is applied at / was trained at."""
    plain = (res.get('extract') or {}).get('plain') or {}
    return {'apply_stateful': plain.get('apply_stateful'), 'groups': plain.get('groups')}


def spec_violations(case: dict, steps: list) -> list:
    """The property itself, evaluated on what the real actors logged.  Independent of the model: uses only the
    history (incl. which long-lived handle an action works through), the registry listings the real code produced and
    the logged events.
    Returns [(step index, what, signature)]."""
    out = []
    run_of: dict = {}  # generation -> run (= index of the train action that committed it)
    trained_in: dict = {}  # run -> occurrences trained in that run (they produced a state there)
    content: dict = {}  # generation -> the origins of its states as first listed
    former: dict = {}  # generation number -> the runs of removed generations that carried the number before
    gens_before: list = []
    applied_stateful = set(case.get('apply_stateful') or [])
    groups = case.get('groups') or []
    handles = case.get('handles') or {}
    pinned: dict = {}  # handle -> the generation its asset.Instance addresses once it has resolved `latest`
    serving: dict = {}  # handle -> (generation, hyper-parameter) its kept serving runner was built with
    for i, (act, step) in enumerate(zip(case['history'], steps)):
        res = step['result']
        listing = res.get('generations')
        gens_after = [g for g, _ in listing] if listing is not None else list(gens_before)
        race_run = 100 + i
        raced = [ev for ev in step.get('race_events') or [] if ev['ev'] == 'train']
        mode = act['kind']
        if mode == 'prune':
            # housekeeping: the generation is gone (its number may be used again once it was the latest one); all the
            # others are untouched
            for g in list(content):
                if g not in gens_after:
                    content.pop(g, None)
                    former.setdefault(g, set()).add(run_of.pop(g, None))
            for g, origins in listing or []:
                summary = [None if o is None else [o.get('tag'), o.get('run')] for o in origins]
                if g in content and content[g] != summary:
                    out.append((i, f'prune step {i}: generation {g} listed {content[g]} and now lists {summary}',
                                'registry:generation-replaced'))
            if listing is not None:
                gens_before = gens_after
            continue
        for g in gens_after:
            if g not in gens_before:
                # committed by this action - or, while a non-training action ran, by the re-training racing with it
                run_of[g] = i if act['kind'] == 'train' else race_run
        # a committed generation never changes
        for g, origins in listing or []:
            summary = [None if o is None else [o.get('tag'), o.get('run')] for o in origins]
            if g in content and content[g] != summary:
                out.append((i, f'{mode} step {i}: generation {g} was committed with the states {content[g]} and now lists '
                               f'{summary}: a committed generation has been replaced', 'registry:generation-replaced'))
                content[g] = summary
            content.setdefault(g, summary)
        if step.get('race_events'):
            trained_in[race_run] = {int(ev['tag']) for ev in raced}
        # --- the generation the action addresses
        hspec = handles.get(str(act.get('handle'))) if act.get('handle') is not None else None
        keeps_instance = hspec is not None and hspec['level'] in ('instance', 'runner')
        explicit = (hspec.get('gen') if keeps_instance else act['gen'])
        expected_hp = int(act['hp'])
        hkey = str(act.get('handle'))
        kept_serving = keeps_instance and hspec['level'] == 'runner' and mode == 'serve' and hkey in serving
        if kept_serving:
            selected, expected_hp = serving[hkey]  # states and hyper-parameters of the moment the runner was built
        elif explicit is not None:
            selected = explicit if explicit in gens_before else None
        elif keeps_instance and pinned.get(hkey) is not None:
            selected = pinned[hkey]  # the key the instance resolved at its first use on a non-empty release
        else:
            selected = max(gens_before) if gens_before else None
        trained_in[i] = {int(ev['tag']) for ev in step['events'] if ev['ev'] == 'train'}
        if keeps_instance and not kept_serving:
            loaded = res.get('status') == 'ok' and any(ev['ev'] == 'apply' and ev.get('stateful') for ev in step['events'])
            if explicit is None and pinned.get(hkey) is None and gens_before and (mode == 'train' or loaded):
                pinned[hkey] = max(gens_before)
            if hspec['level'] == 'runner' and mode == 'serve' and res.get('status') == 'ok' and res.get('built'):
                serving[hkey] = (selected, int(act['hp']))
        # a successful training of persisted actors commits a new generation
        if (mode == 'train' and res.get('status') == 'ok' and listing is not None and gens_after == gens_before
                and trained_in[i] & applied_stateful):
            out.append((i, f'train step {i}: the run trained the persisted actors {sorted(trained_in[i] & applied_stateful)} but no '
                           f'new generation is listed afterwards ({gens_after})', 'train:nothing-committed'))
        # the occurrences whose counterpart produced a state in the run that committed the selected generation
        producers = trained_in.get(run_of.get(selected), set()) if selected is not None else set()
        for ev in step['events']:
            tag = int(ev['tag'])
            who = f'{mode} step {i}: actor {tag}'
            if int(ev['hp']) != expected_hp:
                out.append((i, f"{who} runs with hyper-parameter {ev['hp']} but the current code configures {expected_hp}",
                            f'{mode}:stale-hyperparameter'))
            if ev['ev'] == 'apply' and ev.get('stateful'):
                o = ev.get('origin')
                if mode == 'train':
                    # applied on the train path: must hold what its own trainer produced in this very run
                    if o is None:
                        if tag in trained_in[i]:
                            out.append((i, f'{who} is applied on the train path without the state its trainer produced',
                                        'train:no-state'))
                    elif int(o['tag']) != tag:
                        out.append((i, f"{who} holds the state trained by actor {o['tag']}", 'train:state-of-other-actor'))
                    elif int(o['run']) != i:
                        out.append((i, f"{who} holds the state of training run {o['run']}, not of this run",
                                    'train:state-of-other-generation'))
                    continue
                if selected is None:
                    if o is not None:
                        stateless = [int(e['tag']) for e in step['events'] if e['ev'] == 'apply' and e.get('stateful')
                                     and e.get('origin') is None and int(e['tag']) in trained_in.get(race_run, set())]
                        if raced and int(o['run']) == race_run and int(o['tag']) == tag and stateless:
                            # the action started on an empty release; the very first commit of another process slipped in
                            # between two of its loads: `latest` is not pinned while the release is empty (finding C04-F2)
                            out.append((i, f"{who} holds the state of the racing first training run {race_run} while actor(s) "
                                           f'{sorted(set(stateless))} of the same run got none: the action started on an empty '
                                           'release and did not pin that', 'latest-unpinned-on-empty-release'))
                        else:
                            out.append((i, f"{who} holds a state of actor {o['tag']} although no generation is loaded",
                                        f'{mode}:state-of-other-generation'))
                    continue  # nothing stored is loaded: outside the property
                if o is None:
                    if tag in producers:
                        out.append((i, f'{who} is applied with no state although generation {selected} is loaded',
                                    f'{mode}:no-state'))
                elif int(o['tag']) != tag:
                    out.append((i, f"{who} receives the state of actor {o['tag']} (generation {selected})",
                                f'{mode}:state-of-other-actor'))
                elif int(o['run']) != run_of.get(selected) and int(o['run']) in former.get(selected, ()):
                    # the number of a removed generation was used again and the process still answers from its caches
                    out.append((i, f"{who} receives the state of the REMOVED generation {selected} (run {o['run']}) although "
                                   f'generation {selected} is now the one committed by run {run_of.get(selected)}',
                                'stale-cache-after-number-reuse'))
                elif int(o['run']) != run_of.get(selected):
                    out.append((i, f"{who} receives a state of training run {o['run']} but generation {selected} was "
                                   f'committed by run {run_of.get(selected)}', f'{mode}:state-of-other-generation'))
                elif o.get('pos') is not None and ev.get('pos') is not None:
                    # several groups may be built from one builder: the state must be the one of the group sitting here
                    mine = [g for g in groups if g['tag'] == tag and ev['pos'] in g['apos']]
                    if mine and o['pos'] not in {g['tpos'] for g in mine}:
                        out.append((i, f"{who} applied at {ev['pos']} holds the state that another group built from the same "
                                       f"builder produced (trained at {o['pos']}, the group(s) here at "
                                       f"{sorted(str(g['tpos']) for g in mine)})", f'{mode}:state-of-other-group'))
            elif ev['ev'] == 'train':
                p = ev.get('prev')
                if p is None:
                    if selected is not None and tag in applied_stateful and tag in producers:
                        out.append((i, f'{who} is re-trained from scratch although generation {selected} holds its state',
                                    'train:retrain-lost-state'))
                elif selected is None:
                    out.append((i, f"{who} is trained from a state of actor {p['tag']} although no generation exists",
                                'train:state-of-other-generation'))
                elif int(p['tag']) != tag:
                    out.append((i, f"{who} is re-trained from the state of actor {p['tag']}", 'train:state-of-other-actor'))
                elif int(p['run']) != run_of.get(selected) and int(p['run']) in former.get(selected, ()):
                    out.append((i, f"{who} is re-trained from the state of the REMOVED generation {selected} (run {p['run']})",
                                'stale-cache-after-number-reuse'))
                elif int(p['run']) != run_of.get(selected):
                    out.append((i, f"{who} is re-trained from a state of run {p['run']}, generation {selected} is of run "
                                   f'{run_of.get(selected)}', 'train:state-of-other-generation'))
        # groups built from one builder hold states of their own: as many different states as groups are applied
        if mode != 'train' and selected is not None and res.get('status') == 'ok':
            held: dict = collections.defaultdict(list)
            for ev in step['events']:
                if ev['ev'] == 'apply' and ev.get('stateful') and (ev.get('origin') or {}).get('nonce') is not None:
                    held[int(ev['tag'])].append(ev['origin']['nonce'])
            for tag, nonces in held.items():
                # (groups of one builder that sit at the same place and were trained at the same place are
                # indistinguishable - the runner may even train them as one task: they count as one)
                ngroups = len({(tuple(sorted(g['apos'])), g['tpos']) for g in groups if g['tag'] == tag})
                if len(set(nonces)) < min(len(nonces), ngroups):
                    out.append((i, f'{mode} step {i}: the {len(nonces)} applied actors of builder {tag} ({ngroups} persistent groups) '
                                   f'hold only {len(set(nonces))} different state(s): groups built from one builder share a state',
                                f'{mode}:groups-share-state'))
        if listing is not None:
            gens_before = gens_after
    return out


def _M(tag, stateful=True):
    return ['wrap', NONE, [tag, stateful], [tag, stateful]]


def _seq(*items):
    out = items[0]
    for it in items[1:]:
        out = ['seq', out, it]
    return out


def _par(*branches):
    return ['par', list(branches), 0]


# hand-picked pipelines (tags are renumbered by `retag`): number / placement of stateful actors, branches (with a
# single merged tail), stateful actors used only in train mode, only in apply mode, label operators, transparent and
# ensemble operators.  Third item: run with a sink (then branching pipelines pass `eval_perftrack`).
CORPUS_ASTS = [
    (_seq(_M(1), _M(2), _M(3)), False),                                        # three stateful mappers (DESIGN D3)
    (_seq(_M(1), _par(_seq(_M(2), _M(3)), _M(4)), _M(5)), True),               # parallel stateful branches, one tail
    (_seq(['mapreduce', [[1, True], [2, True]], 3], _M(4)), True),             # branch first
    (_seq(_M(1), _M(2)), True),
    (_M(1), False),
    (_seq(_M(1, False), _M(2), _M(3, False), _M(4)), False),
    (['seq', _M(1), ['seq', _M(2), _M(3)]], True),                             # other parenthesisation
    (_seq(['wrap', NONE, [1, True], NONE], _M(2)), False),                     # stateful apply-only actor first
    (_seq(['wrap', NONE, NONE, [1, True]], _M(2), _M(3)), False),              # stateful train-only actor first
    (_seq(_M(1), ['wrap', NONE, NONE, [2, True]], _M(3)), True),
    (_seq(['wrap', [1, True], NONE, NONE], _M(2), _M(3)), False),              # stateful label operator
    (_seq(['wrap', [1, False], [2, True], [2, True]], _M(3)), True),
    (_seq(['wrap', [1, True], [2, True], [3, True]], _M(4)), False),           # label + apply + train, all different
    (_seq(['wrap', NONE, [1, True], [2, True]], _M(3)), False),                # different apply / train actors
    (_seq(_par(_M(1), _M(2), _M(3)), _M(4)), True),                            # three-way fan-out at the source
    (_seq(_M(1), ['mapreduce', [[2, True], [3, False], [4, True]], 5]), True),
    (_seq(_M(1), ['mapreduce', [[2, True], [3, True]], 4], _M(5)), False),     # perftrack refused (no sink)
    (_seq(_par(_par(_M(1), _M(2)), _seq(_M(3), _M(4))), _M(5)), True),         # nested fan-out
    (_seq(['debug', [1, False], [2, True]], _M(3), _M(4)), False),
    (_seq(_M(1), ['debug', [2, False], [3, True]], _M(4)), True),
    (['stack', [_M(1), _M(2)], 2, 3, 4, 5, 6], True),
    (_seq(_M(1), ['stack', [_seq(_M(2), _M(3))], 2, 4, 5, 6, 7]), False),
    (_seq(_M(1, False), _M(2, False)), False),                                 # nothing to persist
    (_seq(_M(1), _par(['wrap', NONE, NONE, [2, True]], _M(3)), _M(4)), True),  # a branch without apply worker: the merger
    (_seq(_par(['wrap', NONE, [1, True], NONE], ['wrap', NONE, NONE, [2, True]]), _M(3)), True),  # ... subscribes directly
    # a shortcut subscription (the merger hangs off the fork itself *and* off its siblings): Traversal.copy re-creates
    # the fork's subscriptions in another order (not copyFaithful), the depth-first order stays
    (_seq(_M(1), _par(_M(2), _M(3), ['wrap', NONE, NONE, [4, True]]), _M(5)), True),
    # several groups built from ONE builder object (a group is not determined by its builder): consecutive passes of a
    # user operator, MapReduce(b, b), the same operator instance in two branches (equal but distinct builders)
    (_seq(_M(1), ['passes', [2, True], 2], _M(3)), True),
    (_seq(['mapreduce1', [1, True], 2, 2], _M(3)), True),
    (_seq(_M(1), ['par1', _seq(_M(2), _M(3)), 2, 4]), True),
    (['passes', [1, True], 3], False),
]

# `train!k`: the training process dies before the k+1-th micro-step of its commit; `apply~`: a re-training commits
# right after the first state load of the action; `apply:1`: explicit generation
CORPUS_HISTORIES = [
    ['train', 'apply', 'perftrack', 'serve'],
    ['train', 'train', 'apply:1', 'apply', 'perftrack:1', 'serve:1'],
    ['train', 'perftrack', 'train', 'perftrack', 'apply:2'],
    ['train', 'apply~', 'perftrack~', 'serve~', 'apply', 'perftrack:1'],
    ['apply', 'train', 'serve', 'train:1', 'apply:3', 'apply:2'],
    ['train', 'train!7', 'apply', 'perftrack', 'train!9', 'serve'],
    ['apply~', 'perftrack', 'train', 'serve~', 'apply'],               # the very first commit races with a load
    # housekeeping: an administrator removes a generation - sparse listings [2,3] / [1,3] / the latest one removed
    ['train', 'train', 'train', 'prune:1', 'train', 'apply:4', 'apply:2', 'apply:3', 'apply', 'serve:4', 'perftrack:3'],
    ['train', 'train', 'train', 'prune:2', 'train', 'apply:1', 'apply:3', 'apply:4', 'train', 'serve:5', 'apply:2'],
    ['train', 'train', 'prune:2', 'train', 'apply', 'apply:2', 'prune:1', 'train', 'perftrack', 'serve:3'],
    ['train', 'apply:1', 'prune:1', 'train', 'apply:1', 'serve', 'perftrack:1', 'train'],  # the removed number is used again
]


def _parse_history(spec: list, rng=None) -> list:
    """`train!k`: dies before the k+1-th micro-step; `apply~`: raced by a committing re-training; `apply:1`: explicit
    generation; `train@a`: through the long-lived handle `a` (its generation argument is the handle's)."""
    out = []
    for i, item in enumerate(spec):
        item, _, handle = item.partition('@')
        race = item.endswith('~')
        item = item.rstrip('~')
        item, _, crash = item.partition('!')
        kind, _, gen = item.partition(':')  # (`prune:2`: an administrator removes generation 2 from the registry)
        out.append({'kind': kind, 'gen': int(gen) if gen else None, 'crash': int(crash) if crash else None, 'race': race,
                    'handle': handle or None, 'hp': (i * 7 + 3) % 10 if rng is None else rng.randint(0, 9)})
    return out


# histories through long-lived handles (isolation `handles`: one process; the handle table of the job says what each
# handle keeps alive: the registry provider, the asset.Directory, the asset.Release, the asset.Instance, the runners)
HANDLE_HISTORIES = [
    ['train@a', 'train@a', 'train@a', 'apply:1', 'apply:2', 'apply:3', 'apply@a', 'perftrack@a', 'serve@a', 'train',
     'serve@a', 'apply'],
    ['train', 'serve@a', 'train@a', 'serve@a', 'train@a', 'train@a', 'serve:2', 'apply:3', 'perftrack:4', 'serve@a'],
    ['train@a', 'train@b', 'train@a', 'train@b', 'train@a', 'apply:2', 'perftrack:3', 'serve:4', 'apply:5', 'apply@b'],
    ['serve@a', 'train@a', 'apply@a', 'train', 'train@a', 'apply@a', 'serve@a', 'perftrack:3'],
]


def retag(ast, counter=None):
    """props/pipegen.retag extended by 'par': tags renumbered 1.. in traversal order."""
    from props import pipegen

    counter = counter or itertools.count(1)
    k = ast[0]
    if k == 'seq':
        left = retag(ast[1], counter)
        return ['seq', left, retag(ast[2], counter)]
    if k == 'par':
        branches = [retag(b, counter) for b in ast[1]]
        return ['par', branches, next(counter)]
    if k == 'stack':
        tags = [next(counter) for _ in range(4)]
        return ['stack', [retag(b, counter) for b in ast[1]], int(ast[2])] + tags
    if k == 'passes':
        return ['passes', [next(counter), bool(ast[1][1])], int(ast[2])]
    if k == 'mapreduce1':
        return ['mapreduce1', [next(counter), bool(ast[1][1])], int(ast[2]), next(counter)]
    if k == 'par1':
        inner = retag(ast[1], counter)
        return ['par1', inner, int(ast[2]), next(counter)]
    return pipegen.retag(ast, counter)


def shape(ast) -> str:
    from props import pipegen

    k = ast[0]
    if k == 'seq':
        return f'({shape(ast[1])}>{shape(ast[2])})'
    if k == 'par':
        return 'par[' + '|'.join(shape(b) for b in ast[1]) + ']'
    if k == 'stack':
        return f'stk{ast[2]}[' + ','.join(shape(b) for b in ast[1]) + ']'
    if k == 'passes':
        return f"pass{ast[2]}[{'S' if ast[1][1] else 's'}]"
    if k == 'mapreduce1':
        return f"mr1x{ast[2]}[{'S' if ast[1][1] else 's'}]"
    if k == 'par1':
        return f'par1x{ast[2]}[{shape(ast[1])}]'
    return pipegen.shape(ast)


class C04(fw.Check):
    ID = 'C04'
    LEAN_MODULES = ['ForML.Props.C04']
    DRIVER = 'drv_c04'
    RULE = ('pipeline expressions (hand-picked corpus + props/pipegen.Gen: wrap mapper/apply/train/label operators '
            'stateful and stateless, MapReduce, Dump, FullStack, a user fan-out operator `Parallel` with 2-3 branches holding '
            'stateful actors merged into one tail, every nesting, 1..5 leaves; with and without sink) x histories of 1..6 '
            'lifecycle actions (train / re-train from latest or explicit generation, batch apply latest/explicit, '
            'perftrack evaluation, pyfunc serving call; hyper-parameter of the current code changes per action) with faults '
            '(the training process dies before the k+1-th file-system micro-step of posix.Registry.write/close; a re-training '
            'of another process commits right after the first asset.State.load of a loading action, also on a still empty '
            'release) + sweeps (a training dying at each micro-step, every loading mode racing with a commit) run on '
            'the real dask(synchronous)/pyfunc runners over a real posix registry, every action in a fresh interpreter '
            '(subprocess), in a fresh forked process (fork) or all in one process (inprocess). A case is distinct by '
            '(expression, sink, history, isolation) and non-trivial when at least one action loaded a stored generation into '
            'at least two stateful actors.')
    TRUSTED = [
        'the composition graph given to the model is extracted from the real expansion (C03 owns expression -> graph); '
        'two fresh expansions are checked to be equal up to uuids on every case; for mappers / >> / two-branch fan-outs the '
        'model expands the graph itself and the check compares it with the extracted one',
        'the test project reads its expression / hyper-parameter from the environment (package import machinery is '
        'exercised, not verified); symbolic actors use the default Actor get_state/set_state/get_params/set_params',
        'CPython reference counting decides when dangling Futures die (real code path, not modelled)',
        'pyfunc cases whose Expression cannot be built (fork directly at the source: C02 defects) are skipped for serving',
        'fault injection wraps pathlib.Path.mkdir/open/rename inside posix.Registry.write/close (process exit) and '
        'asset.State.load (commit of another process after the first load): the wrapped functions run unchanged',
    ]
    ASSUMPTIONS = [
        'uuid4 values are structurally fresh: an expansion depends on node/group ids only through equality '
        '(Comp.rename models a fresh expansion)',
        'parametricity: the flow layer never inspects payloads',
        'a stateful actor that is only ever trained (never applied in apply mode) is not persisted by design '
        '(docstring of Composition.persistent); the oracle does not demand a previous state for it',
        'a process dies between, not inside, file-system calls (rename is atomic); readers see a generation iff its tag file exists',
        'an action on an empty release addresses no generation: nothing is demanded of it unless it mixes in states of a '
        'generation committed meanwhile (finding C04-F2)',
    ]

    # ---- generation ----------------------------------------------------------------------------
    def _asts(self, count: int) -> list:
        """[(expression, with sink)]: the corpus first, then random ones."""
        from props import pipegen

        gen = pipegen.Gen(self.rng)
        out = [(retag(a), snk) for a, snk in CORPUS_ASTS]
        while len(out) < count:
            rng = self.rng
            n = rng.choice([1, 2, 2, 3, 3, 3, 4, 4, 5])
            ast = gen.expr(n)
            r = rng.random()
            if r < 0.3:
                # parallel branches that each hold stateful actors, merged into one tail, between stateful mappers
                other = gen.expr(rng.choice([1, 1, 2])) if rng.random() < 0.6 else _M(0)
                branches = [ast, other] + ([_M(0, rng.random() < 0.8)] if rng.random() < 0.3 else [])
                rng.shuffle(branches)
                parts = [_par(*branches)]
                if rng.random() < 0.6:
                    parts.insert(0, _M(0, rng.random() < 0.8))
                if rng.random() < 0.7:
                    parts.append(_M(0, rng.random() < 0.8))
                ast = retag(_seq(*parts))
            elif r < 0.42:
                # several groups from one builder object, between other stateful actors
                form = rng.choice([['passes', [0, True], rng.choice([2, 2, 3])], ['mapreduce1', [0, True], rng.choice([2, 3]), 0],
                                   ['par1', ast, 2, 0]])
                parts = [form]
                if rng.random() < 0.6:
                    parts.insert(0, _M(0, rng.random() < 0.8))
                if rng.random() < 0.7:
                    parts.append(_M(0, rng.random() < 0.8))
                if form[0] != 'par1' and rng.random() < 0.5:
                    parts.insert(rng.randint(0, len(parts)), ast)
                ast = retag(_seq(*parts))
            elif r < 0.65:
                # bias towards several stateful mappers in a chain (where positions matter)
                extra = [_M(0, rng.random() < 0.8) for _ in range(rng.choice([1, 2, 3]))]
                parts = extra[:1] + [ast] + extra[1:] if rng.random() < 0.5 else [ast] + extra
                ast = retag(_seq(*parts))
            out.append((ast, rng.random() < 0.6))
        return out[:count]

    def _history(self, faults: bool = True) -> list:
        rng = self.rng
        n = rng.choice([2, 3, 3, 4, 4, 5, 6])
        out = []
        trained = 0
        for i in range(n):
            if i == 0 and rng.random() < 0.85:
                kind = 'train'
            else:
                kind = rng.choice(['train', 'apply', 'apply', 'perftrack', 'perftrack', 'serve'])
            gen = None
            if trained and rng.random() < 0.35:
                gen = rng.randint(1, trained)
            elif rng.random() < 0.04:
                gen = trained + rng.randint(1, 2)  # not listed
            crash, race = None, False
            if faults and kind == 'train' and rng.random() < 0.2:
                crash = rng.randint(0, 16)  # beyond the last micro-step: the training completes
            if faults and kind != 'train' and rng.random() < (0.25 if trained else 0.1):
                race = True  # (on a still empty release: the very first commit slips in between two loads)
            out.append({'kind': kind, 'gen': gen, 'hp': rng.randint(0, 9), 'crash': crash, 'race': race})
            if kind == 'train' and (gen is None or gen <= trained):
                trained += 1  # upper bound of the generations that may exist
            if race:
                trained += 1
        if faults and trained >= 2 and rng.random() < 0.2:
            # housekeeping in between (such histories run without crashes and races)
            for _ in range(rng.choice([1, 1, 2])):
                at = rng.randint(2, len(out))
                out.insert(at, {'kind': 'prune', 'gen': rng.randint(1, trained), 'hp': 0, 'crash': None, 'race': False})
            for act in out:
                act['crash'], act['race'] = None, False
        return out

    def _jobs(self) -> list:
        plan = {'subprocess': self.n(8, 60), 'fork': self.n(38, 400), 'inprocess': self.n(34, 340), 'handles': self.n(14, 160)}
        jobs = []
        for iso, count in plan.items():
            for k, (ast, snk) in enumerate(self._asts(count)):
                handles = None
                if iso == 'handles':
                    handles = self._handle_table()
                    if k < 2 * len(HANDLE_HISTORIES):
                        hist = _parse_history(HANDLE_HISTORIES[k % len(HANDLE_HISTORIES)])
                    else:
                        hist = self._handle_history(handles)
                    snk = True if k < 2 * len(HANDLE_HISTORIES) else snk
                elif k < len(CORPUS_ASTS):
                    hist = _parse_history(CORPUS_HISTORIES[(k + len(iso)) % len(CORPUS_HISTORIES)])
                else:
                    hist = self._history()
                if iso == 'subprocess' and self.quick:
                    hist = hist[:3]  # a fresh interpreter costs ~2.5 s per action on an idle box, ~25 s at load average 60
                if handles:
                    for act in hist:  # an action through a kept asset.Instance addresses what that instance was created for
                        if act.get('handle') and handles[act['handle']]['level'] in ('instance', 'runner'):
                            act['gen'] = handles[act['handle']]['gen']
                jobs.append({'ast': ast, 'sink': snk, 'history': hist, 'isolation': iso, 'shape': shape(ast), 'handles': handles})
        return jobs + self._sweep_jobs()

    def _handle_table(self) -> dict:
        """What the long-lived handles `a`, `b`, `c` of a session keep alive (and the generation argument of a kept
        asset.Instance)."""
        rng = self.rng
        levels = ['instance', 'runner', 'instance', 'runner', 'release', 'directory', 'registry']
        return {h: {'level': rng.choice(levels), 'gen': rng.choice([None, None, None, None, 1, 2])} for h in 'abc'}

    def _handle_history(self, handles: dict) -> list:
        """Every action chooses a fresh chain of objects or one of the long-lived handles; several trainings through
        one handle, then loads of explicit generations through fresh chains."""
        rng = self.rng
        out = []
        trained = 0
        for i in range(rng.choice([5, 6, 7, 8, 9, 10])):
            kind = 'train' if (i == 0 and rng.random() < 0.8) else rng.choice(['train', 'train', 'apply', 'perftrack', 'serve', 'apply'])
            handle = rng.choice(['a', 'a', 'a', 'b', 'c', None, None])
            gen = None
            if handle is None and trained and kind != 'train' and rng.random() < 0.6:
                gen = rng.randint(1, trained)
            if handle is not None and handles[handle]['level'] in ('instance', 'runner'):
                gen = handles[handle]['gen']
            out.append({'kind': kind, 'gen': gen, 'hp': rng.randint(0, 9), 'crash': None, 'race': False, 'handle': handle})
            if kind == 'train':
                trained += 1
        return out

    def _sweep_jobs(self) -> list:
        """A training that dies at *each* micro-step of its commit (state files staged, directory, files moved, tag
        written, tag published), followed by every loading mode in fresh processes; and every loading mode racing
        with a commit.  Pipelines: a chain and parallel stateful branches with one tail."""
        chain = retag(_seq(_M(1), _M(2)))
        fan = retag(_seq(_M(1), _par(_seq(_M(2), _M(3)), _M(4)), _M(5)))
        jobs = []
        sweeps = [(chain, range(0, 10)), (fan, range(0, 19, 2) if self.quick else range(0, 19))]
        if not self.quick:
            sweeps.append((retag(_seq(['mapreduce', [[1, True], [2, True]], 3], _M(4))), range(0, 13)))
        for ast, ks in sweeps:
            for k in ks:
                hist = _parse_history(['train', f'train!{k}', 'apply', 'perftrack', 'serve', 'train', 'apply:1'])
                jobs.append({'ast': ast, 'sink': True, 'history': hist, 'shape': shape(ast) + ' crash-sweep',
                             'isolation': 'fork' if self.quick or k % 4 else 'subprocess'})
            for iso in ('fork', 'inprocess'):
                hist = _parse_history(['train', 'train', 'apply~', 'perftrack~', 'serve~', 'apply:1~', 'perftrack', 'train'])
                jobs.append({'ast': ast, 'sink': True, 'history': hist, 'shape': shape(ast) + ' race-sweep', 'isolation': iso})
        # every kind of long-lived handle: three trainings through it, explicit loads through fresh chains, every mode
        # through the handle, a foreign commit, the handle again
        for level in HANDLE_LEVELS:
            jobs.append({'ast': chain if level != 'runner' else fan, 'sink': True, 'history': _parse_history(HANDLE_HISTORIES[0]),
                         'shape': f'handle-sweep {level}', 'isolation': 'handles',
                         'handles': {'a': {'level': level, 'gen': None}}})
        return jobs

    # ---- running -------------------------------------------------------------------------------
    def _setup(self):
        if getattr(self, '_work', None):
            return
        import atexit

        actors()  # import forml in the parent: forked children inherit it
        from forml.provider.registry.filesystem import posix  # noqa: F401
        from forml.provider.runner import dask as _d, pyfunc as _p  # noqa: F401

        work = tempfile.mkdtemp(prefix='verif-c04-')
        atexit.register(shutil.rmtree, work, ignore_errors=True)
        self._package = _forked(make_package, work)  # (raises if project.Package.create does: the callers record that)
        self._work = work

    def _run(self, jobs: list) -> list:
        self._setup()
        for j in jobs:
            j['package'] = self._package
        if len(jobs) <= 2:
            return [_run_case_safe(j) for j in jobs]
        procs = min(14, max(2, (os.cpu_count() or 4) - 2))
        # slow (subprocess) cases first so that the pool drains evenly
        order = sorted(range(len(jobs)), key=lambda i: (jobs[i]['isolation'] != 'subprocess', i))
        ctx = multiprocessing.get_context('fork')
        with ctx.Pool(processes=procs, maxtasksperchild=50) as pool:
            res = pool.map(_run_case_safe, [jobs[i] for i in order], chunksize=1)
        out: list = [None] * len(jobs)
        for i, r in zip(order, res):
            out[i] = r
        return out

    # ---- model ---------------------------------------------------------------------------------
    @staticmethod
    def _comp_sexp(c: dict):
        if 'error' in c:
            return ['error']
        # (the model's `tag` is the group occurrence - builder * 100 + rank -, not the builder: groups are not determined by it)
        return ['comp', [[n[0], n[1], o, n[3], n[4]] for n, o in zip(c['nodes'], c['occ'])],
                [list(e) + list(p) for e, p in zip(c['edges'], c['ports'])]] + list(c['heads'])

    def _model_line(self, job: dict, ext: dict, steps: typing.Optional[list] = None, expr=None) -> str:
        """The case for the model. Faults are told as they really happened: a crash only if the process died (with the
        number of completed micro-steps), a race only if the racing re-training ran and committed."""
        acts = []
        for i, a in enumerate(job['history']):
            if a['kind'] == 'prune':
                acts.append(['prune', int(a['gen'])])
                continue
            res = steps[i]['result'] if steps else {}
            crash = res.get('done') if res.get('status') == 'crashed' else None
            race = [100 + i, (a['hp'] + 5) % 10] if res.get('raced') == 'ok' else None
            via = None
            hspec = (job.get('handles') or {}).get(str(a.get('handle'))) if a.get('handle') is not None else None
            if hspec is not None and job['isolation'] == 'handles' and hspec['level'] in ('instance', 'runner'):
                # (the levels above the instance remember nothing that matters: a fresh chain for the model)
                via = ['abcdefgh'.index(str(a['handle'])) + 1, hspec['level'] == 'runner']
            acts.append([a['kind'], a['gen'], i, a['hp'], 1000 * (i + 1), crash, race, via])
        if job['isolation'] == 'inprocess' and any(a['kind'] == 'prune' for a in job['history']):
            acts.insert(0, ['process', 'shared'])  # one process: the TAGS/STATES caches stay warm across the actions
        if expr is not None:
            return sexp.dumps(['expr', expr, bool(job.get('sink')), acts])
        return sexp.dumps(['case', self._comp_sexp(ext['plain']), self._comp_sexp(ext['perf']), bool(job.get('sink')), acts,
                           int(ext['plain']['copy_tail'])])

    @staticmethod
    def _model_steps(answer: str, occurrences: bool = True):
        """occurrences: the tags of the answer are group occurrences (builder * 100 + rank, see `extract_comp`); what the
        real actors log is their builder - the comparison is per builder (the oracle tells the occurrences of one
        builder apart by where they sit)."""
        m = sexp.num(sexp.loads(answer))
        if not isinstance(m, list) or m[0] != 'ok':
            return None

        def builder(t):
            return t // 100 if occurrences and isinstance(t, int) else t

        def observation(o):
            kind, tag, hp, state = o
            if state != NONE:
                state = [builder(state[0]), state[1], state[2], state[3] if state[3] == NONE else [builder(state[3][0]), state[3][1]]]
            return [kind, builder(tag), hp, state]

        wf = m[1][1:3]
        tail_clean = m[1][3][-1]
        ptags = [builder(t) for t in m[2][1:]]
        steps = []
        for st in m[3]:
            if st[0] == 'error':
                steps.append({'status': 'error', 'error': st[1]})
            else:
                steps.append({'status': 'ok', 'ngens': st[1], 'obs': sorted((observation(o) for o in st[2]), key=json.dumps),
                              'keys': st[3] if len(st) > 3 else None})
        out = {'wf': wf, 'ptags': ptags, 'steps': steps, 'tail_clean': tail_clean}
        if len(m) > 4:
            out.update({'perfmodel': m[4][1], 'perfspec': m[4][2], 'copy_faithful': m[5][1], 'ports_ok': m[5][2], 'paths': m[5][3]})
        return out

    PYFUNC_LIMITS = {'IndexError', 'AssertionError'}  # C02: forks at the head / Push-Pop order (not C04's subject)

    def _judge(self, job: dict, res: dict, model: typing.Optional[dict]) -> None:
        """Oracle on the real behaviour + comparison with the model for one case."""
        case = {'ast': job['ast'], 'sink': bool(job.get('sink')), 'history': job['history'], 'isolation': job['isolation'],
                'handles': job.get('handles')}
        key = (json.dumps(job['ast']), bool(job.get('sink')), json.dumps(job['history']), job['isolation'],
               json.dumps(job.get('handles'), sort_keys=True))
        if 'machinery' in res:
            raise fw.MachineryError(f"case {case} could not be run: {res['machinery']}")
        ext = res.get('extract') or {}
        steps = res['steps']
        case.update(_facts(res))
        for what in ('extract_error', 'setup_error'):
            if what in res:
                self.diverge('the code under test ' + ('does not expand the pipeline' if what == 'extract_error' else
                                                       'cannot publish the project package') + ': ' + res[what][:160],
                             case, res[what][:160], 'expands / publishes')
        loaded = 0
        for act, st in zip(job['history'], steps):
            if act['kind'] != 'train' and st['result']['status'] == 'ok':
                holders = [e for e in st['events'] if e['ev'] == 'apply' and e.get('stateful') and e.get('origin')]
                loaded = max(loaded, len(holders))
        self.case(key, f"{job['isolation']} {job['shape'] if len(job['shape']) < 40 else 'large'}", nontrivial=loaded >= 2,
                  sample={'ast': job['ast'], 'sink': bool(job.get('sink')), 'history': job['history'], 'isolation': job['isolation'],
                          'handles': job.get('handles'),
                          'first_apply': impl_observations(next((s['events'] for a, s in zip(job['history'], steps)
                                                                 if a['kind'] != 'train'), []))[:6]})
        for st in steps:
            r = st['result']
            self.extra.setdefault('action_outcomes', collections.Counter())[
                r['status'] if r['status'] in ('ok', 'crashed') else f"error:{r.get('error')}"] += 1
            if r.get('raced'):
                self.extra['action_outcomes'][f"raced:{r['raced']}"] += 1
        # --- oracle (real code only)
        for i, what, sig in spec_violations(case, steps):
            witness = {'ast': job['ast'], 'sink': bool(job.get('sink')), 'history': job['history'][: i + 1],
                       'isolation': job['isolation'], 'handles': job.get('handles'), 'step': i}
            self.violate(what, witness, sig, {'events': impl_observations(steps[i]['events'])[:12]})
        # --- expansion stability on the real code
        if ext and not ext.get('stable', True):
            self.diverge('two fresh expansions of one expression differ beyond uuids', case, 'unstable', 'stable')
        # --- model vs implementation
        if model is None:
            return
        self.extra.setdefault('perftrack_composition_vs_model', collections.Counter())[model['perfmodel']] += 1
        self.extra.setdefault('perftrack_composition_vs_spec', collections.Counter())[model['perfspec']] += 1
        self.extra.setdefault('traversal_copy_faithful', collections.Counter())[
            f"copyFaithful={model['copy_faithful']} paths={model['paths'] if model['paths'] == 'error' else min(int(model['paths']), 9)}"] += 1
        if model['ports_ok'] != 'true':
            raise fw.MachineryError(f'extraction of {case}: subscriptions with ports do not match the subscriptions')
        if model['perfspec'] == 'differ':
            # Composition.persistent of the evaluation's composition lists other occurrences (or other positions) than
            # the plain composition's: what eval_perftrack loads is bound differently from what training committed
            self.diverge('the composition of pipeline >> PerfTrackScore built by the real code does not persist the occurrences '
                         'of the plain composition position by position (the model derives it with an order-preserving copy of '
                         f"the apply segment; with the copy as Traversal.copy is modelled: {model['perfmodel']})", case,
                         (ext.get('perf') or {}).get('persistent', (ext.get('perf') or {}).get('error')), 'Comp.perfOf')
        elif model['perfmodel'] == 'differ':
            # the mechanical model of Traversal.copy and the real code disagree although the real copy is order-preserving
            # on this graph: a matter of the model (or of a harmless re-ordering), not of the property
            self.notes.append(f"Traversal.copy as modelled (Comp.perfMech) persists other positions than the real copy for {job['ast']}")
        elif model['perfmodel'] in ('impl-refuses', 'model-refuses') and model['perfspec'] != model['perfmodel']:
            self.notes.append(f"perftrack composition of {job['ast']}: refusal differs between the models ({model['perfmodel']} / {model['perfspec']})")
        if ext and ext['plain'].get('persistent') is not None:
            mp = [t for t in model['ptags']]
            if mp != ext['plain']['persistent']:
                self.extra.setdefault('persistent_order_differs', []).append({'ast': job['ast'], 'impl': ext['plain']['persistent'], 'model': mp})
        listed = 0
        for i, (act, st, ms) in enumerate(zip(job['history'], steps, model['steps'])):
            r = st['result']
            listed_before, listed = listed, (len(r['generations']) if r.get('generations') is not None else listed)
            if r.get('raced') == 'ok' and listed_before == 0 and act['gen'] is None and r['status'] == 'ok':
                # finding C04-F2: which of the loads came first is a matter of the scheduler; only the registry is compared
                self.histogram['(step compared by registry only: first commit racing with an action on an empty release)'] += 1
                if ms['status'] != 'ok' or listed != ms['ngens']:
                    self.diverge('generations after an action on an empty release raced with the first commit', {**case, 'step': i},
                                 listed, ms.get('ngens', ms.get('error')))
                    return
                continue
            if r['status'] == 'error' and act['kind'] == 'serve' and r.get('error') in self.PYFUNC_LIMITS and r.get('where') == 'build':
                self.histogram['(serve skipped: pyfunc cannot express the graph)'] += 1
                continue
            if (r['status'] == 'error' and act['kind'] != 'train' and r.get('error') == 'AssertionError'
                    and 'Not acyclic' in r.get('message', '')):
                # a segment that consists of the source worker alone has no linkage at all (Table.__iter__ asserts)
                self.histogram['(step skipped: nothing on this path, compiler asserts)'] += 1
                continue
            if r['status'] == 'crashed':
                # the process died inside its commit: only the registry can be compared
                ngens = len(r['generations']) if r.get('generations') is not None else None
                if ms['status'] != 'ok' or ngens != ms['ngens']:
                    self.diverge(f"generations listed after a training died at micro-step {r.get('done')} of its commit",
                                 {**case, 'step': i}, ngens, ms.get('ngens', ms.get('error')))
                    return
                continue
            if r['status'] != ms['status']:
                if ms['status'] == 'error':
                    # the implementation accepts what the model refuses: not the property's business, stop comparing
                    self.notes.append(f"model refuses step {i} ({ms['error']}) of {case} but the implementation runs it")
                    return
                self.diverge(f"{act['kind']} raised {r.get('error')} ({r.get('message', '')[:80]}) where the model succeeds", {**case, 'step': i},
                             r.get('error'), 'ok')
                return
            if r['status'] == 'error':
                continue
            impl_obs = impl_observations(st['events'])
            # (as sets: groups built from equal builders and fed alike are one dask task - C02's subject -, so the number
            # of times an identical observation is logged is not the model's business)
            if _unique(impl_obs) != _unique(ms['obs']):
                self.diverge(f"what the stateful actors receive in {act['kind']}", {**case, 'step': i}, impl_obs[:10], ms['obs'][:10])
                return
            ngens = len(r['generations']) if r.get('generations') is not None else None
            if ngens != ms['ngens']:
                self.diverge(f"number of generations after {act['kind']}", {**case, 'step': i}, ngens, ms['ngens'])
                return
            if ms.get('keys') is not None and r.get('generations') is not None and [g for g, _ in r['generations']] != ms['keys']:
                self.diverge(f"generations listed after {act['kind']}", {**case, 'step': i}, [g for g, _ in r['generations']], ms['keys'])
                return

    def _process(self, jobs: list) -> None:
        import time

        t0 = time.time()
        results = self._run(jobs)
        self.extra.setdefault('timing_s', {})['real_code'] = round(time.time() - t0, 1)
        slow = sorted(((r.get('wall', 0), j['isolation'], j['shape']) for j, r in zip(jobs, results)), reverse=True)[:3]
        self.extra['timing_s']['slowest_cases'] = [[round(w, 1), iso, shp[:60]] for w, iso, shp in slow]
        lines, idx = [], []
        for k, (job, res) in enumerate(zip(jobs, results)):
            if 'machinery' not in res and res.get('extract'):
                lines.append(self._model_line(job, res['extract'], res['steps']))
                idx.append(k)
                expr = model_expr(job['ast'])
                if expr is not None:
                    lines.append(self._model_line(job, res['extract'], res['steps'], expr=expr))
                    idx.append(('expr', k))
        answers = dict(zip(idx, self.model(lines))) if lines else {}
        for k, (job, res) in enumerate(zip(jobs, results)):
            model = self._model_steps(answers[k]) if k in answers else None
            if k in answers and model is None:
                raise fw.MachineryError(f'model driver rejected the case: {answers[k][:200]}')
            if ('expr', k) in answers and model is not None:
                own = self._model_steps(answers[('expr', k)], occurrences=False)
                if own is None:
                    raise fw.MachineryError(f"model driver rejected the expression: {answers[('expr', k)][:200]}")
                self._compare_expansion(job, model, own)
            if model is not None:
                self.extra.setdefault('model_wf', collections.Counter())[
                    f"wfPlain={model['wf'][0]} wfPerf={model['wf'][1]} tailClean={model['tail_clean']}"] += 1
            self._judge(job, res, model)

    def _compare_expansion(self, job: dict, extracted: dict, own: dict) -> None:
        """The composition the model expands itself from the expression (`compOf`) against the graph extracted from the
        real expansion: persistent occurrences position by position, well-formedness, and every action of the history."""
        self.extra.setdefault('model_expansion_vs_extraction', collections.Counter())
        case = {'ast': job['ast'], 'sink': bool(job.get('sink')), 'history': job['history'], 'isolation': job['isolation'],
                'handles': job.get('handles')}
        for what, a, b in (('persistent occurrences', extracted['ptags'], own['ptags']),
                           ('wfPlain', extracted['wf'][0], own['wf'][0]),
                           ('tailClean', extracted['tail_clean'], own['tail_clean']),
                           ('actions', extracted['steps'], own['steps'])):
            if a != b:
                self.extra['model_expansion_vs_extraction']['differ'] += 1
                self.diverge(f'{what}: the composition the model expands from the expression differs from the one extracted '
                             'from the real expansion', case, a if what != 'actions' else 'extracted', b if what != 'actions' else 'compOf')
                return
        self.extra['model_expansion_vs_extraction']['agree'] += 1

    def _params_tie(self) -> None:
        """`SetState.set` on real actors of every flavour against `presetActor` of the model: an actor built by the
        current code (hyper-parameter `cur`) is preset with the state a training-time actor (hyper-parameter `was`)
        produced - through the real `Functor.preset_state()`."""
        cases = [(fl, cur, was, empty) for fl in range(3) for cur, was in ((5, 3), (0, 7), (4, 4)) for empty in (False, True)]
        try:
            real = _forked(_preset_real, cases)
        except (RuntimeError, Died) as err:
            self.diverge('presetting an actor with a state raises: ' + str(err)[:200], {'params': 'preset'}, str(err)[:200], 'presets')
            return
        names = ['default', 'own-codec', 'dict-codec']
        lines = [sexp.dumps(['params', names[fl], cur, NONE if empty else [1, 0, was, NONE]]) for fl, cur, was, empty in cases]
        for (fl, cur, was, empty), got, answer in zip(cases, real, self.model(lines)):
            m = sexp.num(sexp.loads(answer))
            want = {'hp': m[1], 'origin': NONE if m[2] == NONE else m[2]}
            have = {'hp': got['hp'], 'origin': _origin(got['origin'])}
            case = {'flavour': names[fl], 'current_hp': cur, 'training_hp': was, 'empty_state': empty}
            self.case(('params', fl, cur, was, empty), f'preset {names[fl]}', nontrivial=not empty, sample=dict(case, real=have))
            if got['hp'] != cur:  # the property itself: the hyper-parameters of the current code
                self.violate(f"an actor ({names[fl]} state handling) built with hyper-parameter {cur} and preset with a state "
                             f"trained under hyper-parameter {was} runs with hyper-parameter {got['hp']}",
                             dict(case, kind='preset'), 'preset:stale-hyperparameter')
            elif have != want:
                self.diverge('what SetState.set leaves in the actor', case, have, want)

    def _exhaustive_jobs(self) -> list:
        """DESIGN section 5 (thorough): every pipeline of <= 3 leaves over {stateful mapper, stateless mapper, stateful
        apply-only, stateful train-only, stateful label operator, 2-branch MapReduce} x every parenthesisation, with
        histories that touch every mode after one and after two trainings."""
        from props import pipegen

        alphabet = [_M(0, True), _M(0, False), ['wrap', NONE, [0, True], NONE], ['wrap', NONE, NONE, [0, True]],
                    ['wrap', [0, True], NONE, NONE], ['mapreduce', [[0, True], [0, True]], 0]]
        jobs = []
        k = 0
        for n in (1, 2, 3):
            for ast in pipegen.enumerate_exprs(n, alphabet):
                if not any(leaf_stateful(ast)):
                    continue
                hist = _parse_history(CORPUS_HISTORIES[k % len(CORPUS_HISTORIES)])
                jobs.append({'ast': ast, 'sink': k % 3 == 0, 'history': hist, 'isolation': 'inprocess' if k % 2 else 'fork',
                             'shape': shape(ast)})
                k += 1
        return jobs

    def correspondence(self):
        try:
            self._setup()
        except (RuntimeError, Died) as err:  # project.Package.create is code under test, too
            self.diverge('the project package of the test project cannot be built: ' + str(err)[:200], {'setup': 'package'},
                         str(err)[:200], 'builds')
            return
        self._params_tie()
        jobs = self._jobs()
        if not self.quick:
            jobs += self._exhaustive_jobs()
        self._process(jobs)
        for k in ('action_outcomes', 'model_wf', 'perftrack_composition_vs_model', 'perftrack_composition_vs_spec',
                  'traversal_copy_faithful', 'model_expansion_vs_extraction'):
            if k in self.extra:
                self.extra[k] = dict(self.extra[k])
        # minimise one witness per root cause (the others carry the same signature and are folded by the framework)
        seen: set = set(self._listed_signatures())  # violations of listed findings are folded by the framework as they are
        for idx, v in enumerate(self.violations):
            if v.signature in seen or len(seen) >= 5 or 'history' not in v.witness:
                continue
            seen.add(v.signature)
            small = self._shrink(v.witness, v.signature)
            if small != v.witness:
                self.violations[idx] = fw.Violation(v.what.replace(f"step {v.witness['step']}:", f"step {small['step']}:"),
                                                    small, v.signature, v.detail)

    @staticmethod
    def _listed_signatures() -> list:
        path = os.path.join(os.path.dirname(os.path.abspath(__file__)), '..', '..', 'findings.d', 'C04.json')
        try:
            with open(path) as f:
                return [e['signature'] for e in json.load(f) if e.get('status') == 'finding']
        except (OSError, ValueError, KeyError):
            return []

    # ---- search / replay -----------------------------------------------------------------------
    def search(self, reason):
        """Widen around the diverging cases: same expression under every isolation, longer histories touching every
        mode after one and after two trainings; the oracle on the real code decides."""
        seeds = []
        for d in self.divergences[:12]:
            if isinstance(d.case, dict) and 'ast' in d.case:
                seeds.append((d.case['ast'], bool(d.case.get('sink'))))
        if not seeds:
            seeds = [(retag(a), snk) for a, snk in CORPUS_ASTS[:8]]
        jobs = []
        for ast, snk in seeds:
            for iso in ('inprocess', 'fork'):
                for hist in CORPUS_HISTORIES:
                    jobs.append({'ast': ast, 'sink': snk, 'history': _parse_history(hist), 'isolation': iso, 'shape': shape(ast)})
            for hist in HANDLE_HISTORIES:
                jobs.append({'ast': ast, 'sink': True, 'history': _parse_history(hist), 'isolation': 'handles', 'shape': shape(ast),
                             'handles': {'a': {'level': 'instance', 'gen': None}, 'b': {'level': 'runner', 'gen': None}}})
        before = len(self.violations)
        try:
            results = self._run(jobs)
        except (RuntimeError, Died) as err:
            self.notes.append(f'failing-input search ({reason}): the test project cannot be set up ({str(err)[:120]})')
            return
        for job, res in zip(jobs, results):
            if 'machinery' in res:
                continue
            case = {'ast': job['ast'], 'history': job['history'], 'isolation': job['isolation'], 'handles': job.get('handles'),
                    **_facts(res)}
            for i, what, sig in spec_violations(case, res.get('steps') or []):
                self.violate(what, {'ast': job['ast'], 'sink': job['sink'], 'history': job['history'][: i + 1],
                                    'isolation': job['isolation'], 'handles': job.get('handles'), 'step': i}, sig)
        self.notes.append(f'failing-input search ({reason}): {len(jobs)} histories around {len(seeds)} expressions, '
                          f'{len(self.violations) - before} violations of the property found on the real code')

    def _shrink(self, witness: dict, signature: str) -> dict:
        """Smaller witness with the same signature: drop actions that are not needed, then try sub-expressions."""
        def fails(w):
            res = _run_case_safe({'ast': w['ast'], 'sink': w.get('sink'), 'history': w['history'], 'isolation': w['isolation'],
                                  'handles': w.get('handles'), 'package': self._package})
            if 'machinery' in res:
                return False
            case = dict(w, **_facts(res))
            return any(sig == signature and i == len(w['history']) - 1 for i, _, sig in spec_violations(case, res['steps']))

        self._setup()
        best = dict(witness)
        changed = True
        while changed:
            changed = False
            for k in range(len(best['history']) - 1):
                cand = dict(best, history=best['history'][:k] + best['history'][k + 1:])
                cand['step'] = len(cand['history']) - 1
                if fails(cand):
                    best, changed = cand, True
                    break
            if changed:
                continue
            for sub in _subexpressions(best['ast']):
                cand = dict(best, ast=sub)
                if fails(cand):
                    best, changed = cand, True
                    break
        return best

    def replay_finding(self, entry):
        w = entry['witness']
        if w.get('kind') == 'preset':
            names = ['default', 'own-codec', 'dict-codec']
            try:
                (got,) = _forked(_preset_real, [(names.index(w['flavour']), w['current_hp'], w['training_hp'], w['empty_state'])])
            except (RuntimeError, Died) as err:
                return fw.Violation('presetting an actor with a state raises: ' + str(err)[:200], w, 'preset:raises')
            if got['hp'] != w['current_hp']:
                return fw.Violation(f"the actor runs with hyper-parameter {got['hp']} instead of {w['current_hp']}", w,
                                    'preset:stale-hyperparameter')
            return None
        try:
            self._setup()
        except (RuntimeError, Died) as err:
            self.notes.append(f"replay of {entry.get('id')}: the test project cannot be set up ({str(err)[:120]})")
            return None
        res = _run_case_safe({'ast': w['ast'], 'sink': w.get('sink'), 'history': w['history'],
                              'isolation': w.get('isolation', 'fork'), 'handles': w.get('handles'), 'package': self._package})
        if 'machinery' in res:
            raise fw.MachineryError(res['machinery'])
        case = dict(w, **_facts(res))
        for i, what, sig in spec_violations(case, res.get('steps') or []):
            return fw.Violation(what, w, sig, {'events': impl_observations(res['steps'][i]['events'])[:12]})
        return None


def model_expr(ast):
    """The expression in the grammar of lean/ForML/Model/PersistExpr.lean (wrap operators builder by builder, `>>`,
    two-branch fan-out), or None when the pipeline uses an operator the model does not expand itself."""
    k = ast[0]
    if k == 'wrap':
        lab, app, trn = ast[1], ast[2], ast[3]
        if lab != NONE and list(lab) in [list(x) for x in (app, trn) if x != NONE]:
            return None  # one builder shared between the label slot and another one: not modelled
        steps = []
        if lab != NONE:
            steps.append(['l', int(lab[0]), bool(lab[1])])
        if app != NONE and trn != NONE and list(app) == list(trn):
            steps.append(['m', int(app[0]), bool(app[1])])  # wrap.Operator.mapper: one builder for apply and train
        else:
            if app != NONE:
                steps.append(['a', int(app[0]), bool(app[1])])
            if trn != NONE:
                steps.append(['t', int(trn[0]), bool(trn[1])])
        if not steps:
            return None
        out = steps[0]
        for step in steps[1:]:
            out = ['seq', out, step]  # wrap.Operator.compose goes through its builders in this order
        return out
    if k == 'seq':
        a, b = model_expr(ast[1]), model_expr(ast[2])
        return None if a is None or b is None else ['seq', a, b]
    if k == 'par' and len(ast[1]) == 2:
        a, b = model_expr(ast[1][0]), model_expr(ast[1][1])
        return None if a is None or b is None else ['par', a, b, int(ast[2])]
    if k == 'mapreduce' and len(ast[1]) == 2:
        # payload.MapReduce(m1, m2, reducer=r): two mappers side by side on the same input, merged by the reducer
        return ['par', ['m', int(ast[1][0][0]), bool(ast[1][0][1])], ['m', int(ast[1][1][0]), bool(ast[1][1][1])], int(ast[2])]
    return None


def leaf_stateful(ast):
    """stateful flags of all actors of an expression"""
    k = ast[0]
    if k == 'seq':
        return leaf_stateful(ast[1]) + leaf_stateful(ast[2])
    if k == 'wrap':
        return [bool(a[1]) for a in ast[1:4] if a != NONE]
    if k == 'mapreduce':
        return [bool(a[1]) for a in ast[1]]
    if k == 'debug':
        return [bool(ast[1][1]), bool(ast[2][1])]
    if k == 'stack':
        return [True] + [f for b in ast[1] for f in leaf_stateful(b)]
    if k == 'par':
        return [f for b in ast[1] for f in leaf_stateful(b)]
    if k in ('passes', 'mapreduce1'):
        return [bool(ast[1][1])] * int(ast[2])
    if k == 'par1':
        return leaf_stateful(ast[1]) * int(ast[2])
    return []


def _subexpressions(ast):
    """Strictly smaller expressions: one side of a `seq`, one branch of a `par`, recursively."""
    if ast[0] == 'par':
        for b in ast[1]:
            yield b
        if len(ast[1]) > 2:
            for i in range(len(ast[1])):
                yield ['par', ast[1][:i] + ast[1][i + 1:], ast[2]]
        for i, b in enumerate(ast[1]):
            for sub in _subexpressions(b):
                yield ['par', ast[1][:i] + [sub] + ast[1][i + 1:], ast[2]]
        return
    if ast[0] != 'seq':
        return
    yield ast[1]
    yield ast[2]
    for sub in _subexpressions(ast[1]):
        yield ['seq', sub, ast[2]]
    for sub in _subexpressions(ast[2]):
        yield ['seq', ast[1], sub]


if __name__ == '__main__' and len(sys.argv) > 1 and sys.argv[1] == '--action':
    raise SystemExit(action_main())
