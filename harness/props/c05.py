"""C05 — registry history is append-only, gap-free and crash-consistent.

Real code: forml.provider.registry.filesystem.{posix,volatile} driven through asset.Directory / asset.State.
Model:     lean/ForML/Model/{Fs,Registry}.lean via drv_c05.

(a) trace correspondence: the os / io / shutil entry points the registry reaches are wrapped, the micro-operations of
    every registry call (write / close / push) are recorded and compared with the model's list for the same call;
(b) crash correspondence: every step of every history is re-run from a snapshot of the tree before it and aborted
    (BaseException) after k completed micro-operations resp. half-way through a write; a fresh
    asset.Directory(posix.Registry(root)) with cleared caches lists and reads everything; that view is compared
    with the model's reader on the crashed model tree;
oracle (independent of the model, on the real views only): append-only / gap-free / monotonic between consecutive
    views, crashed view = previous or complete new view and nothing listed is unreadable.
"""
from __future__ import annotations

import atexit
import builtins
import datetime
import io
import itertools
import multiprocessing
import os
import pathlib
import shutil
import tempfile
import uuid

from core import framework as fw
from core import sexp

NAMES = ['pa', 'pb', 'pc']
VERSIONS = ['0.1.dev1', '0.1', '0.9', '0.10', '1.0rc1', '1.0', '1.0.post1', '2']  # ascending PEP 440, canonical text
MEMBERS = ['__4ml__.py', 'foo.py', 'bar.py']  # member index of a directory package = position here
_BASE = tempfile.mkdtemp(prefix='verif-c05-')
atexit.register(shutil.rmtree, _BASE, ignore_errors=True)
_COUNTER = itertools.count()


class Crash(BaseException):
    """The simulated process death (BaseException: no `except Exception` of the code under test swallows it)."""


# ---------------------------------------------------------------------------------------------------------------
# file-system recorder / crash injector
# ---------------------------------------------------------------------------------------------------------------
class Recorder:
    """Wraps os.mkdir / os.rename / os.replace / os.unlink / os.remove / os.rmdir / io.open / builtins.open /
    shutil.copyfile for paths below `root`; records every *successful* mutating micro-operation; dies after
    `crash_at` completed ones (inside the next write with `cut` when that is given)."""

    def __init__(self, root: str, crash_at=None, cut: bool = False):
        self.root = os.path.realpath(root)
        self.calls: list = []  # [(method, [op, ...])]
        self.done = 0
        self.crash_at = crash_at
        self.cut = cut
        self.dead = False
        self._nested = 0
        self._saved = {}

    # -- bookkeeping
    def _mine(self, path) -> bool:
        try:
            p = os.path.abspath(os.fspath(path))
        except TypeError:
            return False
        return p == self.root or p.startswith(self.root + os.sep)

    def _rel(self, path) -> tuple:
        p = os.path.abspath(os.fspath(path))
        return tuple(pathlib.PurePath(os.path.relpath(p, self.root)).parts)

    def begin(self, method: str):
        self.calls.append((method, []))

    def _record(self, op):
        if not self.calls:
            self.calls.append(('?', []))
        self.calls[-1][1].append(op)
        self.done += 1

    def _gate(self, partial_ok: bool = False) -> bool:
        """Called before every mutating micro-op. Returns True when the op must be performed partially and then die."""
        if self.dead:
            raise Crash()
        if self.crash_at is not None and self.done == self.crash_at:
            if self.cut and partial_ok:
                return True
            self.dead = True
            raise Crash()
        return False

    def _die(self):
        self.dead = True
        raise Crash()

    # -- wrappers
    def _mkdir(self, path, *a, **k):
        if not self._mine(path) or self._nested:
            return self._saved['mkdir'](path, *a, **k)
        self._gate()
        r = self._saved['mkdir'](path, *a, **k)  # FileExistsError / FileNotFoundError propagate unrecorded
        self._record(('mkdir', self._rel(path)))
        return r

    def _rename(self, src, dst, *a, **k):
        if not (self._mine(src) or self._mine(dst)) or self._nested:
            return self._saved['rename'](src, dst, *a, **k)
        self._gate()
        r = self._saved['rename'](src, dst, *a, **k)
        self._record(('rename', self._rel(src), self._rel(dst)))
        return r

    def _remove(self, which):
        def wrapper(path, *a, **k):
            if not self._mine(path) or self._nested:
                return self._saved[which](path, *a, **k)
            self._gate()
            r = self._saved[which](path, *a, **k)
            self._record(('remove', self._rel(path)))
            return r

        return wrapper

    def _open(self, file, mode='r', *a, **k):
        if self._nested or not isinstance(mode, str) or not any(c in mode for c in 'wax+') \
                or isinstance(file, int) or not self._mine(file):
            return self._saved['open'](file, mode, *a, **k)
        self._gate()
        existed = os.path.exists(file)
        raw = self._saved['open'](file, mode, *a, **k)
        if 'w' in mode or not existed:
            self._record(('create', self._rel(file)))
        return _Proxy(self, raw, self._rel(file))

    def _copyfile(self, src, dst, *a, **k):
        if self._nested or not self._mine(dst):
            return self._saved['copyfile'](src, dst, *a, **k)
        self._gate()
        self._nested += 1
        try:
            with self._saved['open'](src, 'rb') as f:
                data = f.read()
            self._saved['open'](dst, 'wb').close()
        finally:
            self._nested -= 1
        self._record(('create', self._rel(dst)))
        part = self._gate(partial_ok=len(data) >= 2)
        self._nested += 1
        try:
            with self._saved['open'](dst, 'wb') as f:
                f.write(data[: len(data) // 2] if part else data)
        finally:
            self._nested -= 1
        if part:
            self._die()
        self._record(('append', self._rel(dst), bytes(data)))
        return dst

    def __enter__(self):
        self._saved = {'mkdir': os.mkdir, 'rename': os.rename, 'replace': os.replace, 'unlink': os.unlink,
                       'remove': os.remove, 'rmdir': os.rmdir, 'open': io.open, 'bopen': builtins.open,
                       'copyfile': shutil.copyfile}
        os.mkdir = self._mkdir
        os.rename = self._rename
        os.replace = lambda s, d, *a, **k: self._rename(s, d, *a, **k)
        os.unlink = self._remove('unlink')
        os.remove = self._remove('remove')
        os.rmdir = self._remove('rmdir')
        io.open = self._open
        builtins.open = self._open
        shutil.copyfile = self._copyfile
        return self

    def __exit__(self, *exc):
        os.mkdir = self._saved['mkdir']
        os.rename = self._saved['rename']
        os.replace = self._saved['replace']
        os.unlink = self._saved['unlink']
        os.remove = self._saved['remove']
        os.rmdir = self._saved['rmdir']
        io.open = self._saved['open']
        builtins.open = self._saved['bopen']
        shutil.copyfile = self._saved['copyfile']
        return False


class _Proxy:
    """A writable file whose every `write` is one recorded `append` (flushed), possibly cut short by the crash."""

    def __init__(self, rec: Recorder, raw, rel):
        self._rec, self._raw, self._relp = rec, raw, rel

    def write(self, data):
        blob = data.encode() if isinstance(data, str) else bytes(data)
        part = self._rec._gate(partial_ok=len(blob) >= 2)
        if part:
            self._raw.write(data[: len(data) // 2])
            self._raw.flush()
            self._rec._die()
        n = self._raw.write(data)
        self._raw.flush()
        self._rec._record(('append', self._relp, blob))
        return n

    def __enter__(self):
        return self

    def __exit__(self, *exc):
        self._raw.close()
        return False

    def __getattr__(self, item):
        return getattr(self._raw, item)


# ---------------------------------------------------------------------------------------------------------------
# real code adapter
# ---------------------------------------------------------------------------------------------------------------
_PACKAGES: dict = {}


def _package(name: str, vidx: int, kind: str):
    """(prj.Package, model pkg) of project `name`, version VERSIONS[vidx]; 'file' = .4ml zip, 'dir' = source tree."""
    from forml import project as prj

    key = (name, vidx, kind)
    if key not in _PACKAGES:
        base = pathlib.Path(_BASE) / 'pkg' / f'{name}-{vidx}-{kind}'
        src = base / 'src'
        src.mkdir(parents=True)
        manifest = prj.Manifest(name, VERSIONS[vidx], 'foo')
        (src / 'foo.py').write_text(f'X = {vidx}\n')
        if kind == 'file':
            package = prj.Package.create(src, manifest, base / f'{name}.4ml')
            model = ['file', list(package.path.read_bytes())]
        else:
            manifest.write(src)
            if vidx % 2:
                (src / 'bar.py').write_text('Y = 1\n')
            package = prj.Package(src)
            order = [e.name for e in os.scandir(src) if e.name != '__pycache__']  # the order copytree will use
            model = ['dir', [[MEMBERS.index(n), list((src / n).read_bytes())] for n in order]]
        _PACKAGES[key] = (package, model)
    return _PACKAGES[key]


def _clear_caches():
    from forml.io.asset._directory.level import major, minor

    minor.TAGS.clear()
    minor.STATES.clear()
    major.ARTIFACTS.clear()


def _err(exc: BaseException) -> str:
    import forml
    from forml.io import asset

    if isinstance(exc, asset.Level.Invalid):
        return 'invalid'
    if isinstance(exc, forml.InvalidError):
        return 'mismatch'
    if isinstance(exc, OSError):
        return 'os'
    return type(exc).__name__


class _Uuids:
    """uuid.uuid4 replaced by a counter: the state id *is* its first-occurrence index."""

    def __init__(self, start: int):
        self.next = start

    def __call__(self):
        self.next += 1
        return uuid.UUID(int=self.next - 1)


def _canon_path(parts: tuple) -> list:
    out = []
    for depth, name in enumerate(parts):
        seg = ['other', name]
        if depth == 0 and name in NAMES:
            seg = ['proj', NAMES.index(name)]
        elif depth == 1 and name in VERSIONS:
            seg = ['rel', VERSIONS.index(name)]
        elif depth == 2:
            if name == '.stage':
                seg = 'stage'
            elif name == 'package.4ml':
                seg = 'pkg'
            elif name.isdigit():
                seg = ['gen', int(name)]
        elif depth == 3:
            if name == 'tag.toml':
                seg = 'tag'
            elif name.endswith('.bin'):
                try:
                    seg = ['state', uuid.UUID(name[:-4]).int]
                except ValueError:
                    pass
            elif name in MEMBERS:
                seg = ['member', MEMBERS.index(name)]
        out.append(seg)
    return out


def _canon_calls(calls) -> list:
    """[(method, ops)] -> [[op, ...], ...] with canonical paths; a temporary sibling that is later renamed onto the
    package / the tag is called pkgtmp / tagtmp whatever its real name is."""
    from forml.io import asset

    alias = {}
    for _, ops in calls:
        for op in ops:
            if op[0] == 'rename':
                src, dst = _canon_path(op[1]), _canon_path(op[2])
                if src and isinstance(src[-1], list) and src[-1][0] == 'other' and dst and dst[-1] in ('pkg', 'tag'):
                    alias[(len(src) - 1, src[-1][1])] = dst[-1] + 'tmp'

    def canon(parts):
        path = _canon_path(parts)
        for i, seg in enumerate(path):
            if isinstance(seg, list) and seg[0] == 'other' and (i, seg[1]) in alias:
                path[i] = alias[(i, seg[1])]
        return path

    out = []
    for _, ops in calls:
        lst = []
        for op in ops:
            if op[0] == 'append':
                path = canon(op[1])
                if path[-1] in ('tag', 'tagtmp'):
                    try:
                        tag = asset.Tag.loads(op[2])
                        payload = ['tag', tag.training.ordinal, [s.int for s in tag.states]]
                    except Exception:  # pylint: disable=broad-except
                        payload = ['tag', 'unparsable']
                else:
                    payload = list(op[2])
                lst.append(['append', path, payload])
            elif op[0] == 'rename':
                lst.append(['rename', canon(op[1]), canon(op[2])])
            else:
                lst.append([op[0], canon(op[1])])
        out.append(lst)
    return out


def _do_step(root: str, step: list, sid0: int, crash_at=None, cut=False):
    """One history step on the real code in the tree `root`. Returns (outcome, calls, next sid, crashed?)."""
    from forml.io import asset
    from forml.provider.registry.filesystem import posix

    _clear_caches()
    registry = posix.Registry(root)
    directory = asset.Directory(registry)
    rec = Recorder(root, crash_at, cut)
    uuids = _Uuids(sid0)
    saved_uuid4 = uuid.uuid4
    saved = {m: getattr(posix.Registry, m) for m in ('write', 'close', 'push')}

    def wrap(method):
        orig = saved[method]

        def wrapper(self, *a, **k):
            rec.begin(method)
            return orig(self, *a, **k)

        return wrapper

    outcome, crashed = 'ok', False
    try:
        for m in saved:
            setattr(posix.Registry, m, wrap(m))
        uuid.uuid4 = uuids
        with rec:
            try:
                if step[0] == 'publish':
                    _, dproj, name, vidx, kind = step
                    package, _ = _package(NAMES[name], vidx, kind)
                    directory.get(NAMES[dproj]).put(package)
                else:
                    _, proj, vidx, ordinal, states = step
                    generation = directory.get(NAMES[proj]).get(VERSIONS[vidx]).get(None)
                    stamp = datetime.datetime(2020, 1, 1) + datetime.timedelta(seconds=ordinal)
                    tag = asset.Tag(training=asset.Tag.Training(stamp, ordinal))
                    accessor = asset.State(generation, [uuid.UUID(int=10**6 + i) for i in range(len(states))], tag)
                    sids = [accessor.dump(bytes(s)) for s in states]
                    accessor.commit(sids)
            except Crash:
                crashed = True
            except Exception as exc:  # pylint: disable=broad-except
                outcome = _err(exc)
    finally:
        for m, f in saved.items():
            setattr(posix.Registry, m, f)
        uuid.uuid4 = saved_uuid4
    return outcome, rec.calls, uuids.next, crashed


def _read_view(root: str) -> list:
    """What a fresh reader sees: sorted facts
    ['rel', p, v, node, pull-status] ['member', p, v, i, node] ['gen', p, v, g, tag] ['state', p, v, g, sid, node]."""
    from forml.io import asset
    from forml.provider.registry.filesystem import posix

    _clear_caches()
    registry = posix.Registry(root)
    directory = asset.Directory(registry)
    facts = []
    for pkey in directory.list():
        project = directory.get(pkey)
        p = NAMES.index(pkey) if pkey in NAMES else str(pkey)
        for rkey in project.list():
            release = project.get(rkey)
            v = VERSIONS.index(str(rkey)) if str(rkey) in VERSIONS else str(rkey)
            try:
                package = registry.pull(pkey, rkey)
                status = 'ok' if (package.manifest.name == pkey and str(package.manifest.version) == str(rkey)) \
                    else 'wrong-manifest'
            except Exception as exc:  # pylint: disable=broad-except
                status = 'unreadable:' + type(exc).__name__
            path = pathlib.Path(root) / str(pkey) / str(rkey) / 'package.4ml'
            if path.is_dir():
                facts.append(['rel', p, v, 'dir', status])
                for item in sorted(path.iterdir()):
                    idx = MEMBERS.index(item.name) if item.name in MEMBERS else item.name
                    facts.append(['member', p, v, idx, ['file', list(item.read_bytes())] if item.is_file() else 'dir'])
            else:
                facts.append(['rel', p, v, ['file', list(path.read_bytes())], status])
            for gkey in release.list():
                generation = release.get(gkey)
                try:
                    tag = generation.tag
                    sids = list(tag.states)
                    facts.append(['gen', p, v, int(gkey), ['ok', tag.training.ordinal, [s.int for s in sids]]])
                except Exception:  # pylint: disable=broad-except
                    facts.append(['gen', p, v, int(gkey), 'corrupt'])
                    continue
                for sid in sids:
                    try:
                        blob = generation.get(sid)
                        node = ['file', list(blob)] if blob else 'missing'
                    except Exception as exc:  # pylint: disable=broad-except
                        node = 'unreadable:' + type(exc).__name__
                    facts.append(['state', p, v, int(gkey), sid.int, node])
    return sorted(facts, key=repr)


def _fresh_root() -> str:
    path = os.path.join(_BASE, 'run', f'{os.getpid()}-{next(_COUNTER)}')
    os.makedirs(path)
    return path


def _atoms(calls) -> list:
    return [op for _, ops in calls for op in ops]


def run_history(history: list, crash_points: bool = True, only=None) -> dict:
    """Base run (trace + view after every step) and, from the snapshot before each step, every crash point of it.
    `only` = (i, k, cut) restricts to one crash point (replay)."""
    root = _fresh_root()
    os.makedirs(os.path.join(root, 'live'))
    live = os.path.join(root, 'live')
    views = [_read_view(live)]
    outcomes, traces, crashes, sid_start = [], [], [], []
    sid = 0
    for i, step in enumerate(history):
        snap = os.path.join(root, f'snap{i}')
        shutil.copytree(live, snap)
        outcome, calls, nsid, _ = _do_step(live, step, sid)
        outcomes.append(outcome)
        sid_start.append(sid)
        canon = _canon_calls(calls)
        traces.append(canon)
        views.append(_read_view(live))
        atoms = _atoms(calls)
        points = []
        if crash_points:
            for k, op in enumerate(atoms):
                points.append((k, False))
                if op[0] == 'append' and len(op[2]) >= 2:
                    points.append((k, True))
        for k, cut in points:
            if only is not None and (i, k, cut) != tuple(only):
                continue
            scratch = os.path.join(root, f'crash{i}-{k}-{int(cut)}')
            shutil.copytree(snap, scratch)
            _, ccalls, _, crashed = _do_step(scratch, step, sid, crash_at=k, cut=cut)
            catoms = _atoms(ccalls)
            cutlen = None
            if cut:
                flat = [op for call in canon for op in call]
                path, payload = flat[k][1], flat[k][2]
                cutlen = 1 if path[-1] in ('tag', 'tagtmp') else len(payload) // 2
            crashes.append({'i': i, 'k': k, 'cut': cut, 'model_cut': cutlen, 'crashed': crashed,
                            'completed': len(catoms), 'view': _read_view(scratch)})
            shutil.rmtree(scratch, ignore_errors=True)
        sid = nsid
    shutil.rmtree(root, ignore_errors=True)
    return {'history': history, 'outcomes': outcomes, 'traces': traces, 'views': views, 'crashes': crashes,
            'sid_start': sid_start}


def _worker(args):
    history, crash_points = args
    try:
        return run_history(history, crash_points)
    except Exception as exc:  # pylint: disable=broad-except
        import traceback

        return {'history': history, 'machinery': f'{type(exc).__name__}: {exc}\n{traceback.format_exc()}'}


# ---------------------------------------------------------------------------------------------------------------
# oracle (spec-shaped, real views only)
# ---------------------------------------------------------------------------------------------------------------
def _index(view):
    rels, members, gens, states = {}, {}, {}, {}
    for f in view:
        if f[0] == 'rel':
            rels[(f[1], f[2])] = (f[3], f[4])
        elif f[0] == 'member':
            members[(f[1], f[2], f[3])] = f[4]
        elif f[0] == 'gen':
            gens[(f[1], f[2], f[3])] = f[4]
        elif f[0] == 'state':
            states[(f[1], f[2], f[3], f[4])] = f[5]
    return rels, members, gens, states


def corrupt_items(view) -> list:
    """(what, signature) of every listed item whose metadata / package / states are missing or unreadable."""
    out = []
    for f in view:
        if f[0] == 'rel' and f[4] != 'ok':
            kind = 'tree' if f[3] == 'dir' else 'file'
            out.append((f'listed release {f[1]}/{f[2]} has an unreadable package ({f[4]})',
                        f'listed-release-unreadable-package-{kind}'))
        if f[0] == 'gen' and f[4] == 'corrupt':
            out.append((f'listed generation {f[1]}/{f[2]}/{f[3]} has an unreadable tag', 'listed-generation-unreadable-tag'))
        if f[0] == 'state' and not isinstance(f[5], list):
            out.append((f'listed generation {f[1]}/{f[2]}/{f[3]} misses state {f[4]} ({f[5]})',
                        'listed-generation-missing-state'))
    return out


def oracle_step(step, outcome, before, after) -> list:
    """Append-only / gap-free / monotonic between the views around one completed step. [(what, signature)]."""
    out = list(corrupt_items(after))
    missing = [f for f in before if f not in after]
    if missing:
        out.append((f'{missing[0][:4]} was visible before the step and is changed or gone after it', 'not-append-only'))
    new = [f for f in after if f not in before]
    rb, _, gb, _ = _index(before)
    ra, ma, ga, sa = _index(after)
    for (p, v) in {(k[0], k[1]) for k in ga}:
        nums = sorted(k[2] for k in ga if k[:2] == (p, v))
        if nums != list(range(1, len(nums) + 1)):
            out.append((f'generations of {p}/{v} are {nums}', 'generation-gap'))
    if outcome != 'ok':
        if new:
            out.append((f'step failed with {outcome} but {new[0][:4]} appeared', 'failed-step-changed-view'))
        return out
    if step[0] == 'publish':
        _, _, name, vidx, kind = step
        older = [v for (p, v) in rb if p == name]
        if any(not vidx > v for v in older):
            out.append((f'release {VERSIONS[vidx]} of {NAMES[name]} accepted although {[VERSIONS[v] for v in older]} exist',
                        'release-not-monotonic'))
        _, model = _package(NAMES[name], vidx, kind)
        if model[0] == 'file':
            want = [['rel', name, vidx, ['file', model[1]], 'ok']]
        else:
            want = [['rel', name, vidx, 'dir', 'ok']] + [['member', name, vidx, i, ['file', b]] for i, b in model[1]]
        if sorted(new, key=repr) != sorted(want, key=repr):
            out.append((f'publish of {NAMES[name]}-{VERSIONS[vidx]} added {[f[:4] for f in new]}', 'publish-wrong-content'))
    else:
        _, proj, vidx, ordinal, states = step
        old = sorted(k[2] for k in gb if k[:2] == (proj, vidx))
        number = (old[-1] + 1) if old else 1
        newgens = [f for f in new if f[0] == 'gen']
        if len(newgens) != 1 or newgens[0][1:4] != [proj, vidx, number]:
            out.append((f'training of {proj}/{vidx} (generations {old}) added {[f[1:4] for f in newgens]}',
                        'generation-numbering'))
        else:
            tag = newgens[0][4]
            got = [f[5] for f in new if f[0] == 'state']
            sids = tag[2] if isinstance(tag, list) else None
            order = [sa.get((proj, vidx, number, s)) for s in (sids or [])]
            if not isinstance(tag, list) or tag[1] != ordinal or len(sids) != len(states) \
                    or order != [['file', list(s)] for s in states] or len(got) != len(states):
                out.append((f'generation {proj}/{vidx}/{number} does not hold the run\'s states in order', 'generation-content'))
        if any(f[0] not in ('gen', 'state') for f in new):
            out.append(('training changed a release', 'training-changed-release'))
    return out


def oracle_crash(before, after, crashed_view) -> list:
    out = list(corrupt_items(crashed_view))
    if not out and crashed_view != before and crashed_view != after:
        diff = [f[:4] for f in crashed_view if f not in before and f not in after] \
            or [f[:4] for f in before if f not in crashed_view]
        out.append((f'crashed view is neither the previous nor the complete new one ({diff[:2]})', 'crash-neither-old-nor-new'))
    return out


def _strip(view):
    return [f[:4] if f[0] == 'rel' else f for f in view]


# ---------------------------------------------------------------------------------------------------------------
class C05(fw.Check):
    ID = 'C05'
    LEAN_MODULES = ['ForML.Props.C05']
    DRIVER = 'drv_c05'
    RULE = ('histories of publish(dirProject, name, version, file|tree package) / train(project, release, 0..3 states) '
            'over 3 project names x 8 PEP 440 versions: corpus, random (length 2..7, mostly valid: increasing versions, '
            'existing releases; a malformed share: lower/equal versions, unknown projects/releases, name mismatch), and in '
            'thorough every history of <= 4 steps over 2 projects x 2 releases. Every step is re-run from the snapshot before '
            'it with a process death after each completed micro-operation and half-way through each write. One case = one '
            '(history prefix, crash point); distinct by (history prefix, step index, k, cut); non-trivial when the step '
            'performs at least one micro-operation. Oracle on the real views: append-only, gap-free, monotonic, crashed view '
            '= previous or complete new view and nothing listed unreadable.')
    TRUSTED = [
        'POSIX semantics assumed by the model: rename atomic, a created directory entry is visible, write may stop after '
        'any prefix; process death only (no fsync in the code: power loss is not claimed)',
        'Tag.dumps / Tag.loads bytes are abstracted by a prefix-free code in the model (real TOML: C18); the half-way cut of '
        'the real tag write is at len/2',
        'package content is opaque bytes; "readable" on the real side = Registry.pull returns a package with the listed '
        'name and version',
        'crash injection = BaseException raised from wrapped os.mkdir/os.rename/os.replace/os.unlink/os.rmdir/io.open/'
        'file.write/shutil.copyfile (copystat and other metadata calls are not micro-operations of the model)',
    ]
    ASSUMPTIONS = ['single writer (histories, not interleavings)', 'uuid4 state ids are fresh',
                   'a crash ends the history (recovery after a crash is not part of the statement)']

    # ---- generation --------------------------------------------------------------------------------------------
    def _corpus(self):
        s1, s2 = [[1, 2, 3]], [[4], [5, 6]]
        return [
            [['publish', 0, 0, 1, 'file'], ['train', 0, 1, 1, s2], ['train', 0, 1, 2, s1]],
            [['publish', 0, 0, 1, 'dir'], ['train', 0, 1, 1, s1], ['publish', 0, 0, 3, 'dir'], ['train', 0, 3, 2, s2]],
            # two projects, two releases, three trainings (the non-vacuity history of Props/C05.lean)
            [['publish', 0, 0, 2, 'file'], ['publish', 1, 1, 1, 'file'], ['train', 0, 2, 1, s1],
             ['publish', 0, 0, 3, 'file'], ['train', 0, 3, 2, s2], ['train', 0, 2, 3, s1]],
            [['publish', 0, 0, 3, 'file'], ['publish', 0, 0, 2, 'file'], ['publish', 0, 0, 3, 'dir']],  # '0.10' > '0.9'
            [['train', 0, 1, 1, s1], ['publish', 0, 0, 1, 'file'], ['train', 0, 2, 1, s1], ['train', 1, 1, 1, s1]],
            [['publish', 0, 0, 1, 'file'], ['train', 0, 1, 1, []], ['train', 0, 1, 2, []]],
            [['publish', 0, 0, 4, 'file'], ['publish', 0, 1, 5, 'file']],  # name mismatch on a listed project
            [['publish', 0, 0, 3, 'file'], ['publish', 2, 0, 1, 'file']],  # older release through an unlisted project key
        ]

    def _random_history(self):
        rng = self.rng
        length = rng.randint(2, 7)
        known: dict = {}  # project -> versions published (believed)
        hist = []
        for _ in range(length):
            if not known or rng.random() < 0.35:
                name = rng.choice([0, 0, 1, 1, 2])
                have = known.get(name, [])
                if rng.random() < 0.8:
                    cand = [v for v in range(len(VERSIONS)) if not have or v > max(have)]
                    vidx = rng.choice(cand) if cand else rng.randrange(len(VERSIONS))
                else:
                    vidx = rng.randrange(len(VERSIONS))
                dproj = name if rng.random() < 0.93 else rng.choice([0, 1, 2])
                kind = rng.choice(['file', 'file', 'dir'])
                hist.append(['publish', dproj, name, vidx, kind])
                if dproj == name and (not have or vidx > max(have)):
                    known.setdefault(name, []).append(vidx)
            else:
                if rng.random() < 0.9:
                    proj = rng.choice(list(known))
                    vidx = rng.choice(known[proj])
                else:
                    proj, vidx = rng.choice([0, 1, 2]), rng.randrange(len(VERSIONS))
                nstates = rng.choice([0, 1, 1, 2, 2, 3])
                states = [[rng.randrange(256) for _ in range(rng.randint(1, 5))] for _ in range(nstates)]
                hist.append(['train', proj, vidx, len(hist) + 1, states])
        return hist

    def _exhaustive(self, maxlen: int):
        alphabet = [['publish', p, p, v, 'file'] for p in (0, 1) for v in (1, 2)] + \
                   [['train', p, v, 0, [[7, 8]]] for p in (0, 1) for v in (1, 2)]
        for n in range(1, maxlen + 1):
            for combo in itertools.product(alphabet, repeat=n):
                yield [list(s[:3]) + [i + 1] + [s[4]] if s[0] == 'train' else list(s) for i, s in enumerate(combo)]

    # ---- model side --------------------------------------------------------------------------------------------
    @staticmethod
    def _model_steps(history, sid_start):
        """state ids: the real code draws uuid4 (here: a counter) per dump it reaches; the model is given the same ids"""
        steps = []
        for s, sid in zip(history, sid_start):
            if s[0] == 'publish':
                steps.append(['publish', s[1], s[2], s[3], _package(NAMES[s[2]], s[3], s[4])[1]])
            else:
                steps.append(['train', s[1], s[2], s[3], [[sid + j, list(b)] for j, b in enumerate(s[4])]])
        return steps

    @staticmethod
    def _model_calls(outcome):
        """model outcome sexp -> (kind, [[op...]...]) with copy expanded and tag payloads decoded."""
        kind = 'ok' if outcome[0] == 'ok' else outcome[1]
        calls = []
        for call in outcome[-1]:
            ops = []
            for op in call:
                if op[0] == 'copy':
                    ops.append(['create', op[1]])
                    ops.append(['append', op[1], op[2]])
                elif op[0] == 'append' and op[1][-1] in ('tag', 'tagtmp'):
                    ops.append(['append', op[1], ['tag', op[2][1], op[2][2:]]])
                else:
                    ops.append(op)
            calls.append(ops)
        return kind, calls

    def _detect_impl(self) -> tuple:
        """Which of the two modelled variants of each mechanism the tree under test implements (the model follows the
        code that exists; a mixture that matches neither shows up as a divergence)."""
        res = run_history([['publish', 0, 0, 1, 'file'], ['train', 0, 1, 1, [[1, 2]]], ['publish', 2, 1, 1, 'file']],
                          crash_points=False)
        flat = [op for step in res['traces'] for call in step for op in call]
        staged = any(op[0] == 'rename' and op[2][-1] in ('tag', 'pkg') for op in flat)
        key_first = res['outcomes'][2] == 'mismatch'
        return staged, key_first

    def _compare(self, results, impl):
        """model vs real for a batch of base-run results (+ oracle on the real views)."""
        lines, index = [], []
        tag = sexp.dumps(['impl', bool(impl[0]), bool(impl[1])])
        for r in results:
            steps = self._model_steps(r['history'], r['sid_start'])
            enc = sexp.dumps(steps)
            lines.append(f'(run {tag} {enc} none)')
            index.append((r, 'full', None))
            for c in r['crashes']:
                cut = 'none' if not c['cut'] else str(c['model_cut'])
                lines.append(f'(run {tag} {enc} ({c["i"]} {c["k"]} {cut}))')
                index.append((r, 'crash', c))
        answers = self.model(lines)
        for (r, kind, c), ans in zip(index, answers):
            m = sexp.num(sexp.loads(ans))
            hist = r['history']
            if m == 'bad-op' or m[0] != 'ok':
                self.diverge('model rejected the request', {'history': hist}, None, m)
                continue
            mview = sorted(m[2], key=repr)
            if m[3] != 'true':
                self.diverge('model tree is not well formed (Fs.WF)', {'history': hist, 'crash': c and [c['i'], c['k'], c['cut']]},
                             None, m[3])
            if kind == 'full':
                for i, (mo, outcome, trace) in enumerate(zip(m[1], r['outcomes'], r['traces'])):
                    mkind, mcalls = self._model_calls(mo)
                    if mkind != outcome:
                        self.diverge('step outcome', {'history': hist, 'step': i}, outcome, mkind)
                    elif mcalls != trace:
                        self.diverge('micro-operation trace', {'history': hist, 'step': i}, trace, mcalls)
                if mview != sorted(_strip(r['views'][-1]), key=repr):
                    self.diverge('reader view after the history', {'history': hist}, _strip(r['views'][-1]), mview)
            else:
                if mview != sorted(_strip(c['view']), key=repr):
                    self.diverge('reader view after a crash', {'history': hist, 'crash': [c['i'], c['k'], c['cut']]},
                                 _strip(c['view']), mview)

    def _judge(self, r):
        """oracle on one base-run result; accounts the cases."""
        hist = r['history']
        for i, step in enumerate(hist):
            before, after = r['views'][i], r['views'][i + 1]
            natoms = sum(len(c) for c in r['traces'][i])
            shape = f'{step[0]}' + (f'-{step[4]}' if step[0] == 'publish' else f'-{len(step[4])}st') + f' -> {r["outcomes"][i]}'
            self.case(('step', repr(hist[: i + 1])), shape, nontrivial=natoms > 0,
                      sample={'history': hist[: i + 1], 'outcome': r['outcomes'][i], 'micro_ops': natoms})
            for what, sig in oracle_step(step, r['outcomes'][i], before, after):
                self.violate(what, {'history': hist[: i + 1], 'crash': None}, sig)
        for c in r['crashes']:
            i = c['i']
            self.case(('crash', repr(hist[: i + 1]), c['k'], c['cut']),
                      f'crash in {hist[i][0]} ' + ('inside a write' if c['cut'] else 'between operations'), nontrivial=True)
            if not c['crashed']:
                self.diverge('crash point not reached', {'history': hist, 'crash': [i, c['k'], c['cut']]}, c['completed'], None)
            for what, sig in oracle_crash(r['views'][i], r['views'][i + 1], c['view']):
                op = r['traces'][i]
                flat = [o for call in op for o in call]
                at = flat[c['k']] if c['k'] < len(flat) else None
                self.violate(f'process death in {hist[i][0]} after {c["k"]} micro-operations'
                             + (' (half-way through the write)' if c['cut'] else '') + f': {what}',
                             {'history': hist[: i + 1], 'crash': [i, c['k'], c['cut']]}, sig,
                             {'next_operation': at})

    def _run_batch(self, histories, pool):
        jobs = [(h, True) for h in histories]
        results = list(pool.imap(_worker, jobs, chunksize=4)) if pool else [_worker(j) for j in jobs]
        for r in results:
            if 'machinery' in r:
                raise fw.MachineryError(f'harness failed on {r["history"]}: {r["machinery"]}')
        return results

    # ---- volatile registry: append-only part -----------------------------------------------------------------
    def _volatile(self, histories):
        from forml.io import asset
        from forml.provider.registry.filesystem import volatile

        def view(directory):
            _clear_caches()
            facts = []
            for pkey in directory.list():
                for rkey in directory.get(pkey).list():
                    release = directory.get(pkey).get(rkey)
                    p, v = NAMES.index(pkey), VERSIONS.index(str(rkey))
                    facts.append(['rel', p, v, 'memory', 'ok'])
                    for gkey in release.list():
                        generation = release.get(gkey)
                        try:
                            tag = generation.tag
                        except Exception:  # pylint: disable=broad-except
                            facts.append(['gen', p, v, int(gkey), 'corrupt'])
                            continue
                        facts.append(['gen', p, v, int(gkey), ['ok', tag.training.ordinal, [s.int for s in tag.states]]])
                        for sid in tag.states:
                            blob = generation.get(sid)
                            facts.append(['state', p, v, int(gkey), sid.int, ['file', list(blob)] if blob else 'missing'])
            return sorted(facts, key=repr)

        for hist in histories:
            hist = [s if s[0] == 'train' else s[:4] + ['file'] for s in hist]
            registry = volatile.Registry()
            directory = asset.Directory(registry)
            before = view(directory)
            saved, uuid.uuid4 = uuid.uuid4, _Uuids(0)
            try:
                for i, step in enumerate(hist):
                    outcome = 'ok'
                    try:
                        if step[0] == 'publish':
                            directory.get(NAMES[step[1]]).put(_package(NAMES[step[2]], step[3], 'file')[0])
                        else:
                            generation = directory.get(NAMES[step[1]]).get(VERSIONS[step[2]]).get(None)
                            stamp = datetime.datetime(2020, 1, 1) + datetime.timedelta(seconds=step[3])
                            accessor = asset.State(generation, [uuid.UUID(int=10**6 + j) for j in range(len(step[4]))],
                                                   asset.Tag(training=asset.Tag.Training(stamp, step[3])))
                            accessor.commit([accessor.dump(bytes(s)) for s in step[4]])
                    except Exception as exc:  # pylint: disable=broad-except
                        outcome = _err(exc)
                    after = view(directory)
                    self.case(('volatile', repr(hist[: i + 1])), f'volatile {step[0]} -> {outcome}', nontrivial=True)
                    for what, sig in oracle_step(step, outcome, before, after):
                        if sig == 'publish-wrong-content':  # packages are not stored by the volatile registry
                            want = ['rel', step[2], step[3], 'memory', 'ok']
                            if [f for f in after if f not in before] == [want]:
                                continue
                        self.violate('volatile registry: ' + what, {'history': hist[: i + 1], 'registry': 'volatile'},
                                     sig if sig == 'release-not-monotonic' else 'volatile-' + sig)
                    before = after
            finally:
                uuid.uuid4 = saved

    # ---- entry points ----------------------------------------------------------------------------------------
    def correspondence(self):
        for name in NAMES:  # before forking: the workers and the oracle must see the very same package bytes
            for vidx in range(len(VERSIONS)):
                for kind in ('file', 'dir'):
                    _package(name, vidx, kind)
        impl = self._detect_impl()
        self.extra['implementation_variant'] = {'staged': impl[0], 'keyFirst': impl[1]}
        self.notes.append(f'tree under test: tag/package written {"via temporary + rename" if impl[0] else "in place"}; '
                          f'Project.put checks the project key {"first" if impl[1] else "only for listed projects"} '
                          f'(model variant Impl.mk {str(impl[0]).lower()} {str(impl[1]).lower()})')
        histories = self._corpus() + [self._random_history() for _ in range(self.n(60, 700))]
        if not self.quick:
            histories += list(self._exhaustive(4))
        ctx = multiprocessing.get_context('fork')
        ncrash = 0
        with ctx.Pool(min(14, os.cpu_count() or 2)) as pool:
            for start in range(0, len(histories), 400):
                results = self._run_batch(histories[start:start + 400], pool)
                for r in results:
                    self._judge(r)
                    ncrash += len(r['crashes'])
                self._compare(results, impl)
        self.extra['histories'] = len(histories)
        self.extra['crashed_runs'] = ncrash
        self._volatile(self._corpus() + [self._random_history() for _ in range(self.n(20, 200))])
        if not self.quick:
            self._fresh_process(histories[:7] + histories[7:7 + 30])

    def _fresh_process(self, histories):
        """The reader in a fresh interpreter (no cache can survive): same view as the in-process fresh reader."""
        import json
        import subprocess
        import sys

        root = _fresh_root()
        jobs = []
        for n, hist in enumerate(histories):
            live = os.path.join(root, f'h{n}')
            os.makedirs(live)
            sid = 0
            for step in hist:
                _, _, sid, _ = _do_step(live, step, sid)
            jobs.append((live, _read_view(live)))
        code = ('import sys, json, logging; logging.disable(logging.CRITICAL); sys.path.insert(0, sys.argv[1]);'
                'sys.path.insert(0, sys.argv[2]); from props import c05;'
                'print(json.dumps([c05._read_view(r) for r in sys.argv[3:]]))')
        out = subprocess.run([sys.executable, '-W', 'ignore', '-c', code, fw.REPO, os.path.join(fw.VERIF, 'harness')]
                             + [j[0] for j in jobs], capture_output=True, text=True, timeout=600, check=False)
        if out.returncode != 0:
            raise fw.MachineryError('fresh-process reader failed: ' + out.stderr[-800:])
        views = json.loads(out.stdout.strip().splitlines()[-1])
        for (live, mine), theirs, hist in zip(jobs, views, histories):
            self.case(('fresh-process', repr(hist)), 'fresh-process reader', nontrivial=True)
            if mine != theirs:
                self.violate('a fresh process reads a different view than the in-process fresh reader',
                             {'history': hist, 'crash': None}, 'fresh-process-view-differs')
        shutil.rmtree(root, ignore_errors=True)

    def search(self, reason):
        # widen around the diverging histories: all their prefixes and single-step variations, oracle on the real code
        seeds = [d.case['history'] for d in self.divergences if isinstance(d.case, dict) and 'history' in d.case][:10]
        tried = 0
        for hist in seeds:
            variants = [hist[:n] for n in range(1, len(hist) + 1)]
            for i, s in enumerate(hist):
                if s[0] == 'publish':
                    variants.append(hist[:i] + [s[:4] + ['dir' if s[4] == 'file' else 'file']] + hist[i + 1:])
                else:
                    variants.append(hist[:i] + [s[:4] + [s[4] + [[9, 9, 9]]]] + hist[i + 1:])
            for v in variants:
                r = _worker((v, True))
                if 'machinery' in r:
                    continue
                tried += 1
                self._judge(r)
        self.notes.append(f'failing-input search ({reason}): {tried} neighbouring histories x all crash points')

    def replay_finding(self, entry):
        w = entry['witness']
        if 'history' not in w:
            return None
        hist = w['history']
        if w.get('registry') == 'volatile':
            before = len(self.violations)
            self._volatile([hist])
            found = self.violations[before:]
            del self.violations[before:]
            return found[0] if found else None
        crash = w.get('crash')
        r = run_history(hist, crash_points=crash is not None, only=crash)
        i = len(hist) - 1
        if crash is None:
            for what, sig in oracle_step(hist[i], r['outcomes'][i], r['views'][i], r['views'][i + 1]):
                return fw.Violation(what, w, sig)
            return None
        for c in r['crashes']:
            for what, sig in oracle_crash(r['views'][c['i']], r['views'][c['i'] + 1], c['view']):
                return fw.Violation(what, w, sig)
        return None


if __name__ == '__main__':
    raise SystemExit(fw.run(C05))
