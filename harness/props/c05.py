"""C05 — registry history is append-only, gap-free and crash-consistent.

Real code: forml.provider.registry.filesystem.{posix,volatile} driven through asset.Directory / asset.State.
Model:     lean/ForML/Model/{Fs,Registry}.lean via drv_c05.

(a) trace correspondence: the os / io / shutil entry points the registry reaches are wrapped, the micro-operations of
    every registry call (write / close / push) are recorded and compared with the model's list for the same call;
(b) crash correspondence: every step of every history is re-run from a snapshot of the tree before it and aborted
    (BaseException) after k completed micro-operations resp. half-way through a write; a fresh
    asset.Directory(posix.Registry(root)) with cleared caches lists and reads everything; that view is compared
    with the model's reader on the crashed model tree, and the raw directory tree (every path, every byte, leftovers
    included) with the model's raw tree — so a file-system effect that escapes the recorder shows up;
(c) crash-recovery histories: a history item ['crash', step, k, cut] kills the step on the live tree and the history
    goes on (a new process retries / does something else) on whatever is on disk;
(d) a long-lived reader (process-wide TAGS / STATES caches never cleared) must read what a fresh reader reads;
oracle (independent of the model, on the real views only): append-only / gap-free / monotonic between consecutive
    views, crashed view = previous or complete new view and nothing listed is unreadable.
"""
from __future__ import annotations

import atexit
import builtins
import errno
import datetime
import io
import itertools
import multiprocessing
import os
import pathlib
import shutil
import sys
import tempfile
import uuid

from core import framework as fw
from core import sexp

# project keys: forml compares them as plain strings; the last three are PEP 503 spelling variants of one another (three
# different projects for forml)
NAMES = ['pa', 'pb', 'pc', 'my-proj', 'my_proj', 'My.Proj']
VARIANTS = [3, 4, 5]
# ascending PEP 440 (index = rank), canonical text; a step names a version by its rank or by an alternative spelling
VERSIONS = ['0.1.dev1', '0.1', '0.9', '0.10', '1.0rc1', '1.0', '1.0+loc', '1.0.post1', '2', '1!0.1']
ALT = {'0.1.0': 1, '1.0.0rc1': 4, '1.0.0': 5, '1.0.0.0': 5, '1.0.0.post1': 7, '2.0': 8, '2.0.0': 8, '1!0.1.0': 9}
SPELLINGS = list(VERSIONS) + sorted(ALT)


def _ver(v) -> str:
    """the version text of a step's version field (rank or spelling)"""
    return VERSIONS[v] if isinstance(v, int) else v


def _rank(v):
    """PEP 440 rank of a step's version field resp. of a version text found on disk / in a listing"""
    if isinstance(v, int):
        return v
    return VERSIONS.index(v) if v in VERSIONS else ALT.get(v, v)
MEMBERS = ['__4ml__.py', 'foo.py', 'bar.py', 'baz.py']  # member index of a directory package = position here
KINDS = ['file', 'dir', 'dir2']  # 'dir2': a REBUILD of the 'dir' package of that version — other bytes in foo.py, baz.py
# added, bar.py present exactly when 'dir' has none (files only in the old, only in the new, in both with different bytes)
_BASE = tempfile.mkdtemp(prefix='verif-c05-')
atexit.register(shutil.rmtree, _BASE, ignore_errors=True)
_COUNTER = itertools.count()


FAULT_ERRNOS = [errno.EMFILE, errno.EACCES, errno.EIO, errno.ESTALE, errno.ENOENT]  # ENOENT only where it is the truth
FAULT_CAP = 36  # fault points explored per step (evenly spread over its file-system calls when there are more)


class Crash(BaseException):
    """The simulated process death (BaseException: no `except Exception` of the code under test swallows it)."""


# ---------------------------------------------------------------------------------------------------------------
# file-system recorder / crash injector
# ---------------------------------------------------------------------------------------------------------------
class Recorder:
    """Wraps os.mkdir / os.rename / os.replace / os.unlink / os.remove / os.rmdir / io.open / builtins.open /
    shutil.copyfile / shutil.rmtree for paths below `root`; records every *successful* mutating micro-operation; dies after
    `crash_at` completed ones (inside the next write with `cut` when that is given)."""

    def __init__(self, root: str, crash_at=None, cut: bool = False, fault=None):
        self.root = os.path.realpath(root)
        self.calls: list = []  # [(method, [op, ...])]
        self.done = 0
        self.crash_at = crash_at
        self.cut = cut
        self.dead = False
        self._nested = 0
        self._saved = {}
        # transient I/O faults: `fault` = 'log' (only count the file-system calls, reads included) or (index, errno): the
        # index-th file-system call below the root raises OSError(errno) ONCE; the process lives on
        self.fault = fault
        self.ncalls = 0
        self.call_log: list = []  # [(kind, micro-operations completed before, lenient?)]
        self.hit = None  # {'kind', 'done', 'lenient', 'errno'} once the fault was raised

    def _tick(self, kind: str, path, lenient: bool = False, swallow: bool = False):
        """Called before every file-system call below the root when faults are on.  `lenient`: a call whose failure the
        code under test may legitimately absorb (mkdir of an existing directory under exist_ok).  Returns True when the
        fault hits a call that absorbs it itself (`rmtree(ignore_errors=True)`): the caller skips the call."""
        if self.fault is None or self._nested:
            return False
        index = self.ncalls
        self.ncalls += 1
        self.call_log.append((kind, self.done, lenient))
        if self.fault == 'log' or self.hit is not None or index != self.fault[0]:
            return False
        code = self.fault[1]
        self._nested += 1
        try:
            missing = not os.path.lexists(os.fspath(path))
        finally:
            self._nested -= 1
        if code == errno.ENOENT:
            if missing or kind == 'mkdir':
                lenient = True  # the truth (nothing there) resp. retried by mkdir(parents=True)
            else:
                code = errno.EIO  # ENOENT for something that exists is not a transient fault but a lying file system
        self.hit = {'kind': kind, 'done': self.done, 'lenient': lenient, 'errno': errno.errorcode[code], 'index': index}
        if swallow:
            return True
        raise OSError(code, os.strerror(code), os.fspath(path))

    def _read(self, which: str):
        """wrapper of a read-only call (stat / lstat / listdir / scandir): only counted / faulted"""
        orig = self._saved[which]

        def wrapper(path, *a, **k):
            if self.fault is not None and not self._nested and not isinstance(path, int) and self._mine(path):
                # os.path.exists / isdir / isfile / islink / lexists answer False on ANY OSError: a fault there is
                # absorbed by the standard library (e.g. inside os.makedirs), not by the code under test
                caller = sys._getframe(1).f_code.co_filename  # pylint: disable=protected-access
                self._tick(which, path, lenient='genericpath' in caller or 'posixpath' in caller)
            return orig(path, *a, **k)

        return wrapper

    # -- bookkeeping
    def _mine(self, path) -> bool:
        try:
            p = os.path.abspath(os.fspath(path))
        except TypeError:
            return False
        return p == self.root or p.startswith(self.root + os.sep)

    def _rel(self, path) -> tuple:
        p = os.path.abspath(os.fspath(path))
        return tuple(pathlib.PurePath(os.path.relpath(p, self.root)).parts)

    def begin(self, method: str):
        self.calls.append((method, []))

    def _record(self, op):
        if not self.calls:
            self.calls.append(('?', []))
        self.calls[-1][1].append(op)
        self.done += 1

    def _gate(self, partial_ok: bool = False) -> bool:
        """Called before every mutating micro-op. Returns True when the op must be performed partially and then die."""
        if self.dead:
            raise Crash()
        if self.crash_at is not None and self.done == self.crash_at:
            if self.cut and partial_ok:
                return True
            self.dead = True
            raise Crash()
        return False

    def _die(self):
        self.dead = True
        raise Crash()

    # -- wrappers
    def _mkdir(self, path, *a, **k):
        if not self._mine(path) or self._nested:
            return self._saved['mkdir'](path, *a, **k)
        if self.fault is not None:
            self._nested += 1
            try:
                there = os.path.isdir(path)
            finally:
                self._nested -= 1
            self._tick('mkdir', path, lenient=there)
        self._gate()
        r = self._saved['mkdir'](path, *a, **k)  # FileExistsError / FileNotFoundError propagate unrecorded
        self._record(('mkdir', self._rel(path)))
        return r

    def _rename(self, src, dst, *a, **k):
        if not (self._mine(src) or self._mine(dst)) or self._nested:
            return self._saved['rename'](src, dst, *a, **k)
        self._tick('rename', src)
        self._gate()
        r = self._saved['rename'](src, dst, *a, **k)
        self._record(('rename', self._rel(src), self._rel(dst)))
        return r

    def _remove(self, which):
        def wrapper(path, *a, **k):
            if not self._mine(path) or self._nested:
                return self._saved[which](path, *a, **k)
            self._tick(which, path)
            self._gate()
            r = self._saved[which](path, *a, **k)
            self._record(('remove', self._rel(path)))
            return r

        return wrapper

    def _open(self, file, mode='r', *a, **k):
        if self._nested or not isinstance(mode, str) or isinstance(file, int) or not self._mine(file):
            return self._saved['open'](file, mode, *a, **k)
        if not any(c in mode for c in 'wax+'):
            self._tick('open-r', file)
            return self._saved['open'](file, mode, *a, **k)
        self._tick('open-w', file)
        self._gate()
        self._nested += 1
        try:
            existed = os.path.exists(file)
        finally:
            self._nested -= 1
        raw = self._saved['open'](file, mode, *a, **k)
        if 'w' in mode or not existed:
            self._record(('create', self._rel(file)))
        return _Proxy(self, raw, self._rel(file))

    def _copyfile(self, src, dst, *a, **k):
        if self._nested or not self._mine(dst):
            return self._saved['copyfile'](src, dst, *a, **k)
        self._tick('open-w', dst)
        self._gate()
        self._nested += 1
        try:
            with self._saved['open'](src, 'rb') as f:
                data = f.read()
            self._saved['open'](dst, 'wb').close()
        finally:
            self._nested -= 1
        self._record(('create', self._rel(dst)))
        self._tick('write', dst)
        part = self._gate(partial_ok=len(data) >= 2)
        self._nested += 1
        try:
            with self._saved['open'](dst, 'wb') as f:
                f.write(data[: len(data) // 2] if part else data)
        finally:
            self._nested -= 1
        if part:
            self._die()
        self._record(('append', self._rel(dst), bytes(data)))
        return dst

    def _rmtree(self, path, *a, **k):
        """One micro-operation (its unlink / rmdir sequence is not split), and only when there is a directory to remove."""
        self._nested += 1
        try:
            plain = not self._mine(path) or os.path.islink(path) or not os.path.isdir(path)
        finally:
            self._nested -= 1
        if self._nested or plain:
            self._nested += 1
            try:
                return self._saved['rmtree'](path, *a, **k)
            finally:
                self._nested -= 1
        absorbs = bool(k.get('ignore_errors') or (a and a[0]))
        if self._tick('rmtree', path, swallow=absorbs):
            return None  # `ignore_errors=True`: the error is swallowed, the tree stays
        self._gate()
        self._nested += 1
        try:
            r = self._saved['rmtree'](path, *a, **k)
        finally:
            self._nested -= 1
        self._record(('rmtree', self._rel(path)))
        return r

    def __enter__(self):
        self._saved = {'mkdir': os.mkdir, 'rename': os.rename, 'replace': os.replace, 'unlink': os.unlink,
                       'remove': os.remove, 'rmdir': os.rmdir, 'open': io.open, 'bopen': builtins.open,
                       'copyfile': shutil.copyfile, 'rmtree': shutil.rmtree}
        if self.fault is not None:
            for which in ('stat', 'lstat', 'listdir', 'scandir'):
                self._saved[which] = getattr(os, which)
                setattr(os, which, self._read(which))
        os.mkdir = self._mkdir
        os.rename = self._rename
        os.replace = lambda s, d, *a, **k: self._rename(s, d, *a, **k)
        os.unlink = self._remove('unlink')
        os.remove = self._remove('remove')
        os.rmdir = self._remove('rmdir')
        io.open = self._open
        builtins.open = self._open
        shutil.copyfile = self._copyfile
        shutil.rmtree = self._rmtree
        return self

    def __exit__(self, *exc):
        if self.fault is not None:
            for which in ('stat', 'lstat', 'listdir', 'scandir'):
                setattr(os, which, self._saved[which])
        os.mkdir = self._saved['mkdir']
        os.rename = self._saved['rename']
        os.replace = self._saved['replace']
        os.unlink = self._saved['unlink']
        os.remove = self._saved['remove']
        os.rmdir = self._saved['rmdir']
        io.open = self._saved['open']
        builtins.open = self._saved['bopen']
        shutil.copyfile = self._saved['copyfile']
        shutil.rmtree = self._saved['rmtree']
        return False


class _Proxy:
    """A writable file whose every `write` is one recorded `append` (flushed), possibly cut short by the crash."""

    def __init__(self, rec: Recorder, raw, rel):
        self._rec, self._raw, self._relp = rec, raw, rel

    def write(self, data):
        blob = data.encode() if isinstance(data, str) else bytes(data)
        self._rec._tick('write', os.path.join(self._rec.root, *self._relp))
        part = self._rec._gate(partial_ok=len(blob) >= 2)
        if part:
            self._raw.write(data[: len(data) // 2])
            self._raw.flush()
            self._rec._die()
        n = self._raw.write(data)
        self._raw.flush()
        self._rec._record(('append', self._relp, blob))
        return n

    def __enter__(self):
        return self

    def __exit__(self, *exc):
        self._raw.close()
        return False

    def __getattr__(self, item):
        return getattr(self._raw, item)


# ---------------------------------------------------------------------------------------------------------------
# real code adapter
# ---------------------------------------------------------------------------------------------------------------
_PACKAGES: dict = {}


def _package(name: str, vidx, kind: str):
    """(prj.Package, model pkg) of project `name`, version `vidx` (rank or spelling); 'file' = .4ml zip, 'dir' = source tree,
    'dir2' = another source tree of the same name and version (a rebuild with different content)."""
    from forml import project as prj

    text = _ver(vidx)
    key = (name, text, kind)
    if key not in _PACKAGES:
        base = pathlib.Path(_BASE) / 'pkg' / f'{name}-{SPELLINGS.index(text)}-{kind}'
        vidx = SPELLINGS.index(text)
        src = base / 'src'
        src.mkdir(parents=True)
        manifest = prj.Manifest(name, text, 'foo')
        (src / 'foo.py').write_text(f'X = {vidx}\n')
        if kind == 'file':
            package = prj.Package.create(src, manifest, base / f'{name}.4ml')
            model = ['file', list(package.path.read_bytes())]
        else:
            manifest.write(src)
            if kind == 'dir2':
                (src / 'foo.py').write_text(f'X = {vidx}\nZ = 2\n')
                (src / 'baz.py').write_text('B = 1\n')
            if bool(vidx % 2) == (kind == 'dir'):
                (src / 'bar.py').write_text('Y = 1\n')
            package = prj.Package(src)
            order = [e.name for e in os.scandir(src) if e.name != '__pycache__']  # the order copytree will use
            model = ['dir', [[MEMBERS.index(n), list((src / n).read_bytes())] for n in order]]
        _PACKAGES[key] = (package, model)
    return _PACKAGES[key]


def _clear_caches():
    """What a fresh process starts with: no cached tags / states / artifacts and no memoised registry paths (the
    `lru_cache`s on posix.Path are keyed by *equal* keys, so within one process the first spelling of a version wins)."""
    from forml.io.asset._directory.level import major, minor
    from forml.provider.registry.filesystem import posix

    minor.TAGS.clear()
    minor.STATES.clear()
    major.ARTIFACTS.clear()
    for method in ('project', 'release', 'generation', 'package', 'state', 'tag'):
        cached = getattr(posix.Path, method, None)
        if hasattr(cached, 'cache_clear'):
            cached.cache_clear()


def _err(exc: BaseException) -> str:
    import forml
    from forml.io import asset

    if isinstance(exc, asset.Level.Invalid):
        return 'invalid'
    if isinstance(exc, forml.InvalidError):
        return 'mismatch'
    if isinstance(exc, OSError):
        return 'os'
    return type(exc).__name__


class _Uuids:
    """uuid.uuid4 replaced by a counter: the state id *is* its first-occurrence index."""

    def __init__(self, start: int):
        self.next = start

    def __call__(self):
        self.next += 1
        return uuid.UUID(int=self.next - 1)


def _canon_path(parts: tuple) -> list:
    out = []
    for depth, name in enumerate(parts):
        seg = ['other', name]
        if depth == 0 and name in NAMES:
            seg = ['proj', NAMES.index(name)]
        elif depth == 1 and isinstance(_rank(name), int):
            seg = ['rel', _rank(name)]
        elif depth == 2:
            if name == '.stage':
                seg = 'stage'
            elif name == 'package.4ml':
                seg = 'pkg'
            elif name.isdigit():
                seg = ['gen', int(name)]
        elif depth == 3:
            if name == 'tag.toml':
                seg = 'tag'
            elif name.endswith('.bin'):
                try:
                    seg = ['state', uuid.UUID(name[:-4]).int]
                except ValueError:
                    pass
            elif name in MEMBERS:
                seg = ['member', MEMBERS.index(name)]
        out.append(seg)
    return out


_ALIAS: dict = {}  # (depth, file name) -> 'pkgtmp' | 'tagtmp': learnt from the renames of the tree under test


def _learn_alias(calls) -> None:
    """A temporary sibling that is renamed onto the package / the tag is called pkgtmp / tagtmp whatever its real name."""
    for _, ops in calls:
        for op in ops:
            if op[0] == 'rename':
                src, dst = _canon_path(op[1]), _canon_path(op[2])
                if src and isinstance(src[-1], list) and src[-1][0] == 'other' and dst and dst[-1] in ('pkg', 'tag'):
                    _ALIAS[(len(src) - 1, src[-1][1])] = dst[-1] + 'tmp'


def _canon(parts) -> list:
    path = _canon_path(parts)
    for i, seg in enumerate(path):
        if isinstance(seg, list) and seg[0] == 'other' and (i, seg[1]) in _ALIAS:
            path[i] = _ALIAS[(i, seg[1])]
            if i + 1 < len(path) and isinstance(path[i + 1], list) and path[i + 1][0] == 'other' \
                    and path[i + 1][1] in MEMBERS:
                path[i + 1] = ['member', MEMBERS.index(path[i + 1][1])]
    return path


def _tag_payload(blob: bytes):
    from forml.io import asset

    try:
        tag = asset.Tag.loads(blob)
        return ['tag', tag.training.ordinal, [s.int for s in tag.states]]
    except Exception:  # pylint: disable=broad-except
        return ['tag', 'unparsable']


def _canon_calls(calls) -> list:
    """[(method, ops)] -> [[op, ...], ...] with canonical paths."""
    _learn_alias(calls)
    out = []
    for _, ops in calls:
        lst = []
        for op in ops:
            if op[0] == 'append':
                path = _canon(op[1])
                payload = _tag_payload(op[2]) if path[-1] in ('tag', 'tagtmp') else list(op[2])
                lst.append(['append', path, payload])
            elif op[0] == 'rename':
                lst.append(['rename', _canon(op[1]), _canon(op[2])])
            else:
                lst.append([op[0], _canon(op[1])])
        out.append(lst)
    return out


def _read_tree(root: str) -> list:
    """The raw tree: every path below the registry root with its node ('dir' | ['file', bytes] | decoded tag)."""
    out = []
    for dirpath, dirnames, filenames in os.walk(root):
        rel = pathlib.PurePath(os.path.relpath(dirpath, root)).parts if dirpath != root else ()
        for name in dirnames:
            out.append([_canon(rel + (name,)), 'dir'])
        for name in filenames:
            path = _canon(rel + (name,))
            with open(os.path.join(dirpath, name), 'rb') as f:
                blob = f.read()
            out.append([path, _tag_payload(blob) if path[-1] in ('tag', 'tagtmp') else ['file', list(blob)]])
    return sorted(out, key=repr)


def _do_step(root: str, step: list, sid0: int, crash_at=None, cut=False, clear=True):
    """One history step on the real code in the tree `root`. Returns (outcome, calls, next sid, crashed?)."""
    outcome, rec, nsid, crashed = _do_step_rec(root, step, sid0, crash_at, cut, clear)
    return outcome, rec.calls, nsid, crashed


def _do_step_rec(root: str, step: list, sid0: int, crash_at=None, cut=False, clear=True, fault=None):
    """... with the recorder itself (its call log and what a transient fault hit) instead of the calls"""
    from forml.io import asset
    from forml.provider.registry.filesystem import posix

    if clear:
        _clear_caches()
    registry = posix.Registry(root)
    directory = asset.Directory(registry)
    rec = Recorder(root, crash_at, cut, fault)
    uuids = _Uuids(sid0)
    saved_uuid4 = uuid.uuid4
    saved = {m: getattr(posix.Registry, m) for m in ('write', 'close', 'push')}

    def wrap(method):
        orig = saved[method]

        def wrapper(self, *a, **k):
            rec.begin(method)
            return orig(self, *a, **k)

        return wrapper

    outcome, crashed = 'ok', False
    try:
        for m in saved:
            setattr(posix.Registry, m, wrap(m))
        uuid.uuid4 = uuids
        with rec:
            try:
                if step[0] == 'publish':
                    _, dproj, name, vidx, kind = step
                    package, _ = _package(NAMES[name], vidx, kind)
                    if (_rank(vidx) + name) % 2:  # the same through the runtime facade
                        from forml.runtime import _pad

                        _pad.Repo(registry).publish(NAMES[dproj], package)
                    else:
                        directory.get(NAMES[dproj]).put(package)
                else:
                    _, proj, vidx, ordinal, states = step
                    generation = directory.get(NAMES[proj]).get(_ver(vidx)).get(None)
                    stamp = datetime.datetime(2020, 1, 1) + datetime.timedelta(seconds=ordinal)
                    tag = asset.Tag(training=asset.Tag.Training(stamp, ordinal))
                    accessor = asset.State(generation, [uuid.UUID(int=10**6 + i) for i in range(len(states))], tag)
                    sids = [accessor.dump(bytes(s)) for s in states]
                    accessor.commit(sids)
            except Crash:
                crashed = True
            except Exception as exc:  # pylint: disable=broad-except
                outcome = _err(exc)
    finally:
        for m, f in saved.items():
            setattr(posix.Registry, m, f)
        uuid.uuid4 = saved_uuid4
    return outcome, rec, uuids.next, crashed


def _read_view(root: str, clear: bool = True) -> list:
    """What a fresh reader (`clear`: process-wide caches emptied first) sees: sorted facts
    ['rel', p, v, node, pull-status] ['member', p, v, i, node] ['gen', p, v, g, tag] ['state', p, v, g, sid, node]
    and what the implicit keys resolve to: ['latest-rel', p, v] ['latest-gen', p, v, g | None]."""
    from forml.io import asset
    from forml.provider.registry.filesystem import posix

    if clear:
        _clear_caches()
    registry = posix.Registry(root)
    directory = asset.Directory(registry)
    facts = []
    for pkey in directory.list():
        project = directory.get(pkey)
        p = NAMES.index(pkey) if pkey in NAMES else str(pkey)
        try:
            lkey = str(project.get(None).key)
            facts.append(['latest-rel', p, _rank(lkey)])
        except Exception as exc:  # pylint: disable=broad-except
            facts.append(['latest-rel', p, 'error:' + type(exc).__name__])
        for rkey in project.list():
            release = project.get(rkey)
            v = _rank(str(rkey))
            facts.append(['latest-spelling', p, v, str(rkey)])  # how the listed release is spelt (not part of the diffs)
            try:
                facts.append(['latest-gen', p, v, int(release.get(None).key)])
            except asset.Level.Listing.Empty:
                facts.append(['latest-gen', p, v, None])
            except Exception as exc:  # pylint: disable=broad-except
                facts.append(['latest-gen', p, v, 'error:' + type(exc).__name__])
            try:
                package = registry.pull(pkey, rkey)
                status = 'ok' if (package.manifest.name == pkey and str(package.manifest.version) == str(rkey)) \
                    else 'wrong-manifest'
            except Exception as exc:  # pylint: disable=broad-except
                status = 'unreadable:' + type(exc).__name__
            path = pathlib.Path(root) / str(pkey) / str(rkey) / 'package.4ml'
            if path.is_dir():
                facts.append(['rel', p, v, 'dir', status])
                for item in sorted(path.iterdir()):
                    idx = MEMBERS.index(item.name) if item.name in MEMBERS else item.name
                    facts.append(['member', p, v, idx, ['file', list(item.read_bytes())] if item.is_file() else 'dir'])
            else:
                facts.append(['rel', p, v, ['file', list(path.read_bytes())], status])
            for gkey in release.list():
                generation = release.get(gkey)
                try:
                    tag = generation.tag
                    sids = list(tag.states)
                    facts.append(['gen', p, v, int(gkey), ['ok', tag.training.ordinal, [s.int for s in sids]]])
                except Exception:  # pylint: disable=broad-except
                    facts.append(['gen', p, v, int(gkey), 'corrupt'])
                    continue
                for sid in sids:
                    try:
                        blob = generation.get(sid)
                        node = ['file', list(blob)] if blob else 'missing'
                    except Exception as exc:  # pylint: disable=broad-except
                        node = 'unreadable:' + type(exc).__name__
                    facts.append(['state', p, v, int(gkey), sid.int, node])
    return sorted(facts, key=repr)


def _fresh_root() -> str:
    path = os.path.join(_BASE, 'run', f'{os.getpid()}-{next(_COUNTER)}')
    os.makedirs(path)
    return path


def _atoms(calls) -> list:
    return [op for _, ops in calls for op in ops]


def _model_cut(canon_calls, k: int):
    flat = [op for call in canon_calls for op in call]
    path, payload = flat[k][1], flat[k][2]
    return 1 if path[-1] in ('tag', 'tagtmp') else len(payload) // 2


def _fault_indices(ncalls: int, cap: int = FAULT_CAP) -> list:
    if ncalls <= cap:
        return list(range(ncalls))
    return sorted({round(i * (ncalls - 1) / (cap - 1)) for i in range(cap)})


def run_history(history: list, crash_points: bool = True, only=None, fault_points=False, only_fault=None,
                fault_cap: int = FAULT_CAP) -> dict:
    """Base run (trace + view + raw tree after every event) and, from the snapshot before each plain step, every
    crash point of it (`crash_points='last'`: only of the last step).  A history item is a step or ['crash', step, where, cut]: the step is killed on the live tree
    (`where`: a float in [0, 1) = fraction of the step's micro-operations, or an int = their number) and the history
    goes on.  `only` = (i, k, cut) restricts the crash points to one (replay).
    A history item ['fault', step, where, e] runs the step on the live tree with a transient OSError (FAULT_ERRNOS[e])
    raised once at one of its file-system calls (`where`: fraction of the calls, or their index); the process lives on
    and the history continues.  `fault_points`: every plain step is also re-run from the snapshot before it with a fault
    at (up to FAULT_CAP of) its file-system calls; `only_fault` = (i, call index, e) restricts that to one (replay)."""
    root = _fresh_root()
    os.makedirs(os.path.join(root, 'live'))
    live = os.path.join(root, 'live')
    views, trees = [_read_view(live)], [_read_tree(live)]
    outcomes, traces, crashes, sid_start, events, killed = [], [], [], [], [], []
    faults, faulted = [], {}
    concrete = []  # the history with every crash / fault point spelt out (what a witness replays)
    sid = 0
    for i, item in enumerate(history):
        snap = os.path.join(root, f'snap{i}')
        shutil.copytree(live, snap)
        if item[0] == 'fault':
            _, step, where, eidx = item
            scratch = os.path.join(root, f'base{i}')
            shutil.copytree(snap, scratch)
            _, brec, _, _ = _do_step_rec(scratch, step, sid, fault='log')
            shutil.rmtree(scratch, ignore_errors=True)
            if brec.ncalls == 0:
                item = step
            else:
                idx = min(int(where * brec.ncalls), brec.ncalls - 1) if isinstance(where, float) else min(where, brec.ncalls - 1)
                outcome, frec, nsid, _ = _do_step_rec(live, step, sid, fault=(idx, FAULT_ERRNOS[eidx % len(FAULT_ERRNOS)]))
                hit = frec.hit or {'kind': None, 'done': 0, 'lenient': True, 'errno': None, 'index': idx}
                sid_start.append(sid)
                views.append(_read_view(live))
                trees.append(_read_tree(live))
                if outcome == 'ok':  # absorbed by the code: for the model this is the plain step
                    outcomes.append('ok')
                    traces.append(_canon_calls(frec.calls))
                    events.append(step)
                else:
                    outcomes.append('faulted')
                    traces.append(None)
                    events.append(['fault', step, hit['done']])
                faulted[i] = dict(hit, outcome=outcome, step=step)
                concrete.append(['fault', step, idx, eidx % len(FAULT_ERRNOS)])
                sid = nsid
                continue
        if item[0] == 'crash':
            _, step, where, cut = item
            scratch = os.path.join(root, f'base{i}')
            shutil.copytree(snap, scratch)
            _, bcalls, _, _ = _do_step(scratch, step, sid)
            complete = _read_view(scratch)
            shutil.rmtree(scratch, ignore_errors=True)
            atoms = _atoms(bcalls)
            if not atoms:  # the step performs no micro-operation (refused by a guard): nothing to interrupt
                item = step
            else:
                k = min(int(where * len(atoms)), len(atoms) - 1) if isinstance(where, float) else min(where, len(atoms))
                cut = bool(cut) and k < len(atoms) and atoms[k][0] == 'append' and len(atoms[k][2]) >= 2
                mcut = _model_cut(_canon_calls(bcalls), k) if cut else None
                _, ccalls, nsid, crashed = _do_step(live, step, sid, crash_at=k, cut=cut)
                outcomes.append('crashed')
                traces.append(None)
                sid_start.append(sid)
                events.append(['crash', step, k, cut, mcut])
                views.append(_read_view(live))
                trees.append(_read_tree(live))
                killed.append({'i': i, 'k': k, 'cut': cut, 'crashed': crashed or k >= len(atoms),
                               'completed': len(_atoms(ccalls)), 'complete_view': complete})
                concrete.append(['crash', step, k, cut])
                sid = nsid
                continue
        step = item
        concrete.append(step)
        outcome, calls, nsid, _ = _do_step(live, step, sid)
        outcomes.append(outcome)
        sid_start.append(sid)
        events.append(step)
        canon = _canon_calls(calls)
        traces.append(canon)
        views.append(_read_view(live))
        trees.append(_read_tree(live))
        atoms = _atoms(calls)
        points = []
        if crash_points and (crash_points != 'last' or i == len(history) - 1):
            for k, op in enumerate(atoms):
                points.append((k, False))
                if op[0] == 'append' and len(op[2]) >= 2:
                    points.append((k, True))
        for k, cut in points:
            if only is not None and (i, k, cut) != tuple(only):
                continue
            scratch = os.path.join(root, f'crash{i}-{k}-{int(cut)}')
            shutil.copytree(snap, scratch)
            _, ccalls, _, crashed = _do_step(scratch, step, sid, crash_at=k, cut=cut)
            crashes.append({'i': i, 'k': k, 'cut': cut, 'model_cut': _model_cut(canon, k) if cut else None,
                            'crashed': crashed, 'completed': len(_atoms(ccalls)), 'view': _read_view(scratch),
                            'tree': _read_tree(scratch)})
            shutil.rmtree(scratch, ignore_errors=True)
        if (fault_points and only_fault is None) or (only_fault is not None and only_fault[0] == i):
            scratch = os.path.join(root, f'flog{i}')
            shutil.copytree(snap, scratch)
            _, brec, _, _ = _do_step_rec(scratch, step, sid, fault='log')
            shutil.rmtree(scratch, ignore_errors=True)
            for idx in (_fault_indices(brec.ncalls, fault_cap) if only_fault is None else [only_fault[1]]):
                eidx = idx % (len(FAULT_ERRNOS) - 1) if idx % 7 else len(FAULT_ERRNOS) - 1
                if only_fault is not None:
                    if idx != only_fault[1]:
                        continue
                    eidx = only_fault[2]
                scratch = os.path.join(root, f'fault{i}-{idx}')
                shutil.copytree(snap, scratch)
                foutcome, frec, _, _ = _do_step_rec(scratch, step, sid, fault=(idx, FAULT_ERRNOS[eidx]))
                if frec.hit is not None:
                    faults.append(dict(frec.hit, i=i, e=eidx, outcome=foutcome, view=_read_view(scratch),
                                       tree=_read_tree(scratch), trace=_canon_calls(frec.calls)))
                shutil.rmtree(scratch, ignore_errors=True)
        sid = nsid
    shutil.rmtree(root, ignore_errors=True)
    return {'history': history, 'events': events, 'outcomes': outcomes, 'traces': traces, 'views': views, 'trees': trees,
            'crashes': crashes, 'killed': killed, 'sid_start': sid_start, 'faults': faults, 'faulted': faulted,
            'concrete': concrete}


def run_long_lived(history: list) -> list:
    """The same history in ONE long-lived process: the process-wide TAGS / STATES / ARTIFACTS caches are never cleared
    between the steps and the reads. Returns the view after every event."""
    root = _fresh_root()
    _clear_caches()
    views = [_read_view(root, clear=False)]
    sid = 0
    for item in history:
        if item[0] in ('crash', 'fault'):
            continue  # a dead process takes its caches along (and a faulted step is retried by the history itself)
        _, _, sid, _ = _do_step(root, item, sid, clear=False)
        views.append(_read_view(root, clear=False))
    shutil.rmtree(root, ignore_errors=True)
    return views


def _worker(args):
    history, crash_points = args
    try:
        if crash_points in ('faults', 'faults-quick'):
            return run_history(history, crash_points=False, fault_points=True,
                               fault_cap=FAULT_CAP if crash_points == 'faults' else 20)
        r = run_history(history, crash_points)
        if crash_points == 'long-lived':
            r['long_lived'] = run_long_lived(history)
        return r
    except Exception as exc:  # pylint: disable=broad-except
        import traceback

        return {'history': history, 'machinery': f'{type(exc).__name__}: {exc}\n{traceback.format_exc()}'}


# ---------------------------------------------------------------------------------------------------------------
# oracle (spec-shaped, real views only)
# ---------------------------------------------------------------------------------------------------------------
def _index(view):
    rels, members, gens, states = {}, {}, {}, {}
    for f in view:
        if f[0] == 'rel':
            rels[(f[1], f[2])] = (f[3], f[4])
        elif f[0] == 'member':
            members[(f[1], f[2], f[3])] = f[4]
        elif f[0] == 'gen':
            gens[(f[1], f[2], f[3])] = f[4]
        elif f[0] == 'state':
            states[(f[1], f[2], f[3], f[4])] = f[5]
    return rels, members, gens, states


def corrupt_items(view) -> list:
    """(what, signature) of every listed item whose metadata / package / states are missing or unreadable."""
    out = []
    for f in view:
        if f[0] == 'rel' and f[4] != 'ok':
            kind = 'tree' if f[3] == 'dir' else 'file'
            out.append((f'listed release {f[1]}/{f[2]} has an unreadable package ({f[4]})',
                        f'listed-release-unreadable-package-{kind}'))
        if f[0] == 'gen' and f[4] == 'corrupt':
            out.append((f'listed generation {f[1]}/{f[2]}/{f[3]} has an unreadable tag', 'listed-generation-unreadable-tag'))
        if f[0] == 'state' and not isinstance(f[5], list):
            out.append((f'listed generation {f[1]}/{f[2]}/{f[3]} misses state {f[4]} ({f[5]})',
                        'listed-generation-missing-state'))
        if f[0] == 'latest-rel':
            vs = [g[2] for g in view if g[0] == 'rel' and g[1] == f[1] and isinstance(g[2], int)]
            if vs and f[2] != max(vs):
                out.append((f'implicit release of project {f[1]} resolves to {f[2]}, the highest listed one is {max(vs)}',
                            'latest-release-not-highest'))
        if f[0] == 'latest-gen':
            gs = [g[3] for g in view if g[0] == 'gen' and g[1:3] == f[1:3]]
            if f[3] != (max(gs) if gs else None):
                out.append((f'implicit generation of {f[1]}/{f[2]} resolves to {f[3]}, listed are {sorted(gs)}',
                            'latest-generation-not-highest'))
    return out


def oracle_step(step, outcome, before, after) -> list:
    """Append-only / gap-free / monotonic between the views around one completed step. [(what, signature)]."""
    out = list(corrupt_items(after))
    spellings = [f for f in before if f[0] == 'latest-spelling']
    before = [f for f in before if not f[0].startswith('latest')]
    after = [f for f in after if not f[0].startswith('latest')]
    missing = [f for f in before if f not in after]
    if missing:
        out.append((f'{_short(missing[0])} was visible before the step and is changed or gone after it', 'not-append-only'))
    new = [f for f in after if f not in before]
    rb, _, gb, _ = _index(before)
    ra, ma, ga, sa = _index(after)
    for (p, v) in {(k[0], k[1]) for k in ga}:
        nums = sorted(k[2] for k in ga if k[:2] == (p, v))
        if nums != list(range(1, len(nums) + 1)):
            out.append((f'generations of {p}/{v} are {nums}', 'generation-gap'))
    if outcome != 'ok':
        if new:
            out.append((f'step failed with {outcome} but {_short(new[0])} appeared', 'failed-step-changed-view'))
        return out
    if step[0] == 'publish':
        _, _, name, spelt, kind = step
        vidx = _rank(spelt)
        older = [v for (p, v) in rb if p == name]
        if any(not vidx > v for v in older):
            out.append((f'release {_ver(spelt)} of {NAMES[name]} accepted although {[VERSIONS[v] for v in older]} exist',
                        'release-not-monotonic'))
        _, model = _package(NAMES[name], spelt, kind)
        if model[0] == 'file':
            want = [['rel', name, vidx, ['file', model[1]], 'ok']]
        else:
            want = [['rel', name, vidx, 'dir', 'ok']] + [['member', name, vidx, i, ['file', b]] for i, b in model[1]]
        if sorted(new, key=repr) != sorted(want, key=repr):
            extra = [_short(f) for f in new if f not in want]
            lacking = [_short(f) for f in want if f not in new]
            out.append((f'publish of {NAMES[name]}-{_ver(spelt)} ({kind} package) added {[_short(f) for f in new]}: not exactly '
                        f'the package pushed (not in it: {extra}; missing or with other bytes: {lacking})',
                        'publish-wrong-content'))
    else:
        _, proj, spelt, ordinal, states = step
        vidx = _rank(spelt)
        old = sorted(k[2] for k in gb if k[:2] == (proj, vidx))
        number = (old[-1] + 1) if old else 1
        newgens = [f for f in new if f[0] == 'gen']
        if len(newgens) != 1 or newgens[0][1:4] != [proj, vidx, number]:
            listed = [f[3] for f in spellings if f[1:3] == [proj, vidx]]
            if not newgens and listed and listed[0] != _ver(spelt):
                out.append((f'training of release {_ver(spelt)} of {NAMES[proj]} (listed, spelt {listed[0]}: the same PEP 440 '
                            f'version) succeeded but a fresh reader finds no new generation', 'training-lost-version-spelling'))
            else:
                out.append((f'training of {proj}/{vidx} (generations {old}) added {[f[1:4] for f in newgens]}',
                            'generation-numbering'))
        else:
            tag = newgens[0][4]
            got = [f[5] for f in new if f[0] == 'state']
            sids = tag[2] if isinstance(tag, list) else None
            order = [sa.get((proj, vidx, number, s)) for s in (sids or [])]
            if not isinstance(tag, list) or tag[1] != ordinal or len(sids) != len(states) \
                    or order != [['file', list(s)] for s in states] or len(got) != len(states):
                out.append((f'generation {proj}/{vidx}/{number} does not hold the run\'s states in order', 'generation-content'))
        if any(f[0] not in ('gen', 'state') for f in new):
            out.append(('training changed a release', 'training-changed-release'))
    return out


def oracle_crash(before, after, crashed_view) -> list:
    out = list(corrupt_items(crashed_view))
    if not out and crashed_view != before and crashed_view != after:
        diff = [_short(f) for f in crashed_view if f not in before and f not in after] \
            or [_short(f) for f in before if f not in crashed_view]
        out.append((f'crashed view is neither the previous nor the complete new one ({diff[:2]})', 'crash-neither-old-nor-new'))
    return out


def _short(f):
    """a fact without its payload (for messages)"""
    return f[:3] if f[0] == 'rel' else f[:4]


def _strip(view):
    """the part of a real view that the model's reader enumerates"""
    return [f[:4] if f[0] == 'rel' else f for f in view if not f[0].startswith('latest')]


# ---------------------------------------------------------------------------------------------------------------
class C05(fw.Check):
    ID = 'C05'
    LEAN_MODULES = ['ForML.Props.C05']
    DRIVER = 'drv_c05'
    RULE = ('histories of publish(dirProject, name, version, file|tree package) / train(project, release, 0..3 states) '
            'over 3 project names x 8 PEP 440 versions: corpus, random (length 2..7, mostly valid: increasing versions, '
            'existing releases; a malformed share: lower/equal versions, unknown projects/releases, name mismatch), '
            'crash-recovery histories (corpus + random: up to 3 steps are first killed at a random micro-operation, possibly '
            'inside a write, on the live tree and mostly retried), and in thorough every history of <= 4 steps over 2 projects '
            'x 2 releases. Every plain step is re-run from the snapshot before it with a process death after each completed '
            'micro-operation and half-way through each write (in the exhaustive set: the last step of each history — the '
            'other steps are the last steps of its prefixes, which are in the set). One case = one (history prefix, crash point) / one step / one '
            'process death inside a history / one long-lived-reader read; distinct by (history prefix, step index, k, cut); '
            'non-trivial when the step performs at least one micro-operation. Oracle on the real views: append-only, gap-free, '
            'monotonic, implicit keys = highest listed, crashed view = previous or complete new view, nothing listed unreadable, '
            'long-lived reader = fresh reader. Several writers (props/c05h.py): histories of open / publish / begin / dump / commit / '
            'look / die events over handles (object chains created once) living in up to 4 real forked processes, 1-2 projects: 9 '
            'hand-written interleavings + random ones (activities of long-lived and fresh handles merged at event granularity, '
            'up to 2 process deaths) + all 154 interleavings of two writers\' trainings (thorough; 12 sampled in quick); every crash point of every commit and publish (thorough: every writing event) of the corpus '
            'and the first random ones, explored on a forked copy of the process about to perform it; the same interleavings on '
            'one shared volatile registry. One case = one event of one history prefix / one explored crash point; non-trivial '
            'when it performs a micro-operation or reads. Oracle: a successful commit through any handle adds exactly one '
            'generation to the release the handle addresses, numbered one above what a fresh reader saw right before, holding the '
            'bytes dumped through that handle since begin; nothing else changes; look = the fresh reader\'s tag of a generation '
            'the handle can be bound to. Transient I/O faults: every step of the corpus / recovery corpus / first random '
            'histories re-run with an OSError (EMFILE, EACCES, EIO, ESTALE; ENOENT where true) raised once at up to 20 (thorough '
            '36) evenly spread file-system calls (reads included); fault items inside recovery and handle histories; one case = '
            'one (history prefix, call index, errno). Oracle: raised -> view unchanged; succeeded -> exactly the undisturbed '
            'effect. Packages: file / tree / rebuilt tree (same version, other members and bytes).')
    TRUSTED = [
        'POSIX semantics assumed by the model: rename atomic, a created directory entry is visible, write may stop after '
        'any prefix; process death only (no fsync in the code: power loss is not claimed)',
        'Tag.dumps / Tag.loads bytes are abstracted by a prefix-free code in the model (real TOML: C18); the half-way cut of '
        'the real tag write is at len/2',
        'package content is opaque bytes; "readable" on the real side = Registry.pull returns a package with the listed '
        'name and version',
        'crash injection = BaseException raised from wrapped os.mkdir/os.rename/os.replace/os.unlink/os.rmdir/io.open/'
        'file.write/shutil.copyfile/shutil.rmtree (copystat and other metadata calls are not micro-operations of the model; '
        'rmtree of a leftover temporary tree is one step); the raw directory tree after every step and every crash is '
        'compared with the model tree, so a file-system effect that bypasses the recorder is seen (not injected)',
    ]
    TRUSTED.append(
        'versions are modelled by their PEP 440 rank: all spellings of one version (1.0 / 1.0.0) are one release, as Level.key '
        'treats them; project names are plain strings (spelling variants are different projects); every history step runs '
        'like a fresh process (tag / state / artifact caches and the memoised posix.Path lookups are cleared), the '
        'long-lived reader pass keeps them')
    TRUSTED.append(
        'several writers: a process of the model is a real forked interpreter (its caches are its own); a process death is a '
        'BaseException raised inside it followed by its exit; the fresh reader is a newly forked process per distinct tree (the '
        'view is a function of the raw tree, which is read directly); crash points of an operation are explored on a forked copy '
        'of the process (same handles, same caches) with the tree restored afterwards')
    TRUSTED.append(
        'transient faults are raised from the wrapped os / io / shutil entry points only (copystat internals and descriptor '
        'level I/O are not fault points); a fault inside rmtree(ignore_errors=True) is emulated as "swallowed, nothing removed"; '
        'legitimately absorbed faults (mkdir of an existing directory, os.path predicates of the standard library, a truthful '
        'ENOENT) are recognised by a harness rule')
    ASSUMPTIONS = ['writers interleave at the granularity of registry calls (any number of handles / processes); two writers racing '
                   'between the listing and the rename of one commit are not modelled (the property quantifies over histories)',
                   'uuid4 state ids are fresh (in the harness: a counter per process, disjoint ranges)']

    # ---- generation --------------------------------------------------------------------------------------------
    def _corpus(self):
        s1, s2 = [[1, 2, 3]], [[4], [5, 6]]
        return [
            [['publish', 0, 0, 1, 'file'], ['train', 0, 1, 1, s2], ['train', 0, 1, 2, s1]],
            [['publish', 0, 0, 1, 'dir'], ['train', 0, 1, 1, s1], ['publish', 0, 0, 3, 'dir'], ['train', 0, 3, 2, s2]],
            # two projects, two releases, three trainings (the non-vacuity history of Props/C05.lean)
            [['publish', 0, 0, 2, 'file'], ['publish', 1, 1, 1, 'file'], ['train', 0, 2, 1, s1],
             ['publish', 0, 0, 3, 'file'], ['train', 0, 3, 2, s2], ['train', 0, 2, 3, s1]],
            [['publish', 0, 0, 3, 'file'], ['publish', 0, 0, 2, 'file'], ['publish', 0, 0, 3, 'dir']],  # '0.10' > '0.9'
            [['train', 0, 1, 1, s1], ['publish', 0, 0, 1, 'file'], ['train', 0, 2, 1, s1], ['train', 1, 1, 1, s1]],
            [['publish', 0, 0, 1, 'file'], ['train', 0, 1, 1, []], ['train', 0, 1, 2, []]],
            [['publish', 0, 0, 4, 'file'], ['publish', 0, 1, 5, 'file']],  # name mismatch on a listed project
            [['publish', 0, 0, 3, 'file'], ['publish', 2, 0, 1, 'file']],  # older release through an unlisted project key
            # project keys that are spelling variants (PEP 503) of the manifest name: a lower / an equal version of my-proj
            # addressed as my_proj / My.Proj
            [['publish', 3, 3, 8, 'file'], ['publish', 4, 3, 5, 'file'], ['publish', 5, 3, 8, 'dir'], ['publish', 3, 3, 9, 'file']],
            [['publish', 3, 3, 5, 'dir'], ['train', 3, 5, 1, s1], ['publish', 5, 3, 5, 'file'], ['train', 4, 5, 2, s1]],
            # spellings of one version: 1.0.0 == 1.0 == 1.0.0.0 (refused as not greater; trainings address the same release),
            # local version above, epoch above everything, nothing below accepted afterwards
            [['publish', 0, 0, '1.0.0', 'file'], ['train', 0, 5, 1, s1], ['publish', 0, 0, 5, 'file'],
             ['train', 0, '1.0.0.0', 2, s2], ['train', 0, '1.0.0', 3, s1]],
            [['publish', 0, 0, 5, 'file'], ['publish', 0, 0, '1.0.0', 'dir'], ['publish', 0, 0, 6, 'file'],
             ['publish', 0, 0, '1!0.1.0', 'file'], ['publish', 0, 0, 8, 'file'], ['train', 0, 9, 1, s1]],
            [['publish', 1, 1, '2.0', 'dir'], ['train', 1, 8, 1, s2], ['train', 1, '2.0.0', 2, []], ['publish', 1, 1, 8, 'file']],
        ]

    def _spell(self, rank: int, share: float):
        """the rank itself (canonical text) or, with probability `share`, another spelling of the same version"""
        alts = [t for t, r in sorted(ALT.items()) if r == rank]
        return self.rng.choice(alts) if alts and self.rng.random() < share else rank

    def _random_history(self):
        rng = self.rng
        length = rng.randint(2, 7)
        known: dict = {}  # project -> ranks published (believed)
        hist = []
        for _ in range(length):
            if not known or rng.random() < 0.35:
                name = rng.choice([0, 0, 1, 2, 3, 3, 4, 4])
                have = known.get(name, [])
                if name in VARIANTS and rng.random() < 0.35:
                    dproj = rng.choice([v for v in VARIANTS if v != name])  # a spelling variant of the manifest name
                else:
                    dproj = name if rng.random() < 0.93 else rng.choice([0, 1, 2])
                # mostly a greater version through the package's own key; through a foreign key (to be refused whatever
                # the version) mostly a version that is not greater than what the project already has
                if rng.random() < (0.8 if dproj == name else 0.35):
                    cand = [v for v in range(len(VERSIONS)) if not have or v > max(have)]
                    vidx = rng.choice(cand) if cand else rng.randrange(len(VERSIONS))
                else:
                    vidx = rng.choice(have) if have and rng.random() < 0.5 else rng.randrange(len(VERSIONS))
                kind = rng.choice(['file', 'file', 'dir', 'dir2'])
                hist.append(['publish', dproj, name, self._spell(vidx, 0.25), kind])
                if dproj == name and (not have or vidx > max(have)):
                    known.setdefault(name, []).append(vidx)
            else:
                if rng.random() < 0.9:
                    proj = rng.choice(list(known))
                    vidx = rng.choice(known[proj])
                else:
                    proj, vidx = rng.choice([0, 1, 2, 3, 4, 5]), rng.randrange(len(VERSIONS))
                nstates = rng.choice([0, 1, 1, 2, 2, 3])
                states = [[rng.randrange(256) for _ in range(rng.randint(1, 5))] for _ in range(nstates)]
                hist.append(['train', proj, self._spell(vidx, 0.25), len(hist) + 1, states])
        return hist

    def _random_foreign_key_history(self):
        """the malformed stream around `Project.put`: a project with a release, then packages of that project (lower,
        equal, greater versions, other spellings) put through other project keys — spelling variants of the name, other
        names, listed or not — and through its own"""
        rng = self.rng
        name = rng.choice([0, 3, 3, 4, 5])
        others = [v for v in VARIANTS if v != name] if name in VARIANTS else [1, 2, 3]
        top = rng.randrange(2, len(VERSIONS))
        hist = [['publish', name, name, self._spell(top, 0.2), rng.choice(['file', 'dir'])]]
        if rng.random() < 0.5:
            hist.append(['train', name, self._spell(top, 0.2), 1, [[rng.randrange(256)]]])
        if rng.random() < 0.4:  # the foreign key is itself a listed project
            other = rng.choice(others)
            hist.append(['publish', other, other, rng.randrange(len(VERSIONS)), 'file'])
        for _ in range(rng.randint(1, 3)):
            key = rng.choice(others + others + [name])
            vidx = rng.choice([rng.randrange(0, top + 1), top, rng.randrange(len(VERSIONS))])
            hist.append(['publish', key, name, self._spell(vidx, 0.2), rng.choice(['file', 'file', 'dir'])])
        if rng.random() < 0.5:
            hist.append(['train', name, top, 9, [[1], [2, 3]]])
        return hist

    def _random_recovery_history(self):
        """a random history in which some steps are first killed at a random micro-operation (possibly inside a write)
        and then — mostly — retried by a new process"""
        rng = self.rng
        out, ncrash = [], 0
        first: dict = {}
        base = []
        for step in self._random_history():  # the model has one directory per version: keep one spelling per (project, version)
            i = 3 if step[0] == 'publish' else 2
            proj = step[2] if step[0] == 'publish' else step[1]
            step = list(step)
            step[i] = first.setdefault((proj, _rank(step[i])), step[i])
            base.append(step)
        for step in base:
            roll = rng.random()
            if ncrash < 3 and roll < 0.4:
                out.append(['crash', step, rng.random(), rng.random() < 0.3])
                ncrash += 1
                if rng.random() < 0.25:
                    continue  # never retried
                if step[0] == 'publish' and rng.random() < 0.5:  # the retry is a REBUILD: same version, other content
                    step = step[:4] + [rng.choice([k for k in KINDS if k != step[4]])]
            elif ncrash < 3 and roll < 0.55:  # a transient I/O fault: the process lives on and (mostly) tries again
                out.append(['fault', step, rng.random(), rng.randrange(len(FAULT_ERRNOS))])
                ncrash += 1
                if rng.random() < 0.25:
                    continue
            out.append(step)
        if ncrash == 0:
            out.insert(len(out) - 1, ['crash', out[-1], rng.random(), False])
        return out

    def _recovery_corpus(self):
        s1, s2 = [[1, 2, 3]], [[4], [5, 6]]
        pf, pd = ['publish', 0, 0, 1, 'file'], ['publish', 0, 0, 1, 'dir']
        pd2 = ['publish', 0, 0, 1, 'dir2']
        t1, t2 = ['train', 0, 1, 1, s1], ['train', 0, 1, 2, s2]
        return [
            # a tree publish killed while / after copying, then the REBUILT package of the same (never released) version:
            # the listed package must be exactly the second one (no member of the dead attempt survives)
            [['crash', pd, 7, False], pd2, ['train', 0, 1, 1, s1]],
            [['crash', pd, 5, True], pd2],
            [['crash', pd2, 8, False], pd, ['crash', ['publish', 0, 0, 3, 'dir2'], 6, False], ['publish', 0, 0, 3, 'dir']],
            # transient I/O faults: in the listing scan right before a commit / a publish decision, in the moves, in the
            # tag write, in a member copy (copytree goes on with the other members), in rmtree (swallowed); the process
            # tries again
            [pf, t1, ['fault', t2, 0.5, 0], t2, ['fault', ['train', 0, 1, 3, s1], 0.55, 2], ['train', 0, 1, 3, s1]],
            [pf, t1, ['fault', ['publish', 0, 0, 0, 'file'], 0.4, 1], ['fault', ['publish', 0, 0, 3, 'dir'], 0.8, 3], pd2],
            [['fault', pd, 0.7, 2], pd2, ['fault', t1, 0.9, 0], ['fault', t1, 0.97, 1], t1],
            [['crash', pd, 6, False], ['fault', pd2, 0.35, 2], pd2, t1, ['fault', t2, 0.62, 3], t2],
            # a directory publish killed while copying, retried (rmtree of the leftover), then as a file package
            [['crash', pd, 4, False], pd, ['train', 0, 1, 1, s1]],
            [['crash', pd, 5, True], ['publish', 0, 0, 1, 'file']],
            # a file publish killed inside the write; the leftover temporary *file* makes a directory retry fail
            [['crash', pf, 3, True], pd, pf, ['train', 0, 1, 1, s2]],
            # a training killed after one of two states was moved / after the tag was staged; the number is reused
            [pf, ['train', 0, 1, 1, s1], ['crash', ['train', 0, 1, 2, s2], 6, False], ['train', 0, 1, 3, s2], ['train', 0, 1, 4, s1]],
            [pf, ['crash', ['train', 0, 1, 1, s2], 9, True], ['crash', ['train', 0, 1, 2, s2], 2, False], ['train', 0, 1, 3, s1]],
            # killed right before the last rename of a commit / of a publish
            [pf, ['crash', ['train', 0, 1, 1, s1], 6, False], ['train', 0, 1, 2, []], ['train', 0, 1, 3, s1]],
            [['crash', pf, 4, False], ['publish', 0, 0, 2, 'file'], pf],
        ]

    def _exhaustive(self, maxlen: int):
        alphabet = [['publish', p, p, v, 'file'] for p in (0, 1) for v in (1, 2)] + \
                   [['train', p, v, 0, [[7, 8]]] for p in (0, 1) for v in (1, 2)]
        for n in range(1, maxlen + 1):
            for combo in itertools.product(alphabet, repeat=n):
                yield [list(s[:3]) + [i + 1] + [s[4]] if s[0] == 'train' else list(s) for i, s in enumerate(combo)]

    # ---- model side --------------------------------------------------------------------------------------------
    @staticmethod
    def _model_events(events, sid_start):
        """state ids: the real code draws uuid4 (here: a counter) per dump it reaches; the model is given the same ids"""
        def one(s, sid):
            if s[0] == 'publish':
                return ['publish', s[1], s[2], _rank(s[3]), _package(NAMES[s[2]], s[3], s[4])[1]]
            return ['train', s[1], _rank(s[2]), s[3], [[sid + j, list(b)] for j, b in enumerate(s[4])]]

        out = []
        for ev, sid in zip(events, sid_start):
            if ev[0] == 'fault':
                out.append(['fault', one(ev[1], sid), ev[2]])
            elif ev[0] == 'crash':
                out.append(['crash', one(ev[1], sid), ev[2], 'none' if not ev[3] else ev[4]])
            else:
                out.append(one(ev, sid))
        return out

    @staticmethod
    def _model_tree(entries):
        """model raw tree -> same canonical form as _read_tree (tag bytes of the abstract code decoded)"""
        out = []
        for path, node in entries:
            if path[-1] in ('tag', 'tagtmp') and node != 'dir':
                b = node[1]
                node = ['tag', b[1], b[2:]] if len(b) >= 2 and b[0] == len(b) - 1 else ['tag', 'unparsable']
            out.append([path, node])
        return sorted(out, key=repr)

    @staticmethod
    def _model_calls(outcome):
        """model outcome sexp -> (kind, [[op...]...]) with copy expanded and tag payloads decoded."""
        kind = 'ok' if outcome[0] == 'ok' else outcome[1]
        calls = []
        for call in outcome[-1]:
            ops = []
            for op in call:
                if op[0] == 'copy':
                    ops.append(['create', op[1]])
                    ops.append(['append', op[1], op[2]])
                elif op[0] == 'append' and op[1][-1] in ('tag', 'tagtmp'):
                    ops.append(['append', op[1], ['tag', op[2][1], op[2][2:]]])
                else:
                    ops.append(op)
            calls.append(ops)
        return kind, calls

    def _detect_impl(self) -> tuple:
        """Which of the two modelled variants of each mechanism the tree under test implements (the model follows the
        code that exists; a mixture that matches neither shows up as a divergence)."""
        res = run_history([['publish', 0, 0, 1, 'file'], ['train', 0, 1, 1, [[1, 2]]], ['publish', 2, 1, 1, 'file']],
                          crash_points=False)
        flat = [op for step in res['traces'] for call in step for op in call]
        staged = any(op[0] == 'rename' and op[2][-1] in ('tag', 'pkg') for op in flat)
        key_first = res['outcomes'][2] == 'mismatch'
        return staged, key_first

    def _compare(self, results, impl):
        """model vs real for a batch of base-run results."""
        lines, index = [], []
        tag = sexp.dumps(['impl', bool(impl[0]), bool(impl[1])])
        for r in results:
            evs = self._model_events(r['events'], r['sid_start'])
            enc = sexp.dumps(evs)
            lines.append(f'(run {tag} {enc} none)')
            index.append((r, 'full', None))
            for kd in r['killed']:  # the tree right after a process death inside the history
                lines.append(f'(run {tag} {sexp.dumps(evs[:kd["i"] + 1])} none)')
                index.append((r, 'killed', kd))
            for c in r['crashes']:
                cut = 'none' if not c['cut'] else str(c['model_cut'])
                lines.append(f'(run {tag} {enc} ({c["i"]} {c["k"]} {cut}))')
                index.append((r, 'crash', c))
            for f in r.get('faults', []):
                if f['outcome'] == 'ok':  # absorbed: the plain step (compared below without the model)
                    continue
                lines.append(f'(frun {tag} {enc} ({f["i"]} {f["done"]}))')
                index.append((r, 'fault', f))
        answers = self.model(lines)
        for r in results:
            for f in r.get('faults', []):
                at = {'history': r['concrete'][: f['i'] + 1], 'fault': [f['i'], f['index'], f['e']]}
                if f['outcome'] == 'ok':
                    if not f['lenient']:
                        self.diverge(f'transient {f["errno"]} at a {f["kind"]} call was swallowed', at, 'ok', 'raises')
                    elif f['view'] != r['views'][f['i'] + 1] or f['tree'] != r['trees'][f['i'] + 1]:
                        self.diverge(f'an absorbed {f["errno"]} at a {f["kind"]} call changed the result of the step', at,
                                     None, None)
        for (r, kind, c), ans in zip(index, answers):
            m = sexp.num(sexp.loads(ans))
            hist = r['concrete']
            if m == 'bad-op' or m[0] != 'ok':
                self.diverge('model rejected the request', {'history': hist}, None, m)
                continue
            mview = sorted(m[2], key=repr)
            mtree = self._model_tree(m[4])
            where = {'history': hist, 'crash': [c['i'], c['k'], c['cut']] if kind == 'crash' else None}
            if kind == 'fault':
                where = {'history': hist[: c['i'] + 1], 'fault': [c['i'], c['index'], c['e']]}
            if m[3] != 'true':
                self.diverge('model tree is not well formed (Fs.WF)', where, None, m[3])
            if kind == 'full':
                for i, (mo, outcome, trace) in enumerate(zip(m[1], r['outcomes'], r['traces'])):
                    if outcome in ('crashed', 'faulted') or mo in ('crashed', 'faulted'):
                        if outcome != mo:
                            self.diverge('event kind', {'history': hist, 'step': i}, outcome, mo)
                        continue
                    mkind, mcalls = self._model_calls(mo)
                    if mkind != outcome:
                        self.diverge('step outcome', {'history': hist, 'step': i}, outcome, mkind)
                    elif mcalls != trace:
                        self.diverge('micro-operation trace', {'history': hist, 'step': i}, trace, mcalls)
                rview, rtree, what = r['views'][-1], r['trees'][-1], 'after the history'
            elif kind == 'killed':
                rview, rtree, what = r['views'][c['i'] + 1], r['trees'][c['i'] + 1], 'after a process death inside the history'
            elif kind == 'fault':
                rview, rtree, what = c['view'], c['tree'], f'after a transient {c["errno"]} at a {c["kind"]} call'
            else:
                rview, rtree, what = c['view'], c['tree'], 'after a crash'
            if mview != sorted(_strip(rview), key=repr):
                self.diverge('reader view ' + what, where, _strip(rview), mview)
            elif mtree != rtree:
                diff = [e for e in rtree if e not in mtree][:3] + [e for e in mtree if e not in rtree][:3]
                self.diverge('raw directory tree ' + what, where, diff, None)

    def _judge(self, r):
        """oracle on one base-run result; accounts the cases."""
        hist = r['events']
        conc = r.get('concrete') or [e[:4] if e[0] == 'crash' else e for e in hist]
        killed = {kd['i']: kd for kd in r['killed']}
        for i, ev in enumerate(hist):
            before, after = r['views'][i], r['views'][i + 1]
            wit = conc[: i + 1]
            if i in r.get('faulted', {}):
                fd = r['faulted'][i]
                self.case(('faulted', repr(wit)), f'transient I/O fault inside the history ({fd["step"][0]}, {fd["kind"]} call), '
                          f'history goes on', nontrivial=True, sample={'history': wit})
                for what, sig in self._judge_fault(fd, fd['step'], before, after):
                    self.violate(what, {'history': wit, 'crash': None}, sig)
                continue
            if ev[0] == 'crash':
                kd = killed[i]
                self.case(('killed', repr(wit)), f'process death inside the history ({ev[1][0]}), history goes on', nontrivial=True,
                          sample={'history': wit})
                if not kd['crashed']:
                    self.diverge('crash point not reached', {'history': wit}, kd['completed'], None)
                for what, sig in oracle_crash(before, kd['complete_view'], after):
                    self.violate(f'process death in {ev[1][0]} after {ev[2]} micro-operations'
                                 + (' (half-way through the write)' if ev[3] else '') + f': {what}',
                                 {'history': wit, 'crash': None}, sig)
                continue
            step = ev
            natoms = sum(len(c) for c in r['traces'][i])
            shape = f'{step[0]}' + (f'-{step[4]}' if step[0] == 'publish' else f'-{len(step[4])}st') + f' -> {r["outcomes"][i]}'
            self.case(('step', repr(wit)), shape, nontrivial=natoms > 0,
                      sample={'history': wit, 'outcome': r['outcomes'][i], 'micro_ops': natoms})
            for what, sig in oracle_step(step, r['outcomes'][i], before, after):
                self.violate(what, {'history': wit, 'crash': None}, sig)
        for f in r.get('faults', []):
            i = f['i']
            wit = conc[: i + 1]
            self.case(('fault', repr(wit), f['index'], f['e']), f'transient {f["errno"]} at a {f["kind"]} call of {hist[i][0]}',
                      nontrivial=True)
            for what, sig in self._judge_fault(f, hist[i], r['views'][i], f['view']):
                self.violate(what, {'history': wit, 'crash': None, 'fault': [i, f['index'], f['e']]}, sig)
        for c in r['crashes']:
            i = c['i']
            wit = conc[: i + 1]
            self.case(('crash', repr(wit), c['k'], c['cut']),
                      f'crash in {hist[i][0]} ' + ('inside a write' if c['cut'] else 'between operations'), nontrivial=True)
            if not c['crashed']:
                self.diverge('crash point not reached', {'history': wit, 'crash': [i, c['k'], c['cut']]}, c['completed'], None)
            for what, sig in oracle_crash(r['views'][i], r['views'][i + 1], c['view']):
                op = r['traces'][i]
                flat = [o for call in op for o in call]
                at = flat[c['k']] if c['k'] < len(flat) else None
                self.violate(f'process death in {hist[i][0]} after {c["k"]} micro-operations'
                             + (' (half-way through the write)' if c['cut'] else '') + f': {what}',
                             {'history': wit, 'crash': [i, c['k'], c['cut']]}, sig,
                             {'next_operation': at})
        if 'long_lived' in r:
            plain = [v for v, o in zip(r['views'][1:], r['outcomes']) if o != 'crashed']
            if not any(e[0] in ('crash', 'fault') for e in hist):
                for n, (fresh, cached) in enumerate(zip([r['views'][0]] + plain, r['long_lived'])):
                    self.case(('long-lived', repr(hist[:n])), 'long-lived reader (caches never cleared)', nontrivial=n > 0)
                    if fresh != cached:
                        diff = [_short(f) for f in cached if f not in fresh] or [_short(f) for f in fresh if f not in cached]
                        self.violate(f'a long-lived reader (cached tags / states) sees {diff[:2]} differently from a fresh reader',
                                     {'history': hist[:n], 'crash': None, 'reader': 'long-lived'}, 'long-lived-reader-stale')

    @staticmethod
    def _judge_fault(f, step, before, after) -> list:
        """the contract of a transient I/O fault: the step fails visibly and changes nothing a reader can see, or it
        succeeds with exactly the effect of the undisturbed step — never a renumbered / overwritten / wrongly accepted item"""
        head = f'transient {f["errno"]} at file-system call {f["index"]} ({f["kind"]}, after {f["done"]} micro-operations) of {step[0]}: '
        out = [(head + what, sig) for what, sig in corrupt_items(after)]
        if f['outcome'] != 'ok':
            pb = [x for x in before if not x[0].startswith('latest')]
            pa = [x for x in after if not x[0].startswith('latest')]
            diff = [_short(x) for x in pa if x not in pb] or [_short(x) for x in pb if x not in pa]
            if diff:
                out.append((head + f'the step raised ({f["outcome"]}) but {diff[:2]} changed for a reader', 'fault-changed-view'))
        else:
            out += [(head + 'the step reported success, but ' + what, sig) for what, sig in oracle_step(step, 'ok', before, after)]
        return out

    def _run_batch(self, histories, pool, mode=True):
        jobs = [(h, mode) for h in histories]
        results = list(pool.imap(_worker, jobs, chunksize=4)) if pool else [_worker(j) for j in jobs]
        for r in results:
            if 'machinery' in r:
                raise fw.MachineryError(f'harness failed on {r["history"]}: {r["machinery"]}')
        return results

    # ---- volatile registry -----------------------------------------------------------------------------------
    @staticmethod
    def _volatile_view(directory):
        _clear_caches()
        facts = []
        for pkey in directory.list():
            for rkey in directory.get(pkey).list():
                release = directory.get(pkey).get(rkey)
                p, v = NAMES.index(pkey), _rank(str(rkey))
                facts.append(['rel', p, v, 'memory', 'ok'])
                for gkey in release.list():
                    generation = release.get(gkey)
                    try:
                        tag = generation.tag
                    except Exception:  # pylint: disable=broad-except
                        facts.append(['gen', p, v, int(gkey), 'corrupt'])
                        continue
                    facts.append(['gen', p, v, int(gkey), ['ok', tag.training.ordinal, [s.int for s in tag.states]]])
                    for sid in tag.states:
                        blob = generation.get(sid)
                        facts.append(['state', p, v, int(gkey), sid.int, ['file', list(blob)] if blob else 'missing'])
        return sorted(facts, key=repr)

    def _volatile(self, histories, impl):
        """the volatile registry (listing in memory, generations in a temporary directory) under the same histories:
        step oracle on the real views; outcome, micro-operation trace of every step, final view and raw temporary
        directory against the model (ForML.Model.RegistryVolatile)"""
        from forml.io import asset
        from forml.provider.registry.filesystem import posix, volatile

        runs = []
        for hist in histories:
            hist = [s if s[0] == 'train' else s[:4] + ['file'] for s in hist if s[0] not in ('crash', 'fault')]
            registry = volatile.Registry()
            root = str(registry._path)  # pylint: disable=protected-access
            directory = asset.Directory(registry)
            before = self._volatile_view(directory)
            saved_uuid4, uuids = uuid.uuid4, _Uuids(0)
            saved = {m: getattr(posix.Registry, m) for m in ('write', 'close')}
            outcomes, traces, sid_start = [], [], []
            try:
                uuid.uuid4 = uuids
                for i, step in enumerate(hist):
                    outcome = 'ok'
                    rec = Recorder(root)
                    sid_start.append(uuids.next)

                    def wrap(method, rec=rec):
                        orig = saved[method]

                        def wrapper(self_, *a, **k):
                            rec.begin(method)
                            return orig(self_, *a, **k)

                        return wrapper

                    try:
                        for m in saved:
                            setattr(posix.Registry, m, wrap(m))
                        with rec:
                            try:
                                if step[0] == 'publish':
                                    directory.get(NAMES[step[1]]).put(_package(NAMES[step[2]], step[3], 'file')[0])
                                else:
                                    generation = directory.get(NAMES[step[1]]).get(_ver(step[2])).get(None)
                                    stamp = datetime.datetime(2020, 1, 1) + datetime.timedelta(seconds=step[3])
                                    accessor = asset.State(generation, [uuid.UUID(int=10**6 + j) for j in range(len(step[4]))],
                                                           asset.Tag(training=asset.Tag.Training(stamp, step[3])))
                                    accessor.commit([accessor.dump(bytes(s)) for s in step[4]])
                            except Exception as exc:  # pylint: disable=broad-except
                                outcome = _err(exc)
                    finally:
                        for m, f in saved.items():
                            setattr(posix.Registry, m, f)
                    outcomes.append(outcome)
                    traces.append(_canon_calls(rec.calls))
                    after = self._volatile_view(directory)
                    self.case(('volatile', repr(hist[: i + 1])), f'volatile {step[0]} -> {outcome}', nontrivial=True)
                    for what, sig in oracle_step(step, outcome, before, after):
                        if sig == 'publish-wrong-content':  # packages are not stored by the volatile registry
                            want = ['rel', step[2], _rank(step[3]), 'memory', 'ok']
                            if [f for f in after if f not in before] == [want]:
                                continue
                        self.violate('volatile registry: ' + what, {'history': hist[: i + 1], 'registry': 'volatile'},
                                     sig if sig == 'release-not-monotonic' else 'volatile-' + sig)
                    before = after
                runs.append({'history': hist, 'outcomes': outcomes, 'traces': traces, 'sid_start': sid_start,
                             'view': before, 'tree': _read_tree(root)})
            finally:
                uuid.uuid4 = saved_uuid4
        if impl is None:
            return
        # model side; one spelling per (project, version) — the model has one directory per version
        lines, kept = [], []
        tag = sexp.dumps(['impl', bool(impl[0]), bool(impl[1])])
        for r in runs:
            spelt: dict = {}
            if any(spelt.setdefault((s[2] if s[0] == 'publish' else s[1], _rank(s[3] if s[0] == 'publish' else s[2])),
                                    _ver(s[3] if s[0] == 'publish' else s[2])) != _ver(s[3] if s[0] == 'publish' else s[2])
                   for s in r['history']):
                continue
            lines.append(f'(vrun {tag} {sexp.dumps(self._model_events(r["history"], r["sid_start"]))})')
            kept.append(r)
        for r, ans in zip(kept, self.model(lines)):
            m = sexp.num(sexp.loads(ans))
            hist = r['history']
            where = {'history': hist, 'registry': 'volatile'}
            if m == 'bad-op' or m[0] != 'ok':
                self.diverge('model rejected the request', where, None, m)
                continue
            for i, (mo, outcome, trace) in enumerate(zip(m[1], r['outcomes'], r['traces'])):
                mkind, mcalls = self._model_calls(mo)
                if mkind != outcome:
                    self.diverge('volatile: step outcome', {'history': hist[: i + 1], 'registry': 'volatile'}, outcome, mkind)
                elif mcalls != trace:
                    self.diverge('volatile: micro-operation trace', {'history': hist[: i + 1], 'registry': 'volatile'}, trace, mcalls)
            mview = sorted([f + ['ok'] if f[0] == 'rel' else f for f in m[2]], key=repr)
            if mview != r['view']:
                self.diverge('volatile: reader view after the history', where, r['view'], mview)
            elif self._model_tree(m[4]) != r['tree']:
                mt = self._model_tree(m[4])
                self.diverge('volatile: raw temporary directory after the history', where,
                             [e for e in r['tree'] if e not in mt][:3] + [e for e in mt if e not in r['tree']][:3], None)
            if m[3] != 'true':
                self.diverge('volatile: model tree is not well formed (Fs.WF)', where, None, m[3])
        self.extra['volatile_histories_compared'] = len(kept)

    # ---- entry points ----------------------------------------------------------------------------------------
    def correspondence(self):
        for name in NAMES:  # before forking: the workers and the oracle must see the very same package bytes
            for text in SPELLINGS:
                for kind in KINDS:
                    _package(name, text, kind)
        impl = self._detect_impl()
        self.extra['implementation_variant'] = {'staged': impl[0], 'keyFirst': impl[1]}
        self.notes.append(f'tree under test: tag/package written {"via temporary + rename" if impl[0] else "in place"}; '
                          f'Project.put checks the project key {"first" if impl[1] else "only for listed projects"} '
                          f'(model variant Impl.mk {str(impl[0]).lower()} {str(impl[1]).lower()})')
        self._planted_divergence(impl)
        histories = self._corpus() + [self._random_history() for _ in range(self.n(48, 500))] \
            + [self._random_foreign_key_history() for _ in range(self.n(20, 300))]
        nlong = len(self._corpus()) + self.n(30, 200)  # these are also replayed by a long-lived reader
        recovery = self._recovery_corpus() + [self._random_recovery_history() for _ in range(self.n(32, 300))]
        exhaustive = [] if self.quick else list(self._exhaustive(4))
        ctx = multiprocessing.get_context('fork')
        ncrash = nkilled = 0
        with ctx.Pool(min(14, os.cpu_count() or 2)) as pool:
            # the exhaustive set contains every prefix of each of its histories: the crash points of all but the last
            # step of a history are those of its prefixes, explored there
            for batch, mode in ((histories[:nlong], 'long-lived'), (histories[nlong:], True), (recovery, True),
                                (exhaustive, 'last')):
                for start in range(0, len(batch), 400):
                    results = self._run_batch(batch[start:start + 400], pool, mode)
                    for r in results:
                        self._judge(r)
                        ncrash += len(r['crashes'])
                        nkilled += len(r['killed'])
                    self._compare(results, impl)
            # transient I/O faults: every file-system call (reads included) of every step of these histories raises once
            ftargets = self._corpus() + self._recovery_corpus() + histories[len(self._corpus()):][:self.n(3, 60)]
            fresults = self._run_batch(ftargets, pool, 'faults-quick' if self.quick else 'faults')
            for r in fresults:
                self._judge(r)
            self._compare(fresults, impl)
            self.extra['fault_points'] = sum(len(r['faults']) for r in fresults)
            self.extra['absorbed_faults'] = sum(1 for r in fresults for f in r['faults'] if f['outcome'] == 'ok')
        self.extra['histories'] = len(histories) + len(recovery) + len(exhaustive)
        self.extra['crash_recovery_histories'] = len(recovery)
        self.extra['crashed_runs'] = ncrash
        self.extra['process_deaths_inside_histories'] = nkilled
        self._handles(impl)
        self._volatile(self._corpus() + [self._random_history() for _ in range(self.n(20, 200))], impl)
        if not self.quick:
            self._fresh_process(histories[:7] + histories[7:7 + 30] + recovery[:20])
        self._shrink(0)

    def _handles(self, impl):
        """several writers: histories over long-lived and fresh handles in several (real) processes, interleaved at the
        granularity of registry calls, with process deaths; every crash point of the first ones"""
        from props import c05h

        corpus = c05h.corpus()
        every = c05h.exhaustive_interleavings()  # 84 + 70 interleavings of two writers' events: all in thorough, a sample in quick
        rnd = (every if not self.quick else self.rng.sample(every, 12)) \
            + [c05h.random_handles(self.rng) for _ in range(self.n(48, 500))]
        self.rng.shuffle(rnd)
        nfull = self.n(5, 80)  # every crash point of every commit and publish of these (thorough: also of the dumps)
        which = ('commit', 'publish') if self.quick else True
        jobs = [(h, which, None) for h in corpus + rnd[:nfull]] + [(h, False, None) for h in rnd[nfull:]]
        nposix = len(jobs)
        # the same interleavings of handles on one volatile registry (one process; step oracle on the real views)
        jobs += [(h, 'volatile', None) for h in corpus + rnd[:self.n(20, 200)]]
        ctx = multiprocessing.get_context('fork')
        with ctx.Pool(min(14, os.cpu_count() or 2)) as pool:
            results = list(pool.imap(c05h.worker, jobs, chunksize=1))
        nviol = len(self.violations)
        for r in results:
            if 'machinery' in r:
                raise fw.MachineryError(f'harness failed on {r["history"]}: {r["machinery"]}')
            c05h.judge(self, r)
        # a failing interleaving is reported by the smallest history that still fails (first witness per root cause)
        seen = set()
        for n in range(nviol, len(self.violations)):
            v = self.violations[n]
            if v.signature in seen or not isinstance(v.witness, dict) or 'handles' not in v.witness:
                continue
            seen.add(v.signature)
            small = c05h.shrink(v.witness, v.signature) if len(seen) <= 4 else None
            if small is not None and len(small[1]['handles']) < len(v.witness['handles']):
                self.violations[n] = fw.Violation(small[0], small[1], v.signature, {'shrunk_from': len(v.witness['handles'])})
        # self-test of the diff: the same real run against the other model variant must be reported as diverging
        before = len(self.divergences)
        c05h.compare(self, results[:1], (not impl[0], impl[1]))
        kinds = {d.what for d in self.divergences[before:]}
        del self.divergences[before:]
        if 'handles: micro-operation trace' not in kinds or not any('after a crash' in k for k in kinds):
            raise fw.MachineryError(f'planted model divergence not detected by the handle correspondence diff (got {sorted(kinds)})')
        self.extra['planted_handle_divergence_selftest'] = sorted(kinds)
        results, vresults = results[:nposix], results[nposix:]
        for start in range(0, len(results), 100):
            c05h.compare(self, results[start:start + 100], impl)
        self.extra['volatile_handle_histories'] = len(vresults)
        self.extra['handle_histories'] = len(results)
        self.extra['handle_events'] = sum(len(r['events']) for r in results)
        self.extra['handle_crashed_runs'] = sum(len(r['crashes']) for r in results)
        self.extra['handle_process_deaths'] = sum(len(r['died']) for r in results)

    def _planted_divergence(self, impl):
        """Self-test of the diff: the same real run compared with the *other* model variant (tag / package written in
        place resp. via a temporary) must be reported as diverging in trace and in crashed views / trees."""
        r = run_history([['publish', 0, 0, 1, 'file'], ['train', 0, 1, 1, [[4], [5, 6]]]], crash_points=True)
        before = len(self.divergences)
        self._compare([r], (not impl[0], impl[1]))
        planted = self.divergences[before:]
        del self.divergences[before:]
        kinds = {d.what for d in planted}
        if 'micro-operation trace' not in kinds or not any(k.startswith(('reader view', 'raw directory tree')) for k in kinds):
            raise fw.MachineryError(f'planted model divergence not detected by the correspondence diff (got {sorted(kinds)})')
        self.extra['planted_divergence_selftest'] = sorted(kinds)

    def _fresh_process(self, histories):
        """The reader in a fresh interpreter (no cache can survive): same view as the in-process fresh reader."""
        import json
        import subprocess
        import sys

        root = _fresh_root()
        jobs = []
        for n, hist in enumerate(histories):
            live = os.path.join(root, f'h{n}')
            os.makedirs(live)
            sid = 0
            for item in hist:
                if item[0] == 'fault':
                    continue
                if item[0] == 'crash':
                    step, where = item[1], item[2]
                    k = where if isinstance(where, int) else int(where * 6)
                    _, _, sid, _ = _do_step(live, step, sid, crash_at=k, cut=False)
                else:
                    _, _, sid, _ = _do_step(live, item, sid)
            jobs.append((live, _read_view(live)))
        code = ('import sys, json, logging; logging.disable(logging.CRITICAL); sys.path.insert(0, sys.argv[1]);'
                'sys.path.insert(0, sys.argv[2]); from props import c05;'
                'print(json.dumps([c05._read_view(r) for r in sys.argv[3:]]))')
        out = subprocess.run([sys.executable, '-W', 'ignore', '-c', code, fw.REPO, os.path.join(fw.VERIF, 'harness')]
                             + [j[0] for j in jobs], capture_output=True, text=True, timeout=600, check=False,
                             cwd=_BASE)  # forml drops an (empty) `<script>.log` into the working directory
        if out.returncode != 0:
            raise fw.MachineryError('fresh-process reader failed: ' + out.stderr[-800:])
        views = json.loads(out.stdout.strip().splitlines()[-1])
        for (live, mine), theirs, hist in zip(jobs, views, histories):
            self.case(('fresh-process', repr(hist)), 'fresh-process reader', nontrivial=True)
            if mine != theirs:
                self.violate('a fresh process reads a different view than the in-process fresh reader',
                             {'history': hist, 'crash': None}, 'fresh-process-view-differs')
        shutil.rmtree(root, ignore_errors=True)

    def search(self, reason):
        # widen around the diverging histories (volatile ones are judged by their own oracle): their prefixes and
        # single-item variations — a crash dropped; a publish as each other kind of package, in particular the REBUILT
        # content after a killed publish of the same version; a killed / faulted attempt inserted before a publish or a
        # training; one more state — each with every crash point and every fault point, oracle on the real code
        seeds = []
        for d in self.divergences:
            if isinstance(d.case, dict) and 'history' in d.case and d.case.get('registry') != 'volatile' \
                    and d.case['history'] not in seeds:
                seeds.append(d.case['history'])
        seeds.sort(key=len)
        tried, before = 0, len(self.violations)
        for hist in seeds[:10]:
            variants = [hist[:n] for n in range(1, len(hist) + 1)]
            for i, s in enumerate(hist):
                if s[0] in ('crash', 'fault'):
                    variants.append(hist[:i] + hist[i + 1:])
                    inner = s[1]
                    if inner[0] == 'publish':  # the next attempt carries other content
                        for kind in KINDS:
                            if kind != inner[4]:
                                variants.append(hist[: i + 1] + [inner[:4] + [kind]] + hist[i + 1:])
                elif s[0] == 'publish':
                    for kind in KINDS:
                        if kind != s[4]:
                            variants.append(hist[:i] + [s[:4] + [kind]] + hist[i + 1:])
                            variants.append(hist[:i] + [['crash', s[:4] + [kind], 0.8, False], s] + hist[i + 1:])
                else:
                    variants.append(hist[:i] + [s[:4] + [s[4] + [[9, 9, 9]]]] + hist[i + 1:])
                    variants.append(hist[:i] + [['fault', s, 0.5, i % len(FAULT_ERRNOS)], s] + hist[i + 1:])
            seen = set()
            for v in variants:
                if repr(v) in seen:
                    continue
                seen.add(repr(v))
                for mode in (True, 'faults'):
                    r = _worker((v, mode))
                    if 'machinery' in r:
                        continue
                    tried += 1
                    self._judge(r)
            if len(self.violations) > before and tried > 60:
                break
        self._shrink(before)
        # handle histories: every crash point of every writing event of the diverging interleavings, their prefixes, the
        # same events with every handle in one process, and on the volatile registry
        from props import c05h

        hseeds = []
        for d in self.divergences:
            if isinstance(d.case, dict) and 'handles' in d.case and d.case['handles'] not in hseeds:
                hseeds.append(d.case['handles'])
        htried = 0
        for hist in hseeds[:8]:
            one_proc = [e[:2] + [0] + e[3:] if e[0] == 'open' else e for e in hist]
            for variant, mode in ((hist, True), (one_proc, False), (hist, 'volatile')):
                r = c05h.worker((variant, mode, None))
                if 'machinery' in r:
                    continue
                htried += 1
                c05h.judge(self, r)
        self.notes.append(f'failing-input search ({reason}): {tried} neighbouring histories x all crash points, '
                          f'{htried} handle interleavings')

    def _shrink(self, start: int) -> None:
        """every violation found from index `start` on with a plain-history witness (first per root cause) is replaced by
        the smallest history that still fails with the same signature: items dropped one at a time, last first"""
        seen = set()
        for n in range(start, len(self.violations)):
            v = self.violations[n]
            w = v.witness
            if v.signature in seen or not isinstance(w, dict) or 'history' not in w or w.get('registry') or w.get('reader'):
                continue
            seen.add(v.signature)
            if len(seen) > 4:
                break
            best, what, budget = list(w['history']), None, 30
            extra = {k: w[k] for k in ('crash', 'fault') if w.get(k)}
            i = len(best) - 2
            while i >= 0 and budget > 0:
                cand = best[:i] + best[i + 1:]
                shift = dict(extra)
                for k in shift:  # the crash / fault point refers to the last item
                    shift[k] = [len(cand) - 1] + list(shift[k][1:])
                budget -= 1
                try:
                    found = [x for x in self._replay(dict(shift, history=cand)) if x.signature == v.signature]
                except Exception:  # pylint: disable=broad-except
                    found = []
                if found:
                    best, what = cand, found[0].what
                    extra = shift
                i -= 1
            if what is not None:
                self.violations[n] = fw.Violation(what, dict(w, history=best, **extra), v.signature,
                                                  {'shrunk_from': len(w['history'])})

    def replay_finding(self, entry):
        """Re-run a witness; for a listed entry only a violation of *its* root cause (signature) counts as its return —
        any other violation on the same input is found and reported by the regular run (the witnesses are in the corpus)."""
        w = entry['witness']
        if 'history' not in w and 'handles' not in w:
            return None
        want = entry.get('signature')
        found = self._replay(w)
        for v in found:
            if want is None or v.signature == want:
                return v
        return None

    def _replay(self, w) -> list:
        before = len(self.violations)
        if 'handles' in w:
            from props import c05h

            for name in NAMES:
                for text in SPELLINGS:
                    for kind in KINDS:
                        _package(name, text, kind)
            crash = w.get('crash')
            if w.get('registry') == 'volatile':
                c05h.judge(self, c05h.run_handles_volatile(w['handles']))
            else:
                c05h.judge(self, c05h.run_handles(w['handles'], crash_points=False, only=crash), crash_only=crash is not None)
            found = self.violations[before:]
            del self.violations[before:]
            return found
        hist = w['history']
        if w.get('registry') == 'volatile':
            self._volatile([hist], None)
        elif w.get('reader') == 'long-lived':
            r = run_history(hist, crash_points=False)
            r['long_lived'] = run_long_lived(hist)
            self._judge(r)
        else:
            crash = w.get('crash')
            self._judge(run_history(hist, crash_points=crash is not None, only=crash, only_fault=w.get('fault')))
        found = self.violations[before:]
        del self.violations[before:]
        return found


if __name__ == '__main__':
    raise SystemExit(fw.run(C05))
