"""C20 — configuration layering (forml.setup._conf.Config) and provider lookup (forml.provider Bank/Meta/Service)
vs lean/ForML/Model/Conf.lean and lean/ForML/Model/Bank.lean.

Run as `python c20.py --worker` this file is the sub-process side of the provider scenarios: one interpreter per
PYTHONHASHSEED imports forml once and forks a fresh child for every (scenario, import order) job.
"""
from __future__ import annotations

import itertools
import json
import os
import shutil
import subprocess
import sys
import tempfile
import threading

if __name__ == '__main__' and '--worker' in sys.argv:  # ------------------------------------------------ worker
    import importlib
    import inspect

    def _job(job):
        from forml import provider as prov

        sys.path.insert(0, job['dir'])
        out = []
        for op in job['ops']:
            if op[0] == 'import':
                try:
                    importlib.import_module(op[1])
                    out.append(['ok'])
                except ModuleNotFoundError:
                    out.append(['notfound'])
                except Exception as e:  # pylint: disable=broad-except
                    out.append(['err', type(e).__name__])
            else:
                _, imod, iqn, ref = op
                iface = getattr(sys.modules[imod], iqn)
                order = [p.value for p in prov.BANK[iface].paths]
                try:
                    cls = iface[ref]
                    ext = inspect.isabstract(cls) or any(isinstance(v, type) and inspect.isabstract(v)
                                                         for v in vars(cls).values())
                    out.append(['ok', cls.__module__, cls.__qualname__, bool(ext), order])
                except Exception as e:  # pylint: disable=broad-except
                    out.append(['err', type(e).__name__, order])
        return out

    def _worker():
        import logging
        import warnings

        warnings.filterwarnings('ignore')
        logging.disable(logging.CRITICAL)
        sys.dont_write_bytecode = True
        import forml.provider  # noqa: F401  pylint: disable=unused-import

        jobs = json.load(sys.stdin)
        results = []
        for job in jobs:
            r, w = os.pipe()
            pid = os.fork()
            if pid == 0:
                os.close(r)
                try:
                    blob = json.dumps(_job(job))
                except BaseException as e:  # pylint: disable=broad-except
                    blob = json.dumps({'crash': repr(e)})
                with os.fdopen(w, 'w') as f:
                    f.write(blob)
                os._exit(0)
            os.close(w)
            with os.fdopen(r) as f:
                blob = f.read()
            os.waitpid(pid, 0)
            results.append(json.loads(blob) if blob else {'crash': 'no output'})
        json.dump(results, sys.stdout)

    _worker()
    raise SystemExit(0)

from core import framework as fw  # noqa: E402
from core import sexp  # noqa: E402

# =================================================================================================== configuration


def is_table(v):
    return isinstance(v, dict)


def is_list(v):
    return isinstance(v, (list, tuple))


def canon(v):
    """JSON-able canonical form of a config value (implementation output or spec output)."""
    import collections.abc

    if isinstance(v, collections.abc.Mapping):
        return {'t': {str(k): canon(v[k]) for k in sorted(v)}}
    if isinstance(v, (list, tuple)):
        return {'l': [canon(i) for i in v]}
    return {'s': [type(v).__name__, v]}


def spec_layer(vals):
    """Property text, newest source first: the newest source saying something about a key decides; tables are
    layered key by key (at any depth) as long as the newer values are tables too; lists are concatenated new-first
    without repeating an element; anything else replaces what was there."""
    head = vals[0]
    if is_table(head):
        run = list(itertools.takewhile(is_table, vals))
        keys = []
        for t in run:
            keys.extend(k for k in t if k not in keys)
        return {k: spec_layer([t[k] for t in run if k in t]) for k in keys}
    if is_list(head):
        out = []
        for lst in itertools.takewhile(is_list, vals):
            for v in lst:
                if v not in out:
                    out.append(v)
        return out
    return head


def dedupe(xs):
    out = []
    for v in xs:
        if v not in out:
            out.append(v)
    return out


def dedupe_canon(c):
    """canonical form with every list reduced to first occurrences (used when a source itself repeats elements)"""
    if isinstance(c, dict) and 't' in c:
        return {'t': {k: dedupe_canon(v) for k, v in c['t'].items()}}
    if isinstance(c, dict) and 'l' in c:
        return {'l': dedupe(c['l'])}
    if isinstance(c, list):
        return [dedupe_canon(x) for x in c]
    return c


def has_dup_list(v) -> bool:
    if is_table(v):
        return any(has_dup_list(x) for x in v.values())
    if is_list(v):
        return len(dedupe(list(v))) != len(v)
    return False


def conf_diff(impl, spec, dupes: bool, path=()):
    """First difference between canonical implementation output and canonical spec → (signature, path, detail)."""
    if 't' in spec:
        if 't' not in impl:
            return 'conf-override', path, f'expected a table, got {impl}'
        for k in spec['t']:
            if k not in impl['t']:
                return 'conf-key-lost', path + (k,), 'key of some source is absent from the result'
        for k in impl['t']:
            if k not in spec['t']:
                return 'conf-key-invented', path + (k,), 'key in the result that the visible sources do not define'
        for k in spec['t']:
            d = conf_diff(impl['t'][k], spec['t'][k], dupes, path + (k,))
            if d:
                return d
        return None
    if 'l' in spec:
        if 'l' not in impl:
            return 'conf-override', path, f'expected a list, got {impl}'
        got = impl['l'] if not dupes else dedupe(impl['l'])
        if got != spec['l']:
            return 'conf-list-merge', path, f'list {impl["l"]} is not the new-first duplicate-free merge {spec["l"]}'
        return None
    if impl != spec:
        return 'conf-override', path, f'value {impl} but the newest source defining the key says {spec}'
    return None


class Numbering:
    """Injective numbering of keys / scalars (Python equality classes are kept apart by the generator)."""

    def __init__(self):
        self.keys: dict = {}
        self.scalars: dict = {}

    def key(self, k) -> int:
        return self.keys.setdefault(str(k), len(self.keys))

    def scalar(self, v) -> int:
        return self.scalars.setdefault((type(v).__name__, v), len(self.scalars))

    def enc(self, v):
        import collections.abc

        if isinstance(v, collections.abc.Mapping):
            return ['t'] + [[self.key(k), self.enc(v[k])] for k in v]
        if isinstance(v, (list, tuple)):
            return ['l'] + [self.scalar(i) for i in v]
        return ['s', self.scalar(v)]

    def enc_sorted(self, v):
        """Same as `enc` with table entries sorted by key number (the driver's output order)."""
        e = self.enc(v)
        return self._sort(e)

    def _sort(self, e):
        if e[0] == 't':
            return ['t'] + sorted(([k, self._sort(x)] for k, x in e[1:]), key=lambda kv: kv[0])
        return e


def toml_dumps(table: dict) -> str:
    """Minimal TOML writer (bare keys, basic strings, arrays, [dotted.headers])."""

    def val(v):
        if isinstance(v, bool):
            return 'true' if v else 'false'
        if isinstance(v, (int, float)):
            return repr(v)
        if isinstance(v, str):
            return json.dumps(v)
        if is_list(v):
            return '[' + ', '.join(val(i) for i in v) + ']'
        if is_table(v):
            return '{' + ', '.join(f'{k} = {val(x)}' for k, x in v.items()) + '}'
        raise TypeError(v)

    lines = []

    def emit(tbl, prefix):
        for k, v in tbl.items():
            if not is_table(v):
                lines.append(f'{k} = {val(v)}')
        for k, v in tbl.items():
            if is_table(v):
                lines.append(f'[{".".join(prefix + [k])}]')
                emit(v, prefix + [k])

    emit(table, [])
    return '\n'.join(lines) + '\n'


KEYS = ['a', 'b', 'c', 'd', 'e', 'path', 'default', 'params']
GROUP_KEYS = ['RUNNER', 'REGISTRY']
SECTION_REFS = ['r0', 'r1', 'r2', 'r3']
LIST_POOL = [2, 3, 4, 5, 'u', 'v', 'w', 2.5, True]


class ConfGen:
    def __init__(self, rng):
        self.rng = rng
        self.kinds: dict = {}

    def scalar(self):
        r = self.rng
        return r.choice([r.randint(2, 9), r.choice('uvwxyz') * r.randint(1, 2), r.random() < 0.5, r.randint(2, 9) + 0.5])

    def lst(self):
        r = self.rng
        n = r.choice([0, 1, 2, 2, 3, 4])
        if r.random() < 0.12:
            out = [r.choice(LIST_POOL) for _ in range(n)]  # may repeat elements
        else:
            out = r.sample(LIST_POOL, n)
        return tuple(out) if r.random() < 0.3 else out

    def value(self, path, depth, flip):
        r = self.rng
        kind = self.kinds.setdefault(path, r.choice(['s', 's', 'l', 't', 't'] if depth < 3 else ['s', 's', 'l']))
        if r.random() < flip:
            kind = r.choice(['s', 'l', 't'] if depth < 3 else ['s', 'l'])
        if kind == 's':
            return self.scalar()
        if kind == 'l':
            return self.lst()
        return self.table(path, depth + 1, flip)

    def table(self, path, depth, flip):
        r = self.rng
        keys = r.sample(KEYS, r.choice([0, 1, 2, 3, 3, 4]))
        return {k: self.value(path + (k,), depth, flip) for k in keys}

    def group(self, flip):
        """[RUNNER] default = rX + [RUNNER.rX] provider/params/other options"""
        r = self.rng
        out = {}
        if r.random() < 0.6:
            out['default'] = r.choice(SECTION_REFS + ['r4'])
        for ref in r.sample(SECTION_REFS, r.choice([0, 1, 2, 3])):
            if r.random() < flip:
                out[ref] = self.scalar()
                continue
            sec = {}
            if r.random() < 0.6:
                sec['provider'] = r.choice(['dask', 'pyfunc', 'posix', 'mod:Cls'])
            if r.random() < 0.5:
                sec['params'] = {k: self.scalar() for k in r.sample(['a', 'b', 'c'], r.randint(0, 2))}
            for k in r.sample(['a', 'b', 'c', 'd'], r.randint(0, 3)):
                sec[k] = self.scalar() if r.random() < 0.8 else self.lst()
            out[ref] = sec
        return out

    def stack(self):
        r = self.rng
        self.kinds = {}
        flip = r.choice([0.0, 0.0, 0.1, 0.3])
        n = r.randint(1, 4)
        sources = []
        groups = r.random() < 0.4
        for _ in range(n):
            src = self.table((), 0, flip)
            if groups:
                for g in GROUP_KEYS:
                    if r.random() < 0.7:
                        src[g] = self.group(flip / 2)
            sources.append(src)
        return sources, groups


def run_config(sources, via: str, tmpdir: str):
    """Real forml Config fed with the stack. Returns the Config object."""
    import pathlib

    from forml.setup import _conf

    if via == 'update':
        cfg = _conf.Config(sources[0])
        for s in sources[1:]:
            cfg.update(s)
        return cfg
    if via == 'update-kw':
        cfg = _conf.Config({})
        rest = list(sources)
        while rest:
            if len(rest) >= 2:
                cfg.update(rest[0], **rest[1])
                rest = rest[2:]
            else:
                cfg.update(rest[0])
                rest = rest[1:]
        return cfg
    paths = []
    for i, s in enumerate(sources):
        p = pathlib.Path(tmpdir) / f'src{i}.toml'
        p.write_text(toml_dumps(s))
        paths.append(p)
        if i == 0:
            paths.append(pathlib.Path(tmpdir) / 'absent.toml')  # a missing file is not a source
    if via == 'read':
        return _conf.Config({}, *paths)
    cfg = _conf.Config(sources[0])  # 'mixed': defaults as a mapping, the rest from files
    for p in paths[1:]:
        cfg.read(p)
    return cfg


def untuple(v):
    """TOML has no tuples and reads every array as a list."""
    if is_table(v):
        return {k: untuple(x) for k, x in v.items()}
    if is_list(v):
        return list(v)
    return v


# ======================================================================================================= providers

IFC = 'ifc'


class Scenario:
    """A generated set of provider modules.

    ifc.py:  Base(provider.Service, path=[…]) abstract, Mid(Base) abstract, optionally Mid2(Base, path=[…])
    pkN/__init__.py (optionally with __all__), pkN/<sub>.py with classes deriving from Base/Mid/earlier classes
    """

    def __init__(self, base_paths, mid_paths, packages, imports, queries, kind):
        self.base_paths = base_paths  # path= of Base
        self.mid_paths = mid_paths
        self.packages = packages  # {pkg: {'all': [sub…] | None, 'mods': {sub: [cls…]}}}; cls = dict(name, base, alias, impl)
        self.imports = imports  # list of module names imported explicitly (the order is permuted)
        self.queries = queries  # [(iface name, reference string)]
        self.kind = kind

    def to_json(self):
        return {'base_paths': self.base_paths, 'mid_paths': self.mid_paths, 'packages': self.packages,
                'imports': self.imports, 'queries': [list(q) for q in self.queries], 'kind': self.kind}

    @classmethod
    def from_json(cls, d):
        return cls(d['base_paths'], d['mid_paths'], d['packages'], d['imports'], [tuple(q) for q in d['queries']], d['kind'])

    # ---- facts derived from the generated definitions (the scenario's own ground truth) ----
    def classes(self):
        """[(module, clsdict, abstract, ancestors [(module, name)…])] incl. the interface classes."""
        out = [(IFC, {'name': 'Base', 'base': None, 'alias': None, 'impl': False, 'paths': self.base_paths}, True, []),
               (IFC, {'name': 'Mid', 'base': 'Base', 'alias': None, 'impl': False, 'paths': self.mid_paths}, True,
                [(IFC, 'Base')])]
        known = {'Base': out[0], 'Mid': out[1]}
        self.flags = {(IFC, 'Base'): (True, False), (IFC, 'Mid'): (True, False)}  # (inspect.isabstract, abstract inner)
        for pkg, pd in self.packages.items():
            for sub, clss in pd['mods'].items():
                mod = f'{pkg}.{sub}' if sub else pkg
                local = dict(known)
                for c in clss:
                    pmod, pc, pabs, panc = local[c['base']]
                    # inspect.isabstract: `run` inherited unimplemented, an abstract property of its own, or an abstract
                    # method of a mixin; extended: an abstract inner class among the class' own attributes
                    unimpl = (pabs and not c['impl']) or c.get('shape') in ('prop', 'mixin')
                    inner = c.get('shape') == 'inner'
                    self.flags[(mod, c['name'])] = (bool(unimpl), inner)
                    abstract = bool(unimpl or inner)
                    entry = (mod, c, abstract, [(pmod, pc['name'])] + panc)
                    out.append(entry)
                    local[c['name']] = entry
        return out

    def write(self, root: str):
        os.makedirs(root, exist_ok=True)

        def kw(c):
            s = ''
            if c.get('alias'):
                s += f", alias={c['alias']!r}"
            if c.get('paths'):
                s += f", path={list(c['paths'])!r}"
            return s

        with open(os.path.join(root, f'{IFC}.py'), 'w') as f:
            f.write('import abc\nfrom forml import provider\n\n'
                    f"class Base(provider.Service{kw({'paths': self.base_paths})}):\n"
                    '    @abc.abstractmethod\n    def run(self):\n        """work"""\n\n'
                    f"class Mid(Base{kw({'paths': self.mid_paths})}):\n    pass\n")
        for pkg, pd in self.packages.items():
            os.makedirs(os.path.join(root, pkg), exist_ok=True)
            def render(clss):
                src = f'import abc\nfrom {IFC} import Base, Mid\n\n'
                src += ('class Extra_(abc.ABC):\n    @abc.abstractmethod\n    def extra(self):\n        """more"""\n\n')
                for c in clss:
                    shape = c.get('shape')
                    bases = f"Extra_, {c['base']}" if shape == 'mixin' else c['base']
                    src += f"class {c['name']}({bases}{kw(c)}):\n"
                    body = '    def run(self):\n        return None\n' if c['impl'] else ''
                    if shape == 'inner':
                        body += ('    class Part(abc.ABC):\n        @abc.abstractmethod\n        def work(self):\n'
                                 '            """component"""\n')
                    if shape == 'prop':
                        body += '    @property\n    @abc.abstractmethod\n    def level(self):\n        """level"""\n'
                    src += (body or '    pass\n') + '\n'
                return src

            init = render(pd['mods'].get('', []))
            if pd['all'] is not None:
                init += f"__all__ = {list(pd['all'])!r}\n"
            with open(os.path.join(root, pkg, '__init__.py'), 'w') as f:
                f.write(init)
            for sub, clss in pd['mods'].items():
                if sub:
                    with open(os.path.join(root, pkg, f'{sub}.py'), 'w') as f:
                        f.write(render(clss))


class Names:
    """Numbering of the strings of one scenario. Module names are ordered in the model (Bank.get sorts its search paths),
    so a numbering made from a `universe` is order preserving: s < t as Python strings iff n(s) < n(t). Because '.'
    sorts before every identifier character, the component-wise order of the model's (pkg, sub) pairs is then Python's
    order of the dotted names. Strings met later (not part of the universe) get fresh numbers at the end."""

    def __init__(self, universe=None):
        self.tab: dict = {s: i for i, s in enumerate(sorted(set(universe or ())))}

    def n(self, s: str) -> int:
        return self.tab.setdefault(s, len(self.tab))

    def mod(self, dotted: str):
        parts = dotted.split('.')
        if len(parts) == 1:
            return [self.n(parts[0]), None]
        if len(parts) == 2:
            return [self.n(parts[0]), self.n(parts[1])]
        raise ValueError(dotted)


def scenario_world(sc: Scenario, names: Names):
    """S-expression of the model's World for a scenario."""
    mods: dict = {IFC: {'subs': [], 'classes': []}}
    for pkg, pd in sc.packages.items():
        mods[pkg] = {'subs': list(pd['all'] or []), 'classes': []}
        for sub in pd['mods']:
            if sub:
                mods[f'{pkg}.{sub}'] = {'subs': [], 'classes': []}
    for mod, c, abstract, anc in sc.classes():
        unimpl, inner = sc.flags[(mod, c['name'])]
        mods[mod]['classes'].append([names.mod(mod), names.n(c['name']), names.n(c['alias']) if c.get('alias') else None,
                                     unimpl, inner, [[names.mod(m), names.n(q)] for m, q in anc],
                                     [names.mod(p) for p in c.get('paths') or []]])
    return [[names.mod(m), [names.n(s) for s in d['subs']], d['classes']] for m, d in mods.items()]


def ref_sexp(ref: str, names: Names):
    if ':' in ref:
        m, q = ref.split(':', 1)
        return ['q', names.mod(m), names.n(q)]
    return ['a', names.n(ref)]


LAZY_SIG = 'lazy-collision-late-or-order-dependent'
ERRMAP = {'collision': 'UnexpectedError', 'abstract-alias': 'UnexpectedError', 'preload': 'MissingError',
          'missing': 'MissingError'}


class ScenGen:
    ALIASES = ['foo', 'bar', 'baz', 'qux']
    SUBS = ['foo', 'bar', 'baz', 'm1', 'm2']

    def __init__(self, rng):
        self.rng = rng

    def module_classes(self, aliases_free, want_alias=None):
        """1..3 classes for one module; a class is concrete iff it implements `run` or derives from a concrete one."""
        r = self.rng
        out = []
        names = ['Impl', 'Helper', 'Extra']
        local_abstract, local_concrete = [], []
        for i in range(r.choice([1, 1, 2, 3])):
            base = r.choice(['Base', 'Mid'] + local_abstract + local_concrete)
            impl = r.random() < 0.7 or (i == 0 and want_alias is not None)
            if not (i == 0 and want_alias) and r.random() < 0.25:
                # abstract although every method is there: an abstract inner class (only the module's own isabstract
                # sees it), an abstract property, or an abstract method of a mixin. Leaves only (never used as a base).
                out.append({'name': names[i], 'base': base, 'alias': None, 'impl': True,
                            'shape': r.choice(['inner', 'inner', 'prop', 'mixin'])})
                continue
            concrete = impl or base in local_concrete
            alias = None
            if concrete:
                if i == 0 and want_alias:
                    alias = want_alias
                elif aliases_free and r.random() < 0.6:
                    alias = aliases_free.pop()
            out.append({'name': names[i], 'base': base, 'alias': alias, 'impl': impl})
            (local_concrete if concrete else local_abstract).append(names[i])
        return out

    @staticmethod
    def abstract_aliased(r):
        shape = r.choice([None, 'inner', 'prop', 'mixin'])
        c = {'name': 'Abs', 'base': r.choice(['Base', 'Mid']), 'alias': 'abs', 'impl': shape is not None}
        if shape:
            c['shape'] = shape
        return c

    def make(self, kind: str) -> Scenario:
        """kind: clean-explicit | collision-explicit | abstract-alias | clean-lazy | collision-lazy | preload"""
        r = self.rng
        npk = r.choice([1, 2, 2, 3]) if kind != 'collision-lazy' else 2
        pkgs = [f'pk{i}' for i in range(npk)]
        free = list(self.ALIASES)
        r.shuffle(free)
        packages = {}
        modules = []
        for pkg in pkgs:
            subs = r.sample(self.SUBS, r.choice([1, 2, 2, 3]) if kind.endswith('lazy') else r.choice([1, 1, 2]))
            mods = {}
            for sub in subs:
                # in lazy scenarios a class is discoverable by alias only if the module is named after it
                want = sub if (kind.endswith('lazy') and sub in free and r.random() < 0.8) else None
                if want:
                    free.remove(want)
                mods[sub] = self.module_classes(free, want_alias=want)
                modules.append(f'{pkg}.{sub}')
            allv = r.choice([None, list(subs), list(subs), subs[:1] + ['ghost']])
            packages[pkg] = {'all': allv, 'mods': mods}
        if len(modules) > 4:  # at most 4 explicitly imported modules (4! orders)
            modules = r.sample(modules, 4)
        if kind in ('collision-explicit', 'collision-lazy'):
            # the same alias bound to two different classes in two modules
            alias = 'dup'
            if kind == 'collision-lazy':
                for pkg in pkgs[:2]:
                    packages[pkg]['mods'][alias] = self.module_classes([], want_alias=alias)[:1]
                    if packages[pkg]['all'] is not None and r.random() < 0.5:
                        packages[pkg]['all'] = packages[pkg]['all'] + [alias]
            else:
                chosen = r.sample(modules, 2) if len(modules) >= 2 else None
                if chosen is None:
                    pkg = pkgs[0]
                    packages[pkg]['mods']['zz'] = []
                    modules.append(f'{pkg}.zz')
                    chosen = modules[:2]
                for m in chosen:
                    pkg, sub = m.split('.')
                    first = packages[pkg]['mods'][sub]
                    first.insert(r.randint(0, len(first)), {'name': 'Dup', 'base': r.choice(['Base', 'Mid']),
                                                            'alias': alias, 'impl': True})
        if kind == 'abstract-alias':
            m = r.choice(modules)
            pkg, sub = m.split('.')
            packages[pkg]['mods'][sub].insert(r.randint(0, len(packages[pkg]['mods'][sub])),
                                              self.abstract_aliased(r))
        lazy = kind.endswith('lazy') or kind == 'preload'
        base_paths = list(pkgs) if (lazy or r.random() < 0.5) else []
        if kind == 'preload':
            base_paths.append('nopkg')
        r.shuffle(base_paths)
        mid_paths = [pkgs[-1]] if r.random() < 0.2 else []
        sc = Scenario(base_paths, mid_paths, packages, [] if lazy else modules, [], kind)
        if kind == 'clean-lazy' and r.random() < 0.5:
            # partially pre-imported (1..3 modules, every order): explicit imports interleaved with lazy discovery
            sc.imports = r.sample(modules, min(len(modules), r.choice([1, 2, 3])))
        # queries: every alias and every qualified name against Base and Mid, plus unknown references
        qs = []
        for mod, c, abstract, _ in sc.classes():
            if mod == IFC:
                continue
            if c.get('alias'):
                qs.append(('Base', c['alias']))
                if r.random() < 0.5:
                    qs.append(('Mid', c['alias']))
            if r.random() < 0.7 or kind == 'collision-lazy' or abstract:
                qs.append((r.choice(['Base', 'Base', 'Mid']), f"{mod}:{c['name']}"))
        qs = dedupe(qs)
        r.shuffle(qs)
        # every abstract class is looked up by its qualified name (kept when the list is cut below)
        absq = {f"{mod}:{c['name']}" for mod, c, abstract, _ in sc.classes() if abstract and mod != IFC}
        qs = [q for q in qs if q[1] in absq][:4] + [q for q in qs if q[1] not in absq]
        if kind == 'preload':
            qs = []
        if kind == 'collision-lazy':
            # the colliding alias first (before anything else triggers imports), then the rest
            qs = [('Base', 'dup')] + [q for q in qs if q != ('Base', 'dup')]
        sc.queries = qs[:9] + [('Base', 'nosuch'), ('Base', 'pk0.foo:Nosuch'), ('Mid', 'nomod:Impl')]
        if kind != 'preload':
            sc.queries += self.near_misses(sc)
        return sc

    def variants(self, sc: Scenario):
        """The same world and imports with other lookup sequences: misses before hits, and a shuffle with repeated
        lookups (the generated order has the hits first)."""
        r = self.rng
        carried = set()
        for mod, c, _, _ in sc.classes():
            carried.add(f"{mod}:{c['name']}")
            if c.get('alias'):
                carried.add(c['alias'])
        qs = list(sc.queries)
        hits = [q for q in qs if q[1] in carried]
        misses = [q for q in qs if q[1] not in carried]
        r.shuffle(misses)
        r.shuffle(hits)
        mixed = list(qs)
        r.shuffle(mixed)
        again = r.sample(qs, min(5, len(qs)))
        out = [sc]
        for queries, tag in ((misses + hits, 'miss-first'), (mixed + again, 'shuffled-repeated')):
            v = Scenario(sc.base_paths, sc.mid_paths, sc.packages, sc.imports, queries, sc.kind)
            v.sequence = tag
            out.append(v)
        return out

    def near_misses(self, sc: Scenario):
        """Unknown references that resemble something that exists: class names used as aliases, aliases in another
        case / truncated / extended, names of modules that carry no such alias, qualified names with the right module and
        a wrong class or the package in place of the module. None of them is carried by any class of the scenario."""
        r = self.rng
        classes = [(mod, c) for mod, c, _, _ in sc.classes() if mod != IFC]
        aliases = {c['alias'] for _, c in classes if c.get('alias')}
        quals = {f"{mod}:{c['name']}" for mod, c in classes}
        cand = []
        for mod, c in classes:
            cand += [c['name'], c['name'].lower(), f"{mod}:{c['name'].lower()}", f"{mod.split('.')[0]}:{c['name']}",
                     f"{mod}:{c['name']}x"]
            if '.' in mod:
                cand.append(mod.split('.')[1])  # alias spelled like an importable module
            if c.get('alias'):
                cand += [c['alias'].upper(), c['alias'][:-1], c['alias'] + 'x']
        cand = [x for x in dedupe(cand) if x and x not in aliases and x not in quals]
        return [(r.choice(['Base', 'Base', 'Mid']), x) for x in r.sample(cand, min(3, len(cand)))]


def spawn_workers(jobs: list, seeds: list, timeout: int = 800):
    """Run every job under every PYTHONHASHSEED. Returns {seed: [result per job]}."""
    out: dict = {}
    errors: list = []

    def one(seed):
        env = dict(os.environ)
        env['PYTHONHASHSEED'] = str(seed)
        env['PYTHONDONTWRITEBYTECODE'] = '1'
        try:
            # cwd = the scenarios' temporary root: forml's default log file (./<argv0>.log) must not land in /verif
            p = subprocess.run([sys.executable, os.path.abspath(__file__), '--worker'], input=json.dumps(jobs),
                               capture_output=True, text=True, env=env, timeout=timeout,
                               cwd=os.path.dirname(jobs[0]['dir']) if jobs else None)
            if p.returncode != 0:
                raise RuntimeError(p.stderr[-800:])
            out[seed] = json.loads(p.stdout)
        except Exception as e:  # pylint: disable=broad-except
            errors.append(f'seed {seed}: {e!r}')

    threads = [threading.Thread(target=one, args=(s,)) for s in seeds]
    for t in threads:
        t.start()
    for t in threads:
        t.join()
    if errors:
        raise fw.MachineryError('provider worker failed: ' + '; '.join(errors)[:1500])
    return out


class C20(fw.Check):
    ID = 'C20'
    LEAN_MODULES = ['ForML.Props.C20']
    DRIVER = 'drv_c20'
    RULE = ('Config: stacks of 1..4 random nested mappings (depth <= 4; scalars int/str/bool/float, lists and tuples '
            'with and without repeated elements, tables; a key keeps its kind across sources with probability 0.7..1.0, '
            'otherwise it flips) fed to the real Config through update, update(other, **kw), TOML files + read (incl. a '
            'missing file) and defaults + read; distinct by (sources, via), non-trivial when >= 2 sources share a key. '
            'Sections: [RUNNER]/[REGISTRY] groups with default / provider / params resolved through setup.Runner/Registry. '
            'Providers: generated packages (1..3 packages, 1..3 modules each, 1..3 classes per module deriving from the '
            'abstract interface, an abstract intermediate or an earlier class; leaf classes abstract through an abstract inner '
            'class / abstract property / mixin; aliases, qualified names, __all__ lists '
            'with ghosts) of kinds clean-explicit, collision-explicit, abstract-alias, clean-lazy (half with 1..3 modules '
            'pre-imported explicitly), collision-lazy, preload; every permutation (quick: <= 6 sampled) of the explicit '
            'imports x PYTHONHASHSEEDs, each in a freshly forked process of an interpreter that has only forml imported; '
            'every alias / qualified name, three fixed unknown references and up to three near-miss unknown references '
            '(class name as alias, alias in another case / truncated / extended, module name without that alias, right '
            'module wrong class, package for module) resolved through Base[...] and Mid[...] in three sequences per world '
            '(hits first, misses first, shuffled with repeats). A provider case '
            'is distinct by (scenario, import order, seed).')
    TRUSTED = [
        'tomli (TOML reader), the minimal TOML writer of the harness, MappingProxyType wrappers',
        'CPython import machinery (__import__/fromlist/__all__, sys.modules), sorted() on Bank.Path tuples, and set '
        'iteration order: the model takes the observed iteration order of Bank.paths as an explicit parameter (and '
        'C20_lookup_order_free proves that it does not matter once Bank.get sorts)',
        'os.fork children of one interpreter per hash seed stand for fresh processes (forml imported, nothing else)',
    ]
    ASSUMPTIONS = ['list elements are scalars (TOML arrays of tables are not generated)',
                   'single inheritance below the provider interface; module names have at most two components',
                   'scalars of different Python types that compare equal (1 == True == 1.0) are not mixed in one case']

    SEEDS_QUICK = [0, 1, 2, 3]
    SEEDS_THOROUGH = [0, 1, 2, 3, 4, 5, 6, 7]

    # ---------------------------------------------------------------------------------------------- configuration
    def _conf_cases(self, n):
        gen = ConfGen(self.rng)
        corpus = [
            ([{'a': 1 + 1}], False), ([{'a': {'b': 2}}, {'a': {'c': 3}}], False), ([{'a': [2, 3]}, {'a': [3, 4]}], False),
            ([{'a': [2, 3]}, {'a': 5}, {'a': [4]}], False), ([{'a': {'b': 2}}, {'a': 7}, {'a': {'c': 3}}], False),
            ([{'a': [2, 2]}, {'a': [3]}], False), ([{'a': {'b': {'c': [2]}}}, {}, {'a': {'b': {'c': (3, 2)}}}], False),
            ([{'a': [2]}, {'b': 3}, {'a': [3]}, {'a': [2, 4]}], False), ([{}, {}], False),
            ([{'a': {'b': 3}}, {'a': 5}, {'a': {'c': 2}}], False),  # C20_assoc_counterexample
            ([{'RUNNER': {'default': 'r0', 'r0': {'provider': 'dask', 'a': 2}}},
              {'RUNNER': {'r0': {'params': {'a': 3, 'b': 4}}, 'r1': {'c': 5}}}], True),
        ]
        cases = [(s, g, v) for s, g in corpus for v in ('update', 'read')]
        for _ in range(n):
            sources, groups = gen.stack()
            cases.append((sources, groups, self.rng.choice(['update', 'update', 'update-kw', 'read', 'read', 'mixed'])))
        return cases

    def _conf_eval(self, sources, via, tmpdir):
        """(canonical impl | ('error', cls), canonical spec, dupes?) for one stack."""
        if via in ('read', 'mixed'):
            eff = [untuple(s) for s in sources] if via == 'read' else [sources[0]] + [untuple(s) for s in sources[1:]]
        else:
            eff = sources
        try:
            cfg = run_config(sources, via, tmpdir)
            impl = canon(dict(cfg))
        except Exception as e:  # pylint: disable=broad-except
            return ('error', type(e).__name__), None, False, None, eff
        spec = canon(spec_layer(list(reversed(eff)) + [{}]))
        return impl, spec, any(has_dup_list(s) for s in eff), cfg, eff

    def _sections(self, cfg, eff):
        """Resolve sections through the real setup.Runner/Registry with CONFIG patched; returns [(query, impl, spec)]."""
        from unittest import mock

        import forml
        from forml import setup
        from forml.setup import _conf

        spec_cfg = spec_layer(list(reversed(eff)) + [{}])
        out = []
        with mock.patch.object(_conf, 'CONFIG', cfg):
            for gname, klass in (('RUNNER', setup.Runner), ('REGISTRY', setup.Registry)):
                for ref in SECTION_REFS + ['r4', None]:
                    try:
                        got = klass.resolve(ref)
                        impl = ['ok', got.reference, canon(dict(got.params))]
                    except forml.MissingError:
                        impl = ['MissingError']
                    except Exception as e:  # pylint: disable=broad-except
                        impl = ['malformed']
                    # spec from the property text: present section → its provider (or its own name) + options; else missing
                    group = spec_cfg.get(gname)
                    eref = ref
                    if ref is None:
                        eref = group.get('default') if is_table(group) else None
                    if not is_table(group) or not isinstance(eref, str) or eref not in group:
                        spec = ['MissingError'] if (group is None or is_table(group)) else ['malformed']
                    elif not is_table(group[eref]):
                        spec = ['malformed']
                    else:
                        sec = dict(group[eref])
                        prov = sec.pop('provider', eref)
                        sec.update(sec.pop('params', {}))
                        spec = ['ok', str(prov), canon(sec)]
                    out.append(((gname, ref), impl, spec, eref))
        return out

    def _config(self):
        cases = self._conf_cases(self.n(1000, 30000))
        tmp = tempfile.mkdtemp(prefix='verif-c20-conf-')
        try:
            lines, metas = [], []
            for idx, (sources, groups, via) in enumerate(cases):
                impl, spec, dupes, cfg, eff = self._conf_eval(sources, via, tmp)
                num = Numbering()
                lines.append(sexp.dumps(['stack', [num.enc(s) for s in eff]]))
                shared = len(eff) > 1 and any(set(a) & set(b) for a, b in itertools.combinations(eff, 2))
                depth_flip = 'flip' if self._has_flip(eff) else 'consistent'
                self.case(('conf', json.dumps(canon(eff), sort_keys=True, default=str), via),
                          f'conf n={len(eff)} via={via} {depth_flip}{" groups" if groups else ""}', nontrivial=shared,
                          sample={'sources': canon(eff), 'via': via, 'result': impl} if idx in (1, 4, 12) else None)
                sect = None
                if isinstance(impl, dict) and len(eff) == 3 and via == 'update':
                    self._assoc(eff, impl, depth_flip == 'flip')
                if isinstance(impl, dict):
                    d = conf_diff(impl, spec, dupes)
                    if d:
                        sig, path, detail = d
                        self.violate(f'Config stack ({via}): at {"/".join(path) or "<root>"}: {detail}',
                                     {'kind': 'conf', 'raw': self._jsonable(eff), 'via': via}, sig, {'path': list(path)})
                    if groups:
                        sect = self._sections(cfg, eff)
                metas.append((via, impl, num, eff, sect))
            answers = self.model(lines)
            sec_lines, sec_meta = [], []
            for (via, impl, num, eff, sect), ans in zip(metas, answers):
                m = sexp.num(sexp.loads(ans))
                if isinstance(impl, tuple):
                    self.diverge('Config raised', {'sources': self._jsonable(eff), 'via': via}, list(impl), m)
                    continue
                want = ['ok', num.enc_sorted(self._from_canon(impl))]
                if m != want:
                    self.diverge('merged configuration', {'sources': self._jsonable(eff), 'via': via}, impl, ans)
                    continue
                for (gname, ref), simpl, sspec, eref in sect or []:
                    self.case(('sec', len(sec_lines), gname, ref, json.dumps(simpl, default=str)), f'section {simpl[0]}',
                              nontrivial=simpl[0] == 'ok')
                    if (dedupe_canon(simpl) != dedupe_canon(sspec)) if any(has_dup_list(x) for x in eff) else (simpl != sspec):
                        self.violate(f'section [{gname}.{ref}] resolved to {simpl} but the layered configuration says {sspec}',
                                     {'kind': 'section', 'raw': self._jsonable(eff), 'via': via, 'group': gname, 'ref': ref},
                                     'section-resolution')
                    if isinstance(eref, str):
                        sec_lines.append(sexp.dumps(['section', m[1], num.key(gname), num.key(eref), num.key('provider'),
                                                     num.key('params')]))
                        sec_meta.append((eff, via, gname, eref, simpl, num))
            for (eff, via, gname, eref, simpl, num), ans in zip(sec_meta, self.model(sec_lines)):
                m = sexp.num(sexp.loads(ans))
                if simpl[0] == 'ok':
                    # the model reports `none` when the section has no provider option (reference = the section name)
                    ok = (isinstance(m, list) and m[0] == 'ok'
                          and (simpl[1] == eref if m[1] == 'none' else m[1] == ['s', num.scalar(simpl[1])])
                          and m[2] == num.enc_sorted(self._from_canon(simpl[2])))
                else:
                    ok = m == ('missing' if simpl[0] == 'MissingError' else 'malformed')
                if not ok:
                    self.diverge('section resolution', {'sources': self._jsonable(eff), 'via': via, 'group': gname, 'ref': eref},
                                 simpl, ans)
        finally:
            shutil.rmtree(tmp, ignore_errors=True)

    def _assoc(self, eff, left, flip):
        """C20_assoc_partial / C20_assoc_counterexample on the real code: a (b c) against (a b) c."""
        from forml.setup import _conf

        inner = _conf.Config(eff[1])
        inner.update(eff[2])
        outer = _conf.Config(eff[0])
        outer.update(inner)
        right = canon(dict(outer))
        self.histogram['assoc ' + ('flip' if flip else 'consistent') + (' equal' if right == left else ' differs')] += 1
        if not flip and right != left:
            self.diverge('kind-consistent sources but grouping matters (C20_assoc_partial)', {'sources': self._jsonable(eff)},
                         left, right)

    @staticmethod
    def _has_flip(eff):
        def kind(v):
            return 't' if is_table(v) else 'l' if is_list(v) else 's'

        def walk(vals):
            if len({kind(v) for v in vals}) > 1:
                return True
            tabs = [v for v in vals if is_table(v)]
            keys = set().union(*tabs) if tabs else set()
            return any(walk([t[k] for t in tabs if k in t]) for k in keys)

        return walk(eff)

    @staticmethod
    def _jsonable(v):
        if is_table(v):
            return {k: C20._jsonable(x) for k, x in v.items()}
        if isinstance(v, tuple):
            return {'__tuple__': [C20._jsonable(x) for x in v]}
        if isinstance(v, list):
            return [C20._jsonable(x) for x in v]
        return v

    @staticmethod
    def _unjson(v):
        if isinstance(v, dict):
            if set(v) == {'__tuple__'}:
                return tuple(C20._unjson(x) for x in v['__tuple__'])
            return {k: C20._unjson(x) for k, x in v.items()}
        if isinstance(v, list):
            return [C20._unjson(x) for x in v]
        return v

    @staticmethod
    def _from_canon(c):
        """canonical JSON form → plain Python value (for the numbering)"""
        if 't' in c:
            return {k: C20._from_canon(v) for k, v in c['t'].items()}
        if 'l' in c:
            return [C20._from_canon(v) for v in c['l']]
        return c['s'][1]

    # ------------------------------------------------------------------------------------------------- providers
    def _orders(self, sc: Scenario):
        perms = list(itertools.permutations(sc.imports))
        if self.quick and len(perms) > 6:
            perms = [perms[0], perms[-1]] + self.rng.sample(perms[1:-1], 4)
        return [list(p) for p in perms]

    @staticmethod
    def _ops(sc: Scenario, order):
        ops = [['import', IFC]]
        ops += [['import', m] for m in order]
        ops += [['get', IFC, iface, ref] for iface, ref in sc.queries]
        return ops

    def _run_scenarios(self, scenarios, seeds, root):
        """→ [(scenario index, order, seed, ops, results)]"""
        jobs, index = [], []
        for i, sc in enumerate(scenarios):
            d = os.path.join(root, f's{i}')
            sc.write(d)
            for order in self._orders(sc):
                jobs.append({'dir': d, 'ops': self._ops(sc, order)})
                index.append((i, order))
        res = spawn_workers(jobs, seeds)
        out = []
        for seed in seeds:
            for (i, order), job, r in zip(index, jobs, res[seed]):
                if isinstance(r, dict):
                    raise fw.MachineryError(f'provider job crashed: {r}')
                out.append((i, order, seed, job['ops'], r))
        return out

    @staticmethod
    def _model_line(sc: Scenario, ops, results):
        def build(names):
            world = scenario_world(sc, names)
            mops = []
            for op, r in zip(ops, results):
                if op[0] == 'import':
                    mops.append(['import', names.mod(op[1])])
                else:
                    mops.append(['get', [names.mod(op[1]), names.n(op[2])], ref_sexp(op[3], names),
                                 [names.mod(v) for v in r[-1]]])
            return ['bank', world, mops]

        collect = Names()
        build(collect)  # first pass: the universe of strings
        names = Names(collect.tab)  # second pass: order-preserving numbers
        return sexp.dumps(build(names)), names

    @staticmethod
    def _impl_canon(ops, results, names: Names):
        out = []
        for op, r in zip(ops, results):
            if op[0] == 'import':
                out.append(r[0] if r[0] != 'err' else ['err', r[1]])
            elif r[0] == 'ok':
                out.append(['ok', [names.mod(r[1]), names.n(r[2])]])
            else:
                out.append(['err', r[1]])
        return out

    @staticmethod
    def _model_canon(ans):
        m = sexp.loads(ans)
        out = []
        for r in m:
            if isinstance(r, list) and r[0] == 'err':
                out.append(['err', ERRMAP.get(r[1], r[1])])
            elif isinstance(r, list) and r[0] == 'ok':
                out.append(['ok', [[int(r[1][0][0]), None if r[1][0][1] == 'none' else int(r[1][0][1])], int(r[1][1])]])
            else:
                out.append(r)
        return out

    def _oracle(self, sc: Scenario, runs):
        """Property text evaluated on the real outcomes of one scenario across all import orders and hash seeds.
        runs = [(order, seed, ops, results)]"""
        classes = {(mod, c['name']): (c, abstract) for mod, c, abstract, _ in sc.classes()}
        ancestors = {(mod, c['name']): anc for mod, c, _, anc in sc.classes()}
        search = {'Base': set(sc.base_paths) | set(sc.mid_paths), 'Mid': set(sc.mid_paths)}  # path= seen by each bank
        by_alias: dict = {}
        for (mod, name), (c, abstract) in classes.items():
            if c.get('alias'):
                by_alias.setdefault(c['alias'], []).append((mod, name))
        colliding = {a for a, cs in by_alias.items() if len(cs) > 1}
        defective = bool(colliding) or any(abstract and c.get('alias') for c, abstract in classes.values())
        witness = {'kind': 'bank', 'scenario': sc.to_json()}
        per_query: dict = {}
        for order, seed, ops, results in runs:
            import_errs = {op[1]: r for op, r in zip(ops, results) if op[0] == 'import' and r[0] == 'err'}
            rejected = bool(import_errs)
            # colliding references are rejected at registration: once both classes' modules were imported explicitly,
            # one of the imports must have failed
            for alias in colliding:
                mods = [m for m, _ in by_alias[alias]]
                if all(m in order for m in mods) and not any(m in import_errs for m in mods):
                    self.violate(f'alias {alias!r} bound to two classes by the explicitly imported modules {mods} and no '
                                 f'registration was rejected (import order {order})', dict(witness, order=order, seeds=[seed]),
                                 'collision-not-rejected')
            for (mod, name), (c, abstract) in classes.items():
                if abstract and c.get('alias') and mod in order and mod not in import_errs:
                    self.violate(f'alias on abstract class {mod}:{name} accepted', dict(witness, order=order, seeds=[seed]),
                                 'abstract-alias-accepted')
            for qi, (op, r) in enumerate((o, x) for o, x in zip(ops, results) if o[0] == 'get'):
                iface, ref = op[2], op[3]
                if r[0] == 'ok':
                    got = (r[1], r[2])
                    if r[3] or got not in classes or classes[got][1]:
                        self.violate(f'{iface}[{ref!r}] returned the abstract/unknown class {got}',
                                     dict(witness, order=order, seeds=[seed]), 'abstract-returned')
                        continue
                    c = classes[got][0]
                    legit = (ref == f'{got[0]}:{got[1]}') or (c.get('alias') == ref)
                    if not legit:
                        self.violate(f'{iface}[{ref!r}] returned {got[0]}:{got[1]} which does not carry that reference',
                                     dict(witness, order=order, seeds=[seed]), 'wrong-provider-returned')
                        continue
                known = (ref in by_alias) or (':' in ref and tuple(ref.split(':', 1)) in classes)
                # a reference carried by exactly one concrete class below the interface resolves (to that class, checked
                # above) once its module was imported, or lazily when it is discoverable: a qualified name names its
                # module, an alias is looked for in <search path>.<alias>
                carriers = by_alias.get(ref, []) if ':' not in ref else [tuple(ref.split(':', 1))]
                carriers = [k for k in carriers if k in classes and not classes[k][1]]
                if (len(carriers) == 1 and not defective and not rejected and sc.kind != 'preload' and r[0] != 'ok'
                        and (IFC, iface) in ancestors[carriers[0]]):
                    cmod = carriers[0][0]
                    pkg, _, sub = cmod.partition('.')
                    allv = sc.packages.get(pkg, {}).get('all')
                    if (cmod in order or ':' in ref or (sub == ref and pkg in search[iface])
                            or (pkg in search[iface] and allv is not None and sub in allv)):
                        self.violate(f'{iface}[{ref!r}] raised {r[1]} although {cmod}:{carriers[0][1]} carries the reference '
                                     f'and is {"imported" if cmod in order else "discoverable"}',
                                     dict(witness, order=order, seeds=[seed]), 'registered-provider-not-found')
                        continue
                if not known and r[0] == 'ok':
                    self.violate(f'unknown reference {iface}[{ref!r}] resolved to {r[1]}:{r[2]}',
                                 dict(witness, order=order, seeds=[seed]), 'unknown-reference-resolved')
                    continue
                # a lookup that has to import a module whose class registration is rejected (colliding reference, alias
                # on an abstract class) raises that rejection: "rejected at registration" takes precedence there
                excused = defective and r[0] == 'err' and r[1] == 'UnexpectedError'
                if not known and r[1] != 'MissingError' and not rejected and not excused:
                    sig = 'unknown-reference-not-missing'
                    self.violate(f'unknown reference {iface}[{ref!r}] raised {r[1]} instead of MissingError',
                                 dict(witness, query=[iface, ref], seeds=[seed]), sig)
                outcome = (r[0], r[1], r[2]) if r[0] == 'ok' else (r[0], r[1])
                per_query.setdefault((qi, iface, ref), []).append((outcome, order, seed, rejected))
        # the same single class whatever the import order (and whatever the hash seed): compared over the runs in
        # which no registration was rejected
        for (qi, iface, ref), outs in per_query.items():
            clean = [o for o in outs if not o[3]]
            distinct = sorted({o[0] for o in clean})
            if len(distinct) > 1:
                involved = ref in colliding or any(ref == f'{m}:{n}' for a in colliding for m, n in by_alias[a])
                lazy_collision = sc.kind == 'collision-lazy' and (
                    involved or any(d[0] == 'err' and d[1] == 'UnexpectedError' for d in distinct))
                sig = LAZY_SIG if lazy_collision else 'lookup-depends-on-order'
                ex = {str(d): next((o[1], o[2]) for o in clean if o[0] == d) for d in distinct}
                self.violate(f'{iface}[{ref!r}] resolves differently depending on import order / hash seed: {distinct}',
                             dict(witness, query=[iface, ref], seeds=sorted({o[2] for o in clean})), sig, ex)

    def _bank(self, nscen, seeds, kinds=None):
        gen = ScenGen(self.rng)
        kinds = kinds or ['clean-explicit', 'clean-explicit', 'clean-explicit', 'collision-explicit', 'abstract-alias',
                          'clean-lazy', 'clean-lazy', 'clean-lazy', 'collision-lazy', 'preload']
        scenarios = [v for i in range(nscen) for v in gen.variants(gen.make(kinds[i % len(kinds)]))]
        root = tempfile.mkdtemp(prefix='verif-c20-bank-')
        try:
            runs = self._run_scenarios(scenarios, seeds, root)
        finally:
            shutil.rmtree(root, ignore_errors=True)
        lines, metas = [], []
        for i, order, seed, ops, results in runs:
            line, names = self._model_line(scenarios[i], ops, results)
            lines.append(line)
            metas.append((i, order, seed, ops, results, names))
        answers = self.model(lines)
        grouped: dict = {}
        for (i, order, seed, ops, results, names), ans in zip(metas, answers):
            sc = scenarios[i]
            impl = self._impl_canon(ops, results, names)
            mod = self._model_canon(ans)
            gets = [r for op, r in zip(ops, results) if op[0] == 'get']
            self.case(('bank', json.dumps(sc.to_json(), sort_keys=True), tuple(order), seed),
                      f'bank {sc.kind} imports={len(order)} {getattr(sc, "sequence", "hits-first")}', nontrivial=any(r[0] == 'ok' for r in gets),
                      sample={'kind': sc.kind, 'order': order, 'seed': seed, 'queries': sc.queries[:4],
                              'results': [r[:3] for r in gets[:4]]} if i < 2 and seed == seeds[0] and len(self.samples) < 8 else None)
            if impl != mod:
                k = next((j for j, (a, b) in enumerate(zip(impl, mod)) if a != b), None)
                self.diverge('provider scenario outcome', {'scenario': sc.to_json(), 'order': order, 'seed': seed,
                                                           'first_diff_op': ops[k] if k is not None else None}, impl, mod)
            grouped.setdefault(i, []).append((order, seed, ops, results))
        for i, rs in grouped.items():
            self._oracle(scenarios[i], rs)
        return scenarios

    def correspondence(self):
        self._config()
        self._bank(self.n(20, 80), self.SEEDS_QUICK if self.quick else self.SEEDS_THOROUGH)

    def search(self, reason):
        # widen: conf stacks oracle-only around the diverging shapes, more provider scenarios of every kind
        before = len(self.violations)
        # a part of the check whose oracle already produced a failing input on the real code needs no wider search
        have = {v.witness.get('kind') for v in self.violations if isinstance(v.witness, dict)}
        gen = ConfGen(self.rng)
        tmp = tempfile.mkdtemp(prefix='verif-c20-search-')
        try:
            for _ in range(0 if ('conf' in have or 'section' in have) else self.n(3000, 20000)):
                sources, _ = gen.stack()
                via = self.rng.choice(['update', 'update-kw', 'read', 'mixed'])
                impl, spec, dupes, _, eff = self._conf_eval(sources, via, tmp)
                if isinstance(impl, tuple):
                    continue
                d = conf_diff(impl, spec, dupes)
                if d:
                    sig, path, detail = d
                    self.violate(f'Config stack ({via}): at {"/".join(path) or "<root>"}: {detail}',
                                 {'kind': 'conf', 'raw': self._jsonable(self._shrink_conf(eff, via, tmp)), 'via': via}, sig)
                    break
        finally:
            shutil.rmtree(tmp, ignore_errors=True)
        if (any(d.what.startswith('provider') for d in self.divergences) or not self.divergences) and 'bank' not in have:
            self._bank(self.n(20, 60), self.SEEDS_THOROUGH)
        self.notes.append(f'failing-input search ({reason}): widened config stacks and provider scenarios, '
                          f'{len(self.violations) - before} violating input(s) found')

    def _shrink_conf(self, eff, via, tmp):
        """Greedy deletion of sources / keys while the oracle still fails."""
        def fails(srcs):
            impl, spec, dupes, _, _ = self._conf_eval(srcs, via, tmp)
            return isinstance(impl, dict) and conf_diff(impl, spec, dupes) is not None

        cur = [dict(s) for s in eff]
        changed = True
        while changed:
            changed = False
            for i in range(len(cur)):
                cand = cur[:i] + cur[i + 1:]
                if cand and fails(cand):
                    cur, changed = cand, True
                    break
            else:
                for i, s in enumerate(cur):
                    for k in list(s):
                        cand = [dict(x) for x in cur]
                        del cand[i][k]
                        if fails(cand):
                            cur, changed = cand, True
                            break
                    if changed:
                        break
        return cur

    def replay_finding(self, entry):
        w = entry['witness']
        if w.get('kind') == 'conf':
            tmp = tempfile.mkdtemp(prefix='verif-c20-replay-')
            try:
                eff = self._unjson(w['raw'])
                impl, spec, dupes, _, _ = self._conf_eval(eff, w['via'], tmp)
                if isinstance(impl, tuple):
                    return fw.Violation(f'Config raised {impl[1]}', w, 'conf-raises')
                d = conf_diff(impl, spec, dupes)
                if d:
                    return fw.Violation(f'Config stack ({w["via"]}): at {"/".join(d[1])}: {d[2]}', w, d[0])
                return None
            finally:
                shutil.rmtree(tmp, ignore_errors=True)
        if w.get('kind') == 'bank':
            sc = Scenario.from_json(w['scenario'])
            seeds = w.get('seeds') or self.SEEDS_THOROUGH
            root = tempfile.mkdtemp(prefix='verif-c20-replay-')
            saved, self.violations = self.violations, []
            try:
                d = os.path.join(root, 's')
                sc.write(d)
                orders = [w['order']] if 'order' in w else [list(p) for p in itertools.permutations(sc.imports)]
                jobs = [{'dir': d, 'ops': self._ops(sc, o)} for o in orders]
                res = spawn_workers(jobs, seeds)
                runs = [(o, s, j['ops'], r) for s in seeds for o, j, r in zip(orders, jobs, res[s])]
                self._oracle(sc, runs)
                found = self.violations
            finally:
                self.violations = saved
                shutil.rmtree(root, ignore_errors=True)
            return found[0] if found else None
        return None


if __name__ == '__main__':
    raise SystemExit(fw.run(C20))
