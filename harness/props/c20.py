"""C20 — configuration layering (forml.setup._conf.Config) and provider lookup (forml.provider Bank/Meta/Service)
vs lean/ForML/Model/Conf.lean and lean/ForML/Model/Bank.lean.

Run as `python c20.py --worker` this file is the sub-process side of the provider scenarios: one interpreter per
PYTHONHASHSEED imports forml once and forks a fresh child for every (scenario, import order) job.
"""
from __future__ import annotations

import copy
import itertools
import json
import os
import shutil
import subprocess
import sys
import tempfile
import threading

if __name__ == '__main__' and '--worker' in sys.argv:  # ------------------------------------------------ worker
    import importlib
    import inspect

    def _job(job):
        from forml import provider as prov

        sys.path.insert(0, job['dir'])
        out = []
        for op in job['ops']:
            if op[0] == 'import':
                try:
                    importlib.import_module(op[1])
                    out.append(['ok'])
                except ModuleNotFoundError:
                    out.append(['notfound'])
                except Exception as e:  # pylint: disable=broad-except
                    out.append(['err', type(e).__name__])
            elif op[0] == 'reload':
                mobj = sys.modules.get(op[1])
                if mobj is None:
                    out.append(['notfound'])
                else:
                    try:
                        importlib.reload(mobj)
                        out.append(['ok'])
                    except Exception as e:  # pylint: disable=broad-except
                        out.append(['err', type(e).__name__])
            elif op[0] == 'classinfo':
                try:
                    obj = sys.modules[op[1]]
                    for part in op[2].split('.'):
                        obj = getattr(obj, part)
                    out.append(['cls', bool(inspect.isabstract(obj)), bool(prov.isabstract(obj)),
                                sorted(getattr(obj, '__abstractmethods__', ())), [c.__qualname__ for c in obj.__mro__[1:]]])
                except (KeyError, AttributeError):
                    out.append(['absent'])
            else:
                _, imod, iqn, ref = op
                try:
                    iface = sys.modules[imod]
                    for part in iqn.split('.'):
                        iface = getattr(iface, part)
                except (KeyError, AttributeError):
                    out.append(['noiface'])
                    continue
                order = [p.value for p in prov.BANK[iface].paths]
                try:
                    cls = iface[ref]
                    ext = inspect.isabstract(cls) or any(isinstance(v, type) and inspect.isabstract(v)
                                                         for v in vars(cls).values())
                    out.append(['ok', cls.__module__, cls.__qualname__, bool(ext), order])
                except Exception as e:  # pylint: disable=broad-except
                    out.append(['err', type(e).__name__, order])
        return out

    def _worker():
        import logging
        import warnings

        warnings.filterwarnings('ignore')
        logging.disable(logging.CRITICAL)
        sys.dont_write_bytecode = True
        import forml.provider  # noqa: F401  pylint: disable=unused-import

        jobs = json.load(sys.stdin)
        results = []
        for job in jobs:
            r, w = os.pipe()
            pid = os.fork()
            if pid == 0:
                os.close(r)
                try:
                    blob = json.dumps(_job(job))
                except BaseException as e:  # pylint: disable=broad-except
                    blob = json.dumps({'crash': repr(e)})
                with os.fdopen(w, 'w') as f:
                    f.write(blob)
                os._exit(0)
            os.close(w)
            with os.fdopen(r) as f:
                blob = f.read()
            os.waitpid(pid, 0)
            results.append(json.loads(blob) if blob else {'crash': 'no output'})
        json.dump(results, sys.stdout)

    _worker()
    raise SystemExit(0)

from core import framework as fw  # noqa: E402
from core import sexp  # noqa: E402

# =================================================================================================== configuration


def is_table(v):
    return isinstance(v, dict)


def is_list(v):
    return isinstance(v, (list, tuple))


def canon(v):
    """JSON-able canonical form of a config value (implementation output or spec output)."""
    import collections.abc

    if isinstance(v, collections.abc.Mapping):
        return {'t': {str(k): canon(v[k]) for k in sorted(v)}}
    if isinstance(v, (list, tuple)):
        return {'l': [canon(i) for i in v]}
    return {'s': [type(v).__name__, v]}


def spec_layer(vals):
    """Property text, newest source first: the newest source saying something about a key decides; tables are
    layered key by key (at any depth) as long as the newer values are tables too; lists are concatenated new-first
    without repeating an element; anything else replaces what was there."""
    head = vals[0]
    if is_table(head):
        run = list(itertools.takewhile(is_table, vals))
        keys = []
        for t in run:
            keys.extend(k for k in t if k not in keys)
        return {k: spec_layer([t[k] for t in run if k in t]) for k in keys}
    if is_list(head):
        out = []
        for lst in itertools.takewhile(is_list, vals):
            for v in lst:
                if v not in out:
                    out.append(v)
        return out
    return head


def dedupe(xs):
    out = []
    for v in xs:
        if v not in out:
            out.append(v)
    return out


def dedupe_canon(c):
    """canonical form with every list reduced to first occurrences (used when a source itself repeats elements)"""
    if isinstance(c, dict) and 't' in c:
        return {'t': {k: dedupe_canon(v) for k, v in c['t'].items()}}
    if isinstance(c, dict) and 'l' in c:
        return {'l': dedupe(c['l'])}
    if isinstance(c, list):
        return [dedupe_canon(x) for x in c]
    return c


def has_dup_list(v) -> bool:
    if is_table(v):
        return any(has_dup_list(x) for x in v.values())
    if is_list(v):
        return len(dedupe(list(v))) != len(v)
    return False


def conf_diff(impl, spec, dupes: bool, path=()):
    """First difference between canonical implementation output and canonical spec → (signature, path, detail)."""
    if 't' in spec:
        if 't' not in impl:
            return 'conf-override', path, f'expected a table, got {impl}'
        for k in spec['t']:
            if k not in impl['t']:
                return 'conf-key-lost', path + (k,), 'key of some source is absent from the result'
        for k in impl['t']:
            if k not in spec['t']:
                return 'conf-key-invented', path + (k,), 'key in the result that the visible sources do not define'
        for k in spec['t']:
            d = conf_diff(impl['t'][k], spec['t'][k], dupes, path + (k,))
            if d:
                return d
        return None
    if 'l' in spec:
        if 'l' not in impl:
            return 'conf-override', path, f'expected a list, got {impl}'
        got = impl['l'] if not dupes else dedupe(impl['l'])
        if got != spec['l']:
            return 'conf-list-merge', path, f'list {impl["l"]} is not the new-first duplicate-free merge {spec["l"]}'
        return None
    if impl != spec:
        return 'conf-override', path, f'value {impl} but the newest source defining the key says {spec}'
    return None


class Numbering:
    """Numbering of the keys / scalars of one case (Python equality classes are kept apart by the generator). A string
    has one number whether it occurs as a key or as a scalar (a section name is a key in `[GROUP.name]` and a scalar in
    `default = "name"`). After `seed` the numbers are order preserving among strings (Python's string order) and among
    numbers (numeric order): the model sorts feeds by (priority, provider reference)."""

    def __init__(self):
        self.codes: dict = {}

    @staticmethod
    def _k(v):
        if isinstance(v, (dict, list, tuple)) or is_table(v):
            # a table or a nested list as an ITEM of a list: one number per equality class (items are compared, never merged)
            return ('obj', json.dumps(canon(v), sort_keys=True))
        return ('str', v) if isinstance(v, str) else (type(v).__name__, v)

    def _code(self, v) -> int:
        return self.codes.setdefault(self._k(v), len(self.codes))

    def seed(self, values):
        uniq = {self._k(v): v for v in values}
        strs = sorted(v for k, v in uniq.items() if k[0] == 'str')
        nums = sorted((v for k, v in uniq.items() if k[0] not in ('str', 'obj')), key=lambda v: (float(v), type(v).__name__))
        for v in strs + nums:
            self._code(v)

    @classmethod
    def collect(cls, v, out):
        import collections.abc

        if isinstance(v, collections.abc.Mapping):
            for k, x in v.items():
                out.append(str(k))
                cls.collect(x, out)
        elif isinstance(v, (list, tuple)):
            for x in v:
                cls.collect(x, out)
        else:
            out.append(v)
        return out

    def decode(self, code: int):
        for k, c in self.codes.items():
            if c == code:
                return k[1]
        raise KeyError(code)

    def key(self, k) -> int:
        return self._code(str(k))

    def scalar(self, v) -> int:
        return self._code(v)

    def enc(self, v):
        import collections.abc

        if isinstance(v, collections.abc.Mapping):
            return ['t'] + [[self.key(k), self.enc(v[k])] for k in v]
        if isinstance(v, (list, tuple)):
            return ['l'] + [self.scalar(i) for i in v]
        return ['s', self.scalar(v)]

    def enc_sorted(self, v):
        """Same as `enc` with table entries sorted by key number (the driver's output order)."""
        e = self.enc(v)
        return self._sort(e)

    def _sort(self, e):
        if e[0] == 't':
            return ['t'] + sorted(([k, self._sort(x)] for k, x in e[1:]), key=lambda kv: kv[0])
        return e


def toml_dumps(table: dict) -> str:
    """Minimal TOML writer (bare keys, basic strings, arrays, [dotted.headers])."""

    def val(v):
        if isinstance(v, bool):
            return 'true' if v else 'false'
        if isinstance(v, (int, float)):
            return repr(v)
        if isinstance(v, str):
            return json.dumps(v)
        if is_list(v):
            return '[' + ', '.join(val(i) for i in v) + ']'
        if is_table(v):
            return '{' + ', '.join(f'{k} = {val(x)}' for k, x in v.items()) + '}'
        raise TypeError(v)

    lines = []

    def emit(tbl, prefix):
        for k, v in tbl.items():
            if not is_table(v):
                lines.append(f'{k} = {val(v)}')
        for k, v in tbl.items():
            if is_table(v):
                lines.append(f'[{".".join(prefix + [k])}]')
                emit(v, prefix + [k])

    emit(table, [])
    return '\n'.join(lines) + '\n'


KEYS = ['a', 'b', 'c', 'd', 'e', 'path', 'default', 'params']
GROUP_KEYS = ['RUNNER', 'REGISTRY', 'FEED', 'SINK']
SECTION_REFS = ['r0', 'r1', 'r2', 'r3']
LIST_POOL = [2, 3, 4, 5, 'u', 'v', 'w', 2.5, True]
OBJ_POOL = [{'k': 2}, {'k': 3}, {'k': 2, 'j': 'u'}, {}, [2, 3], [3], [], {'k': [2], 'j': {'i': 4}}]


class ConfGen:
    def __init__(self, rng):
        self.rng = rng
        self.kinds: dict = {}

    def scalar(self):
        r = self.rng
        return r.choice([r.randint(2, 9), r.choice('uvwxyz') * r.randint(1, 2), r.random() < 0.5, r.randint(2, 9) + 0.5])

    def lst(self):
        r = self.rng
        n = r.choice([0, 1, 2, 2, 3, 4])
        if r.random() < 0.2:
            # tables and nested lists as items (unhashable; equal ones occur in several layers and twice in one list)
            pool = OBJ_POOL + LIST_POOL[:3]
            out = [json.loads(json.dumps(r.choice(pool))) for _ in range(n)] if r.random() < 0.3 else \
                [json.loads(json.dumps(x)) for x in r.sample(pool, min(n, len(pool)))]
            return out
        if r.random() < 0.12:
            out = [r.choice(LIST_POOL) for _ in range(n)]  # may repeat elements
        else:
            out = r.sample(LIST_POOL, n)
        return tuple(out) if r.random() < 0.3 else out

    def value(self, path, depth, flip):
        r = self.rng
        kind = self.kinds.setdefault(path, r.choice(['s', 's', 'l', 't', 't'] if depth < 3 else ['s', 's', 'l']))
        if r.random() < flip:
            kind = r.choice(['s', 'l', 't'] if depth < 3 else ['s', 'l'])
        if kind == 's':
            return self.scalar()
        if kind == 'l':
            return self.lst()
        return self.table(path, depth + 1, flip)

    def table(self, path, depth, flip):
        r = self.rng
        keys = r.sample(KEYS, r.choice([0, 1, 2, 3, 3, 4]))
        return {k: self.value(path + (k,), depth, flip) for k in keys}

    def group(self, flip, name='RUNNER'):
        """[RUNNER] default = rX + [RUNNER.rX] provider/params/other options; [FEED]: `default` may be a list of
        references and the sections carry a `priority`; [SINK]: `apply` / `eval` references beside `default`"""
        r = self.rng
        out = {}
        feed, sink = name == 'FEED', name == 'SINK'
        if r.random() < 0.6:
            out['default'] = r.choice(SECTION_REFS + ['r4'])
            if feed and r.random() < 0.6:
                out['default'] = r.sample(SECTION_REFS + ['r4'] * (r.random() < 0.2), r.choice([0, 1, 2, 2, 3]))
        if sink:
            for k in ('apply', 'eval'):
                if r.random() < 0.35:
                    out[k] = r.choice(SECTION_REFS + ['r4'])
        for ref in r.sample(SECTION_REFS, r.choice([0, 1, 2, 3, 4] if feed else [0, 1, 2, 3])):
            if r.random() < flip:
                out[ref] = self.scalar()
                continue
            sec = {}
            if r.random() < 0.6:
                sec['provider'] = r.choice(['dask', 'pyfunc', 'posix', 'mod:Cls'])
            if r.random() < 0.5:
                sec['params'] = {k: self.scalar() for k in r.sample(['a', 'b', 'c'] + (['priority'] if feed else []), r.randint(0, 2))}
            if feed and r.random() < 0.6:
                sec['priority'] = r.choice([0, 1, 2, 2, 5, 7, 1.5, -1])
            for k in r.sample(['a', 'b', 'c', 'd'], r.randint(0, 3)):
                sec[k] = self.scalar() if r.random() < 0.8 else self.lst()
            out[ref] = sec
        return out

    def stack(self):
        r = self.rng
        self.kinds = {}
        flip = r.choice([0.0, 0.0, 0.1, 0.3])
        n = r.randint(1, 4)
        sources = []
        groups = r.random() < 0.4
        for _ in range(n):
            src = self.table((), 0, flip)
            if groups:
                for g in GROUP_KEYS:
                    if r.random() < 0.7:
                        src[g] = self.group(flip / 2, g)
            sources.append(src)
        return sources, groups


def run_config(sources, via: str, tmpdir: str):
    """Real forml Config fed with the stack. Returns the Config object."""
    import pathlib

    from forml.setup import _conf

    if via == 'update':
        cfg = _conf.Config(sources[0])
        for s in sources[1:]:
            cfg.update(s)
        return cfg
    if via == 'update-kw':
        cfg = _conf.Config({})
        rest = list(sources)
        while rest:
            if len(rest) >= 2:
                cfg.update(rest[0], **rest[1])
                rest = rest[2:]
            else:
                cfg.update(rest[0])
                rest = rest[1:]
        return cfg
    paths = []
    for i, s in enumerate(sources):
        p = pathlib.Path(tmpdir) / f'src{i}.toml'
        p.write_text(toml_dumps(s))
        paths.append(p)
        if i == 0:
            paths.append(pathlib.Path(tmpdir) / 'absent.toml')  # a missing file is not a source
    if via == 'read':
        return _conf.Config({}, *paths)
    cfg = _conf.Config(sources[0])  # 'mixed': defaults as a mapping, the rest from files
    for p in paths[1:]:
        cfg.read(p)
    return cfg


def untuple(v):
    """TOML has no tuples and reads every array as a list."""
    if is_table(v):
        return {k: untuple(x) for k, x in v.items()}
    if is_list(v):
        return list(v)
    return v


# ======================================================================================================= providers

IFC = 'ifc'
ATTR = {'run': 1, 'extra': 2, 'level': 3, 'work': 10, 'Part': 20}


class Facts:
    """The class objects of one scenario in definition order: for every class statement its own namespace, its bases
    and its MRO — (a) as the statements sent to the Lean model (`stmts`, Model/BankAbc.lean), (b) judged by the
    harness' own spec-shaped rule (`unimpl`, `inner`, `abstract`): a class has an unimplemented abstract method iff it
    is an ABC and for some attribute name the FIRST class of its MRO defining the name defines it abstract; it is
    abstract in forml's extended sense iff additionally one of its OWN attributes is such a class."""

    def __init__(self):
        self.stmts: list = []  # [abc, [[name, attr]…], bases, mro]
        self.ns: list = []  # {attr: ('f', abstract) | ('c', index) | ('o',)}
        self.mro: list = []  # indices after the class itself
        self.abc: list = []
        self.label: list = []  # (module, qualname) for the classinfo job; None = not reported
        self.index: dict = {}  # (module, qualname) -> table index
        self.ident: list = []  # (module, qualname) of every entry (also of Service / abc.ABC / typing.Generic)
        self.service: list = []  # a subclass of Service other than Service itself
        self.root = None  # table index of forml.provider.Service

    def c3(self, bases: list) -> list:
        """C3 linearisation of the MRO tail (`object` left out); ValueError when the bases are inconsistent"""
        seqs = [[b] + list(self.mro[b]) for b in bases] + [list(bases)]
        out: list = []
        while True:
            seqs = [q for q in seqs if q]
            if not seqs:
                return out
            for q in seqs:
                cand = q[0]
                if not any(cand in t[1:] for t in seqs):
                    break
            else:
                raise ValueError('inconsistent method resolution order')
            out.append(cand)
            for q in seqs:
                if q[0] == cand:
                    del q[0]

    def add(self, label, abc: bool, ns: dict, bases: list, ident=None) -> int:
        if len(set(bases)) != len(bases):
            raise ValueError('duplicate base class')
        k = len(self.stmts)
        mro = self.c3(bases)
        enc = []
        for name, v in ns.items():
            enc.append([ATTR[name], ['f', bool(v[1])] if v[0] == 'f' else ['c', v[1]] if v[0] == 'c' else 'o'])
        self.stmts.append(['abc' if abc else 'noabc', enc, list(bases), mro])
        self.ns.append(dict(ns))
        self.mro.append(mro)
        self.abc.append(bool(abc) or any(self.abc[b] for b in bases))
        self.label.append(label)
        self.ident.append(ident or label)
        self.service.append(any(b == self.root or self.service[b] for b in bases))
        if label is not None:
            self.index[label] = k
        return k

    def resolve(self, k: int, name: str):
        for x in [k] + self.mro[k]:
            if name in self.ns[x]:
                return self.ns[x][name]
        return None

    def unimpl(self, k: int) -> bool:
        if not self.abc[k]:
            return False
        names = set()
        for x in [k] + self.mro[k]:
            names |= set(self.ns[x])
        return any((self.resolve(k, n) or ('o',))[0] == 'f' and self.resolve(k, n)[1] for n in names)

    def inner(self, k: int) -> bool:
        return any(v[0] == 'c' and self.unimpl(v[1]) for v in self.ns[k].values())

    def abstract(self, k: int) -> bool:
        return self.unimpl(k) or self.inner(k)


def convert_class(c: dict) -> dict:
    """class dicts of witnesses recorded before round 4 (`impl`, `shape`) -> members"""
    if 'run' in c or 'part' in c or 'extra' in c:
        return c
    out = {'name': c['name'], 'base': c.get('base'), 'alias': c.get('alias'), 'run': 'impl' if c.get('impl') else None,
           'extra': None, 'part': None}
    shape = c.get('shape')
    if shape == 'inner':
        out['part'] = 'new'
    elif shape in ('prop', 'mixin'):
        out['extra'] = shape
    if c.get('paths'):
        out['paths'] = list(c['paths'])
    return out


class Scenario:
    """A generated set of provider modules.

    ifc.py:  `_Part` (abstract component), `Extra_` (abstract mixin), Base(provider.Service, path=[…]) abstract through
             an abstract method (`method`), through an abstract inner class only (`inner`, like forml.io.Sink with its
             Writer) or both; Mid(Base, path=[…]) plain / with an abstract method of its own / overriding the inner class
             by one that is still abstract
    pkN/__init__.py (optionally with classes and `__all__`), pkN/<sub>.py with classes deriving from Base / Mid / an
             earlier class of the module; every class chooses for `run`, `extra`/`level` (method / property / mixin) and the
             inner class `Part` (new abstract one, assigned abstract one, concrete or still-abstract override, plain
             non-ABC class) whether it defines, implements or inherits it
    history: the operations of one process after `import ifc`: ['import', slot] (slot = index into the permuted list of
             explicitly imported modules) and ['get', interface, reference]
    """

    def __init__(self, ifc, packages, imports, history, kind):
        self.ifc = ifc  # {'base': 'method'|'inner'|'both', 'mid': 'plain'|'extra'|'still', 'base_paths': […], 'mid_paths': […]}
        self.packages = packages  # {pkg: {'all': [sub…] | None, 'mods': {sub: [cls…]}}}; sub '' = the package's __init__
        self.imports = imports  # module names imported explicitly (their order is permuted)
        self.history = history
        self.kind = kind
        self.sequence = 'hits-first'
        self._facts = None

    @property
    def base_paths(self):
        return self.ifc['base_paths']

    @property
    def mid_paths(self):
        return self.ifc['mid_paths']

    @property
    def queries(self):
        return dedupe([(op[1], op[2]) for op in self.history if op[0] == 'get'])

    def to_json(self):
        return {'ifc': self.ifc, 'packages': self.packages, 'imports': self.imports, 'history': self.history,
                'kind': self.kind, 'sequence': self.sequence}

    @classmethod
    def from_json(cls, d):
        packages = {p: {'all': pd['all'], 'mods': {s: [convert_class(c) for c in cs] for s, cs in pd['mods'].items()}}
                    for p, pd in d['packages'].items()}
        if 'history' in d:
            sc = cls(d['ifc'], packages, d['imports'], [list(op) for op in d['history']], d['kind'])
        else:  # recorded before round 4: all imports, then the queries
            ifc = {'base': 'method', 'mid': 'plain', 'base_paths': d['base_paths'], 'mid_paths': d['mid_paths']}
            hist = [['import', i] for i in range(len(d['imports']))] + [['get', q[0], q[1]] for q in d['queries']]
            sc = cls(ifc, packages, d['imports'], hist, d['kind'])
        sc.sequence = d.get('sequence', 'hits-first')
        return sc

    def with_history(self, history, sequence=None):
        v = Scenario(self.ifc, self.packages, self.imports, history, self.kind)
        v.sequence = sequence or self.sequence
        v._facts = self._facts
        v._classes = getattr(self, '_classes', None)
        return v

    # ---- facts derived from the generated definitions (the scenario's own ground truth) ----
    def facts(self) -> 'Facts':
        if self._facts is None:
            self._build()
        return self._facts

    def classes(self):
        """[(module, clsdict, abstract, ancestors [(module, name)…])] incl. the interface classes."""
        self.facts()
        return self._classes

    def _build(self):
        f = Facts()
        service = f.add(None, True, {}, [], ident=('forml_provider', 'Service'))  # metaclass Meta < ABCMeta, no abstract method
        f.root = service
        abcb = f.add(None, True, {}, [], ident=('abc', 'ABC'))
        generic = f.add(None, False, {}, [], ident=('typing', 'Generic'))
        part0 = f.add((IFC, '_Part'), False, {'work': ('f', True)}, [abcb])
        extra0 = f.add((IFC, 'Extra_'), False, {'extra': ('f', True)}, [abcb])
        plain0 = f.add((IFC, 'Plain_'), False, {}, [])  # a plain mixin
        tool0 = f.add((IFC, 'Tool_'), False, {}, [abcb])  # an ABC mixin without abstract methods
        self._part0, self._extra0 = part0, extra0
        tokens = {'Extra_': extra0, 'Plain_': plain0, 'Tool_': tool0, 'Generic': generic}
        out = []
        env: dict = {}  # class name visible in a module -> (module, clsdict, table index, ancestors)

        def define(mod, c, scope):
            base = scope.get(c['base']) if c.get('base') else None
            bidx = base[2] if base else service
            ns: dict = {}
            if c.get('run'):
                ns['run'] = ('f', c['run'] == 'abstract')
            extra = c.get('extra')
            if extra == 'method':
                ns['extra'] = ('f', True)
            elif extra == 'impl':
                ns['extra'] = ('f', False)
            elif extra == 'prop':
                ns['level'] = ('f', True)
            part = c.get('part')
            if part:
                inherited = f.resolve(bidx, 'Part')
                parent = inherited[1] if inherited and inherited[0] == 'c' else part0
                qual = (mod, f"{c['name']}.Part")
                if part == 'new':
                    pk = f.add(qual, False, {'work': ('f', True)}, [abcb])
                elif part == 'assigned':
                    pk = part0
                elif part == 'concrete':
                    pk = f.add(qual, False, {'work': ('f', False)}, [parent])
                elif part == 'still':
                    pk = f.add(qual, False, {}, [parent])
                elif part == 'plain':
                    pk = f.add(qual, False, {'work': ('f', True)}, [])
                else:
                    raise ValueError(part)
                ns['Part'] = ('c', pk)
            def tok(t):
                return scope['Side'][2] if t == 'Side' else tokens[t]

            bases = ([extra0] if extra == 'mixin' else []) + [tok(t) for t in c.get('pre') or []] + [bidx] \
                + [tok(t) for t in c.get('post') or []]
            k = f.add((mod, c['name']), False, ns, bases)
            # every Service ancestor of the MRO (whatever stands between), in MRO order
            anc = [f.ident[x] for x in f.mro[k] if f.service[x]]
            entry = (mod, c, k, anc)
            scope[c['name']] = entry
            out.append((mod, c, f.abstract(k), anc))
            return entry

        kind, mid = self.ifc.get('base', 'method'), self.ifc.get('mid', 'plain')
        basec = {'name': 'Base', 'base': None, 'alias': None, 'run': 'abstract' if kind in ('method', 'both') else 'impl',
                 'part': 'assigned' if kind in ('inner', 'both') else None, 'extra': None, 'paths': self.base_paths}
        midc = {'name': 'Mid', 'base': 'Base', 'alias': None, 'run': None, 'extra': 'method' if mid == 'extra' else None,
                'part': 'still' if mid == 'still' else None, 'paths': self.mid_paths}
        sidec = {'name': 'Side', 'base': None, 'alias': None, 'run': 'abstract', 'part': None, 'extra': None,
                 'paths': self.ifc.get('side_paths') or []}
        define(IFC, basec, env)
        define(IFC, midc, env)
        define(IFC, sidec, env)  # a second interface: providers may derive from several
        for pkg, pd in self.packages.items():
            for sub, clss in pd['mods'].items():
                mod = f'{pkg}.{sub}' if sub else pkg
                scope = dict(env)
                for c in clss:
                    define(mod, c, scope)
        self._facts = f
        self._classes = out

    def render_class(self, c: dict, scope_has_part) -> str:
        def kw():
            s = ''
            if c.get('alias'):
                s += f", alias={c['alias']!r}"
            if c.get('paths'):
                s += f", path={list(c['paths'])!r}"
            return s

        base = c['base'] or 'provider.Service'

        def expr(t):
            return 'typing.Generic[T]' if t == 'Generic' else t

        bases = ', '.join((['Extra_'] if c.get('extra') == 'mixin' else []) + [expr(t) for t in c.get('pre') or []] + [base]
                          + [expr(t) for t in c.get('post') or []])
        src = f"class {c['name'].split('.')[-1]}({bases}{kw()}):\n"
        body = ''
        if c.get('run') == 'impl':
            body += '    def run(self):\n        return None\n'
        elif c.get('run') == 'abstract':
            body += '    @abc.abstractmethod\n    def run(self):\n        """work"""\n'
        if c.get('extra') == 'method':
            body += '    @abc.abstractmethod\n    def extra(self):\n        """more"""\n'
        elif c.get('extra') == 'impl':
            body += '    def extra(self):\n        return None\n'
        elif c.get('extra') == 'prop':
            body += '    @property\n    @abc.abstractmethod\n    def level(self):\n        """level"""\n'
        part = c.get('part')
        parent = f'{base}.Part' if scope_has_part else '_Part'
        if part == 'new':
            body += '    class Part(abc.ABC):\n        @abc.abstractmethod\n        def work(self):\n            """component"""\n'
        elif part == 'assigned':
            body += '    Part = _Part\n'
        elif part == 'concrete':
            body += f'    class Part({parent}):\n        def work(self):\n            return 1\n'
        elif part == 'still':
            body += f'    class Part({parent}):\n        pass\n'
        elif part == 'plain':
            body += '    class Part:\n        @abc.abstractmethod\n        def work(self):\n            """not an ABC"""\n'
        return src + (body or '    pass\n') + '\n'

    def write(self, root: str):
        os.makedirs(root, exist_ok=True)
        f = self.facts()
        bykey = {(m, c['name']): c for m, c, _, _ in self._classes}

        def has_part(mod, c):
            """does the class named as base already have an attribute `Part` (own or inherited)?"""
            if not c.get('base'):
                return False
            # the base is an interface class or an earlier class of the same module
            for key in ((mod, c['base']), (IFC, c['base'])):
                if key in f.index and key in bykey:
                    r = f.resolve(f.index[key], 'Part')
                    return bool(r and r[0] == 'c')
            return False

        head = ('import abc\nimport typing\nfrom forml import provider\n\nT = typing.TypeVar(\'T\')\n\n'
                'class Plain_:\n    def helper(self):\n        return 1\n\n'
                'class Tool_(abc.ABC):\n    def tool(self):\n        return 2\n\n'
                'class _Part(abc.ABC):\n    @abc.abstractmethod\n    def work(self):\n        """component"""\n\n'
                'class Extra_(abc.ABC):\n    @abc.abstractmethod\n    def extra(self):\n        """more"""\n\n')
        with open(os.path.join(root, f'{IFC}.py'), 'w') as fh:
            fh.write(head + ''.join(self.render_class(c, has_part(IFC, c)) for m, c, _, _ in self._classes if m == IFC))
        for pkg, pd in self.packages.items():
            os.makedirs(os.path.join(root, pkg), exist_ok=True)

            def render(mod, clss):
                src = f'import abc\nimport typing\nfrom {IFC} import Base, Mid, Side, _Part, Extra_, Plain_, Tool_, T\n\n'
                open_ns = None
                for c in clss:
                    text = self.render_class(c, has_part(mod, c))
                    indented = ''.join(('    ' + ln if ln.strip() else ln) for ln in text.splitlines(True))
                    bare = c['name'].split('.')[-1]
                    if c.get('ns'):  # a provider class nested in a plain namespace class: qualname `<ns>.<bare>`
                        if open_ns != c['ns']:
                            src += f"class {c['ns']}:\n    \"\"\"namespace\"\"\"\n\n"
                            open_ns = c['ns']
                        src += indented
                        continue
                    open_ns = None
                    if c.get('factory'):  # the class statement executed once per call: same qualname, new class object
                        src += (f'def make_{bare}(tag):\n' + indented.rstrip('\n') + f'\n    {bare}.TAG = tag\n    return {bare}\n\n'
                                + ''.join(f'{bare}_{i} = make_{bare}({i})\n' for i in range(c['factory'])) + '\n')
                    else:
                        src += text
                return src

            init = render(pkg, pd['mods'].get('', []))
            if pd['all'] is not None:
                init += f"__all__ = {list(pd['all'])!r}\n"
            with open(os.path.join(root, pkg, '__init__.py'), 'w') as fh:
                fh.write(init)
            for sub, clss in pd['mods'].items():
                if sub:
                    with open(os.path.join(root, pkg, f'{sub}.py'), 'w') as fh:
                        fh.write(render(f'{pkg}.{sub}', clss))


class Names:
    """Numbering of the strings of one scenario. Module names are ordered in the model (Bank.get sorts its search paths),
    so a numbering made from a `universe` is order preserving: s < t as Python strings iff n(s) < n(t). Because '.'
    sorts before every identifier character, the component-wise order of the model's (pkg, sub) pairs is then Python's
    order of the dotted names. Strings met later (not part of the universe) get fresh numbers at the end."""

    def __init__(self, universe=None):
        self.tab: dict = {s: i for i, s in enumerate(sorted(set(universe or ())))}

    def n(self, s: str) -> int:
        return self.tab.setdefault(s, len(self.tab))

    def mod(self, dotted: str):
        parts = dotted.split('.')
        if len(parts) == 1:
            return [self.n(parts[0]), None]
        if len(parts) == 2:
            return [self.n(parts[0]), self.n(parts[1])]
        raise ValueError(dotted)


def scenario_world(sc: Scenario, names: Names):
    """S-expression of the model's WorldT for a scenario (the class flags are computed by the model from the table)."""
    f = sc.facts()
    mods: dict = {IFC: {'subs': [], 'classes': []}}
    for pkg, pd in sc.packages.items():
        mods[pkg] = {'subs': list(pd['all'] or []), 'classes': []}
        for sub in pd['mods']:
            if sub:
                mods[f'{pkg}.{sub}'] = {'subs': [], 'classes': []}
    for mod, c, _, anc in sc.classes():
        for _ in range(c.get('factory') or 1):
            mods[mod]['classes'].append([names.mod(mod), names.n(c['name']), names.n(c['alias']) if c.get('alias') else None,
                                         f.index[(mod, c['name'])],
                                         [[[names.mod(f.ident[x][0]), names.n(f.ident[x][1])], bool(f.service[x])]
                                          for x in f.mro[f.index[(mod, c['name'])]]],
                                         [names.mod(p) for p in c.get('paths') or []]])
    return [[names.mod(m), [names.n(s) for s in d['subs']], d['classes']] for m, d in mods.items()]


def ref_sexp(ref: str, names: Names):
    if ':' in ref:
        m, q = ref.split(':', 1)
        return ['q', names.mod(m), names.n(q)]
    return ['a', names.n(ref)]


LAZY_SIG = 'lazy-collision-late-or-order-dependent'
NESTED_SIG = 'lookup-not-idempotent-path-registered-during-lookup'
ERRMAP = {'collision': 'UnexpectedError', 'abstract-alias': 'UnexpectedError', 'preload': 'MissingError',
          'missing': 'MissingError'}


class ScenGen:
    ALIASES = ['foo', 'bar', 'baz', 'qux']
    SUBS = ['foo', 'bar', 'baz', 'm1', 'm2']

    def __init__(self, rng):
        self.rng = rng

    def shape(self, concrete_wanted: bool, base_abstract_run: bool):
        """members of one class: how it deals with `run`, with an extra abstract method / property / mixin and with the
        inner class `Part`"""
        r = self.rng
        c = {'run': None, 'extra': None, 'part': None}
        if concrete_wanted:
            c['run'] = 'impl' if (base_abstract_run or r.random() < 0.5) else None
            c['part'] = r.choice([None, None, 'concrete', 'plain'])
            c['extra'] = r.choice([None, None, None, 'impl'])
            return c
        c['run'] = r.choice(['impl', 'impl', 'impl', None, 'abstract'])
        c['part'] = r.choice([None, None, None, 'new', 'assigned', 'concrete', 'still', 'plain'])
        c['extra'] = r.choice([None, None, None, None, 'method', 'prop', 'mixin', 'impl'])
        return c

    MIXINS = ['Plain_', 'Tool_', 'Generic', 'Side', 'Side', 'Extra_']

    def mixins(self, c, out, sc_probe, mod):
        """further bases at any position: plain classes, ABCs, typing.Generic, an abstract mixin, a second interface
        (`Side`) — before (`pre`) or after (`post`) the base the class derives from; dropped again when the bases are
        inconsistent (no C3 linearisation)"""
        r = self.rng
        if r.random() >= 0.4:
            return
        used, b = set(), c.get('base')
        while b not in (None, 'Base', 'Mid'):  # what the local ancestors mix in already
            anc = next(x for x in out if x['name'] == b)
            used |= set(anc.get('pre') or []) | set(anc.get('post') or []) | ({'Extra_'} if anc.get('extra') == 'mixin' else set())
            b = anc.get('base')
        picks = [t for t in dedupe(r.sample(self.MIXINS, r.choice([1, 1, 2]))) if t not in used]
        if c.get('extra') == 'mixin':
            picks = [t for t in picks if t != 'Extra_']
        trial = dict(c, pre=[t for t in picks if r.random() < 0.6])
        trial['post'] = [t for t in picks if t not in trial['pre']]
        try:
            sc_probe(mod, out + [trial])
        except ValueError:
            return
        c['pre'], c['post'] = trial['pre'], trial['post']

    def module_classes(self, sc_probe, mod, aliases_free, want_alias=None):
        """1..3 classes for one module deriving from Base / Mid / an earlier class of the module. `sc_probe(clss)` tells
        which of them are abstract (the scenario's own rule); only concrete classes get an alias."""
        r = self.rng
        out = []
        names = ['Impl', 'Helper', 'Extra']
        for i in range(r.choice([1, 1, 2, 3])):
            base = r.choice(['Base', 'Mid'] + [c['name'] for c in out if not c.get('factory')])
            want = i == 0 and want_alias is not None
            c = {'name': names[i], 'base': base, 'alias': None}
            self.mixins(c, out, sc_probe, mod)
            for attempt in range(8):
                c.update(self.shape(want or r.random() < 0.55, True))
                if 'Extra_' in (c.get('pre') or []) + (c.get('post') or []) and c['extra'] in ('mixin', None) and (
                        want or r.random() < 0.6):
                    c['extra'] = 'impl'  # the mixin's abstract method implemented
                if c['extra'] == 'mixin' and (c.get('pre') or c.get('post')):
                    c['extra'] = None
                try:
                    sc_probe(mod, out + [c])
                except ValueError:  # bases without a C3 linearisation (the same mixin ahead of a class that has it)
                    c.update({'pre': [], 'post': [], 'extra': None if c['extra'] == 'mixin' else c['extra']})
                if not want or not sc_probe(mod, out + [c])[-1]:
                    break
            abstract = sc_probe(mod, out + [c])[-1]
            if not abstract:
                if want:
                    c['alias'] = want_alias
                elif aliases_free and r.random() < 0.6:
                    c['alias'] = aliases_free.pop()
            out.append(c)
        if r.random() < 0.3:
            # two different classes with the same bare name nested in two namespace classes (`Production.Node`,
            # `Development.Node`): same module, same __name__, different __qualname__
            for ns in ('Production', 'Development'):
                c = {'name': f'{ns}.Node', 'ns': ns, 'base': r.choice(['Base', 'Mid']), 'alias': None}
                self.mixins(c, out, sc_probe, mod)
                c.update(self.shape(r.random() < 0.7, True))
                if c['extra'] == 'mixin' and (c.get('pre') or c.get('post')):
                    c['extra'] = 'impl'
                if not sc_probe(mod, out + [c])[-1] and aliases_free and r.random() < 0.6:
                    c['alias'] = aliases_free.pop()
                out.append(c)
        if r.random() < 0.25:
            # a class made by a factory function called once or twice: the same statement, the same qualname
            # (`make_Fac.<locals>.Fac`), another class object each time
            c = {'name': 'make_Fac.<locals>.Fac', 'factory': r.choice([1, 2, 2]), 'base': r.choice(['Base', 'Mid']), 'alias': None}
            c.update(self.shape(r.random() < 0.8, True))
            if c.get('extra') == 'mixin':
                c['extra'] = None
            if not sc_probe(mod, out + [c])[-1] and aliases_free and r.random() < 0.6:
                c['alias'] = aliases_free.pop()
            out.append(c)
        return out

    WAYS = {'inherited': {'run': None, 'extra': None, 'part': None},
            'own-method': {'run': 'impl', 'extra': 'method', 'part': None},
            'prop': {'run': 'impl', 'extra': 'prop', 'part': None},
            'mixin': {'run': 'impl', 'extra': 'mixin', 'part': None},
            'reabstracted': {'run': 'abstract', 'extra': 'impl', 'part': None},
            # abstract in forml's extended sense only: every method implemented, an abstract class among the own attributes
            'inner-new': {'run': 'impl', 'extra': 'impl', 'part': 'new'},
            'inner-assigned': {'run': 'impl', 'extra': 'impl', 'part': 'assigned'},
            'inner-still': {'run': 'impl', 'extra': 'impl', 'part': 'still'}}

    def abstract_aliased(self, sc_probe, mod, existing, inner_only: bool, name='Abs'):
        """an aliased class that is abstract in a chosen way (the alias must be refused)"""
        r = self.rng
        ways = [w for w in self.WAYS if w.startswith('inner') == inner_only]
        r.shuffle(ways)
        for way in ways + ['own-method']:
            c = {'name': name, 'base': r.choice(['Base', 'Mid']), 'alias': name.lower()}
            c.update(self.WAYS[way])
            if sc_probe(mod, existing + [c])[-1]:
                return c
        return c

    def make(self, kind: str) -> Scenario:
        """kind: clean-explicit | collision-explicit | abstract-alias | clean-lazy | collision-lazy | preload | nested-lazy"""
        r = self.rng
        npk = r.choice([1, 2, 2, 3]) if kind != 'collision-lazy' else 2
        pkgs = [f'pk{i}' for i in range(npk)]
        free = list(self.ALIASES)
        r.shuffle(free)
        ifc = {'base': r.choice(['method', 'method', 'inner', 'both']), 'mid': r.choice(['plain', 'plain', 'extra', 'still']),
               'base_paths': [], 'mid_paths': []}
        packages: dict = {}

        def probe(mod, clss):
            """abstractness (scenario rule) of the classes `clss` placed in module `mod` of the world built so far"""
            pkg, _, sub = mod.partition('.')
            trial = {p: {'all': pd['all'], 'mods': dict(pd['mods'])} for p, pd in packages.items()}
            mods = dict(trial.setdefault(pkg, {'all': None, 'mods': {}})['mods'])
            mods[sub] = clss
            trial[pkg]['mods'] = mods
            t = Scenario(ifc, trial, [], [], kind)
            return [a for m, c, a, _ in t.classes() if m == mod]

        modules = []
        for pkg in pkgs:
            subs = r.sample(self.SUBS, r.choice([1, 2, 2, 3]) if kind.endswith('lazy') else r.choice([1, 1, 2]))
            packages[pkg] = {'all': None, 'mods': {}}
            if r.random() < 0.25:
                # classes in the package's own __init__ (registered whenever anything below the package is imported)
                packages[pkg]['mods'][''] = self.module_classes(probe, pkg, free)[:2]
            for sub in subs:
                # in lazy scenarios a class is discoverable by alias only if the module is named after it
                want = sub if (kind.endswith('lazy') and sub in free and r.random() < 0.8) else None
                if want:
                    free.remove(want)
                packages[pkg]['mods'][sub] = self.module_classes(probe, f'{pkg}.{sub}', free, want_alias=want)
                modules.append(f'{pkg}.{sub}')
            packages[pkg]['all'] = r.choice([None, list(subs), list(subs), subs[:1] + ['ghost']])
        if len(modules) > 4:  # at most 4 explicitly imported modules (4! orders)
            modules = r.sample(modules, 4)
        if kind in ('collision-explicit', 'collision-lazy'):
            # the same alias bound to two different classes in two modules
            alias = 'dup'
            dupc = {'name': 'Dup', 'base': 'Base', 'alias': alias, 'run': 'impl', 'extra': None, 'part': None}
            if kind == 'collision-lazy':
                for pkg in pkgs[:2]:
                    packages[pkg]['mods'][alias] = [dict(dupc, name='Impl', base=r.choice(['Base', 'Mid']))]
                    if packages[pkg]['all'] is not None and r.random() < 0.5:
                        packages[pkg]['all'] = packages[pkg]['all'] + [alias]
            else:
                chosen = r.sample(modules, 2) if len(modules) >= 2 else None
                if chosen is None:
                    pkg = pkgs[0]
                    packages[pkg]['mods']['zz'] = []
                    modules.append(f'{pkg}.zz')
                    chosen = modules[:2]
                for m in chosen:
                    pkg, sub = m.split('.')
                    first = packages[pkg]['mods'][sub]
                    pos = r.randint(0, len(first))
                    while 0 < pos < len(first) and first[pos].get('ns') and first[pos - 1].get('ns') == first[pos]['ns']:
                        pos += 1  # not into the middle of a namespace class
                    first.insert(pos, dict(dupc, base=r.choice(['Base', 'Mid'])))
                # … and two different classes with the same bare name (`Alpha.Twin`, `Beta.Twin`) in ONE module claiming
                # one alias: what tells them apart is the qualified name only
                others = [m for m in modules if m not in chosen] or modules
                pkg, sub = r.choice(others).split('.')
                for ns in ('Alpha', 'Beta'):
                    packages[pkg]['mods'][sub].append(dict(dupc, name=f'{ns}.Twin', ns=ns, alias='twin', base=r.choice(['Base', 'Mid'])))
        if kind == 'abstract-alias':
            # two aliased abstract classes (in different modules when there are two): one that is abstract in the
            # extended sense only (an abstract class among its own attributes), one abstract through its methods
            picks = r.sample(modules, 2) if len(modules) >= 2 else [modules[0], modules[0]]
            for m, inner_only, name in ((picks[0], True, 'AbsI'), (picks[1], False, 'Abs')):
                pkg, sub = m.split('.')
                lst = packages[pkg]['mods'][sub]
                pos = r.randint(0, len(lst))
                lst.insert(pos, self.abstract_aliased(probe, m, lst[:pos], inner_only, name))
        nested = None
        if kind == 'nested-lazy':
            # a package that is on no interface's search path: a class discovered in a searched package declares it
            # (`path=`) — the search path is registered while a lookup is running
            host = r.choice(pkgs)
            gate = {'name': 'Gate', 'base': r.choice(['Base', 'Mid']), 'alias': None, 'run': r.choice([None, 'impl']),
                    'extra': None, 'part': None, 'paths': ['pkn']}
            packages[host]['mods'] = dict({'': packages[host]['mods'].get('', []) + [gate]},
                                          **{k: v for k, v in packages[host]['mods'].items() if k})
            nested = r.choice(['nest', 'deep'])
            packages['pkn'] = {'all': None, 'mods': {nested: [{'name': 'Impl', 'base': 'Base', 'alias': nested, 'run': 'impl',
                                                                'extra': 'impl', 'part': None}]}}
        lazy = kind.endswith('lazy') or kind == 'preload'
        base_paths = list(pkgs) if (lazy or r.random() < 0.5) else []
        if kind == 'preload':
            base_paths.append('nopkg')
        r.shuffle(base_paths)
        ifc['base_paths'] = base_paths
        ifc['mid_paths'] = [pkgs[-1]] if r.random() < 0.2 else []
        ifc['side_paths'] = [r.choice(pkgs)] if (lazy and r.random() < 0.4) else []
        sc = Scenario(ifc, packages, [] if lazy else modules, [], kind)
        if kind == 'clean-lazy' and r.random() < 0.5:
            # partially pre-imported (1..3 modules, every order): explicit imports interleaved with lazy discovery
            sc.imports = r.sample(modules, min(len(modules), r.choice([1, 2, 3])))
        # queries: every alias and every qualified name against Base and Mid, plus unknown references
        qs = []
        for mod, c, abstract, anc in sc.classes():
            if mod == IFC:
                continue
            # through every Service ancestor of the MRO (interfaces and classes of the module alike) the alias and the
            # qualified name resolve to the same class
            for amod, aname in anc:
                if '<locals>' in aname:
                    continue
                tok = aname if amod == IFC else f'{amod}:{aname}'
                if c.get('alias') and r.random() < 0.5:
                    qs.append((tok, c['alias']))
                if r.random() < 0.35:
                    qs.append((tok, f"{mod}:{c['name']}"))
            if c.get('alias'):
                qs.append(('Base', c['alias']))
                if r.random() < 0.5:
                    qs.append(('Mid', c['alias']))
            if r.random() < 0.7 or kind == 'collision-lazy' or abstract:
                qs.append((r.choice(['Base', 'Base', 'Mid']), f"{mod}:{c['name']}"))
        qs = dedupe(qs)
        r.shuffle(qs)
        # every abstract class is looked up by its qualified name (kept when the list is cut below), the interface
        # classes included
        absq = {f"{mod}:{c['name']}" for mod, c, abstract, _ in sc.classes() if abstract and mod != IFC}
        qs = [q for q in qs if q[1] in absq][:4] + [q for q in qs if q[1] not in absq]
        if kind == 'preload':
            qs = []
        if kind == 'collision-lazy':
            # the colliding alias first (before anything else triggers imports), then the rest
            qs = [('Base', 'dup')] + [q for q in qs if q != ('Base', 'dup')]
        if nested:
            # asked twice in a row, before anything else has imported the declaring package
            qs = [('Base', nested), ('Base', nested)] + [q for q in qs if q != ('Base', nested)]
        qs = qs[:12] + [('Base', f'{IFC}:Base'), (r.choice(['Base', 'Mid']), f'{IFC}:Mid'), ('Side', f'{IFC}:Side')]
        qs += [('Base', 'nosuch'), ('Base', 'pk0.foo:Nosuch'), ('Mid', 'nomod:Impl'), ('Side', 'nosuch')]
        if kind != 'preload':
            qs += self.near_misses(sc)
        sc.history = [['import', i] for i in range(len(sc.imports))] + [['get', i, q] for i, q in qs]
        return sc

    def variants(self, sc: Scenario):
        """The same world with other histories: misses before hits, a shuffle with repeated lookups, and the explicit
        imports interleaved with the lookups (lookups of other references / misses / repeats before an import, in
        between, after)."""
        r = self.rng
        carried = set()
        for mod, c, _, _ in sc.classes():
            carried.add(f"{mod}:{c['name']}")
            if c.get('alias'):
                carried.add(c['alias'])
        imps = [op for op in sc.history if op[0] == 'import']
        gets = [op for op in sc.history if op[0] == 'get']
        hits = [g for g in gets if g[2] in carried]
        misses = [g for g in gets if g[2] not in carried]
        r.shuffle(misses)
        r.shuffle(hits)
        mixed = list(gets)
        r.shuffle(mixed)
        again = r.sample(gets, min(5, len(gets)))
        inter = list(mixed) + r.sample(gets, min(4, len(gets)))
        # the relative order of the import slots is kept (the slots are permuted by the orders)
        pos = sorted(r.randint(0, len(inter)) for _ in imps)
        for off, (p, imp) in enumerate(zip(pos, imps)):
            inter.insert(p + off, imp)
        mods = [f'{p}.{s2}' if s2 else p for p, pd in sc.packages.items() for s2 in pd['mods']]
        if mods:  # a module executed again (importlib.reload): same qualnames, new class objects
            for _ in range(r.choice([1, 1, 2])):
                inter.insert(r.randint(len(inter) // 3, len(inter)), ['reload', r.choice(mods)])
            mixed = mixed[:len(mixed) // 2] + [['reload', r.choice(sc.imports or mods)]] + mixed[len(mixed) // 2:]
        twice = []
        for g in misses + hits:  # every third lookup asked twice in a row
            twice += [g, g] if r.random() < 0.35 else [g]
        out = [sc]
        for hist, tag in ((imps + twice, 'miss-first'), (imps + mixed + again, 'shuffled-repeated'),
                          (inter, 'interleaved')):
            out.append(sc.with_history(hist, tag))
        return out

    def near_misses(self, sc: Scenario):
        """Unknown references that resemble something that exists: class names used as aliases, aliases in another
        case / truncated / extended, names of modules that carry no such alias, qualified names with the right module and
        a wrong class or the package in place of the module. None of them is carried by any class of the scenario."""
        r = self.rng
        classes = [(mod, c) for mod, c, _, _ in sc.classes() if mod != IFC]
        aliases = {c['alias'] for _, c in classes if c.get('alias')}
        quals = {f"{mod}:{c['name']}" for mod, c in classes}
        cand = []
        for mod, c in classes:
            cand += [c['name'], c['name'].lower(), f"{mod}:{c['name'].lower()}", f"{mod.split('.')[0]}:{c['name']}",
                     f"{mod}:{c['name']}x", f"{mod}:{c['name']}.Part"]
            if '.' in mod:
                cand.append(mod.split('.')[1])  # alias spelled like an importable module
            if c.get('alias'):
                cand += [c['alias'].upper(), c['alias'][:-1], c['alias'] + 'x']
        cand = [x for x in dedupe(cand) if x and x not in aliases and x not in quals]
        return [(r.choice(['Base', 'Base', 'Mid', 'Side']), x) for x in r.sample(cand, min(3, len(cand)))]


def spawn_workers(jobs: list, seeds: list, timeout: int = 800):
    """Run every job under every PYTHONHASHSEED. Returns {seed: [result per job]}."""
    out: dict = {}
    errors: list = []

    def one(seed):
        env = dict(os.environ)
        env['PYTHONHASHSEED'] = str(seed)
        env['PYTHONDONTWRITEBYTECODE'] = '1'
        try:
            # cwd = the scenarios' temporary root: forml's default log file (./<argv0>.log) must not land in /verif
            p = subprocess.run([sys.executable, os.path.abspath(__file__), '--worker'], input=json.dumps(jobs),
                               capture_output=True, text=True, env=env, timeout=timeout,
                               cwd=os.path.dirname(jobs[0]['dir']) if jobs else None)
            if p.returncode != 0:
                raise RuntimeError(p.stderr[-800:])
            out[seed] = json.loads(p.stdout)
        except Exception as e:  # pylint: disable=broad-except
            errors.append(f'seed {seed}: {e!r}')

    threads = [threading.Thread(target=one, args=(s,)) for s in seeds]
    for t in threads:
        t.start()
    for t in threads:
        t.join()
    if errors:
        raise fw.MachineryError('provider worker failed: ' + '; '.join(errors)[:1500])
    return out


class C20(fw.Check):
    ID = 'C20'
    LEAN_MODULES = ['ForML.Props.C20']
    DRIVER = 'drv_c20'
    RULE = ('Config: stacks of 1..4 random nested mappings (depth <= 4; scalars int/str/bool/float, lists and tuples '
            'with and without repeated elements - a fifth of them with tables and nested lists as items, equal ones in '
            'several layers -, tables; a key keeps its kind across sources with probability 0.7..1.0, '
            'otherwise it flips) fed to the real Config through update, update(other, **kw), TOML files + read (incl. a '
            'missing file) and defaults + read; distinct by (sources, via), non-trivial when >= 2 sources share a key. '
            'Sections: [RUNNER]/[REGISTRY] groups with default / provider / params resolved through setup.Runner/Registry; '
            '[FEED] groups (default = one reference or a list, sections with priority, priority inside params) through '
            'setup.Feed.resolve(None | reference | list of references in several orders | a missing one) and [SINK] groups '
            '(default / apply / eval) through setup.Sink.Mode.resolve. '
            'Providers: generated packages (1..3 packages, 1..3 modules each plus classes in package __init__ files, 1..3 '
            'classes per module deriving from the interface, an intermediate or an earlier class; every class chooses whether '
            'it implements / declares abstract / inherits `run`, an extra abstract method, property or mixin and an inner class '
            '(new abstract, assigned abstract, concrete override, still-abstract override, plain non-ABC); pairs of provider '
            'classes with one bare name nested in two namespace classes, classes made by a factory function called once or '
            'twice (same qualname, new class object), equal qualnames in different modules; 40 % of the classes with further '
            'bases before / after the one they derive from: a plain class, an ABC, typing.Generic[T], an abstract mixin, a '
            'second interface (diamonds); look-ups through every Service ancestor of the MRO, classes of the module '
            'included; the interface is '
            'abstract through a method, through an inner class only, or both; aliases, qualified names, __all__ lists with '
            'ghosts) of kinds clean-explicit, collision-explicit (an alias defined in two modules and an alias claimed by two nested '
            'classes with one bare name in one module), abstract-alias (one class abstract in the extended sense '
            'only, one through its methods), clean-lazy (half with 1..3 modules pre-imported explicitly), collision-lazy, '
            'preload, nested-lazy (a discovered class declares a further search path). Four histories per world (hits first; '
            'misses first with lookups asked twice in a row; shuffled with repeats; explicit imports interleaved with the '
            'lookups; importlib.reload of a module in the last two) x every permutation (quick: <= 6 sampled) of the explicit imports x PYTHONHASHSEEDs, each in a freshly '
            'forked process of an interpreter that has only forml imported; under the first two hash seeds and import orders '
            'every lookup additionally on its own in a fresh process (single-shot answer). Lookups: every alias / qualified '
            'name incl. those of abstract classes and of the interface classes, three fixed unknown references and up to three '
            'near-miss unknown references through Base[...] and Mid[...]. A provider case is distinct by (scenario, history, '
            'import order, seed); a class case by (class statement, statements of its MRO).')
    TRUSTED = [
        'tomli (TOML reader), the minimal TOML writer of the harness, MappingProxyType wrappers',
        'CPython import machinery (__import__/fromlist/__all__, sys.modules), C3 linearisation (the MRO of a class statement '
        'is an input of the model; compared with the real __mro__ of every generated class), sorted() on Bank.Path tuples, '
        'and set iteration order: Bank.get sorts the set on every iteration and so does the model (C20_lookup_order_free); '
        'the iteration order observed in the real process is only checked to be a permutation of the model\'s path set',
        'os.fork children of one interpreter per hash seed stand for fresh processes (forml imported, nothing else)',
    ]
    ASSUMPTIONS = ['items of a list (scalars, tables, nested lists) are compared by equality and never merged; nested list '
                   'items are lists (not tuples); the model numbers an item by its equality class',
                   'C3 linearisation of the generated bases (mixins at any position, several interfaces) is computed by the '
                   'harness and compared with the real __mro__; module names have at most two '
                   'components; module bodies are class statements (import edges between provider modules are not modelled)',
                   'scalars of different Python types that compare equal (1 == True == 1.0) are not mixed in one case',
                   'section references are non-empty strings, feed priorities plain numbers; ill-formed configurations (a '
                   'section that is no table, a non-numeric priority, a non-string provider) are not judged']

    SEEDS_QUICK = [0, 1, 2, 3]
    SEEDS_THOROUGH = [0, 1, 2, 3, 4, 5, 6, 7]

    # ---------------------------------------------------------------------------------------------- configuration
    def _conf_cases(self, n):
        gen = ConfGen(self.rng)
        corpus = [
            ([{'a': 1 + 1}], False), ([{'a': {'b': 2}}, {'a': {'c': 3}}], False), ([{'a': [2, 3]}, {'a': [3, 4]}], False),
            ([{'a': [2, 3]}, {'a': 5}, {'a': [4]}], False), ([{'a': {'b': 2}}, {'a': 7}, {'a': {'c': 3}}], False),
            ([{'a': [2, 2]}, {'a': [3]}], False), ([{'a': {'b': {'c': [2]}}}, {}, {'a': {'b': {'c': (3, 2)}}}], False),
            ([{'a': [2]}, {'b': 3}, {'a': [3]}, {'a': [2, 4]}], False), ([{}, {}], False),
            ([{'a': {'b': 3}}, {'a': 5}, {'a': {'c': 2}}], False),  # C20_assoc_counterexample
            ([{'RUNNER': {'default': 'r0', 'r0': {'provider': 'dask', 'a': 2}}},
              {'RUNNER': {'r0': {'params': {'a': 3, 'b': 4}}, 'r1': {'c': 5}}}], True),
            ([{'FEED': {'default': ['r2', 'r0'], 'r0': {'priority': 5, 'provider': 'posix'}, 'r2': {'provider': 'dask', 'priority': 5}}},
              {'FEED': {'default': ['r1'], 'r1': {'params': {'priority': 9, 'a': 2}}, 'r0': {'b': 3}}}], True),
            ([{'SINK': {'default': 'r0', 'r0': {'a': 2}, 'r1': {'provider': 'dask'}}}, {'SINK': {'eval': 'r1'}},
              {'SINK': {'apply': 'r3'}}], True),
        ]
        cases = [(s, g, v) for s, g in corpus for v in ('update', 'read')]
        for _ in range(n):
            sources, groups = gen.stack()
            if _ % 8 == 3:  # the same source twice in a row (C20_reread_idempotent); consumes no randomness
                i = (_ // 8) % len(sources)
                sources = sources[:i + 1] + [copy.deepcopy(sources[i])] + sources[i + 1:]
            cases.append((sources, groups, self.rng.choice(['update', 'update', 'update-kw', 'read', 'read', 'mixed'])))
        return cases

    def _conf_eval(self, sources, via, tmpdir):
        """(canonical impl | ('error', cls), canonical spec, dupes?) for one stack."""
        if via in ('read', 'mixed'):
            eff = [untuple(s) for s in sources] if via == 'read' else [sources[0]] + [untuple(s) for s in sources[1:]]
        else:
            eff = sources
        try:
            cfg = run_config(sources, via, tmpdir)
            impl = canon(dict(cfg))
        except Exception as e:  # pylint: disable=broad-except
            return ('error', type(e).__name__), None, False, None, eff
        spec = canon(spec_layer(list(reversed(eff)) + [{}]))
        return impl, spec, any(has_dup_list(s) for s in eff), cfg, eff

    def _reread(self, sources, via, tmpdir, impl):
        """C20_reread_idempotent on the real code: a source read twice in a row shows what reading it once shows."""
        for i in range(len(sources) - 1):
            if canon(untuple(sources[i])) != canon(untuple(sources[i + 1])):
                continue
            if via == 'mixed' and i == 0:
                continue  # the defaults mapping and its copy in a file are not the same source (tuples)
            once = self._conf_eval(sources[:i] + sources[i + 1:], via, tmpdir)[0]
            if isinstance(once, dict) and once != impl:
                d = conf_diff(impl, once, False)
                where = '/'.join(d[1]) if d else '<root>'
                return (f'Config stack ({via}): source #{i} read twice in a row differs at {where or "<root>"} from the stack '
                        f'that reads it once')
        return None

    def _sections(self, cfg, eff):
        """Resolve sections through the real setup.Runner/Registry with CONFIG patched; returns [(query, impl, spec)]."""
        from unittest import mock

        import forml
        from forml import setup
        from forml.setup import _conf

        spec_cfg = spec_layer(list(reversed(eff)) + [{}])
        out = []
        with mock.patch.object(_conf, 'CONFIG', cfg):
            for gname, klass in (('RUNNER', setup.Runner), ('REGISTRY', setup.Registry)):
                for ref in SECTION_REFS + ['r4', None]:
                    try:
                        got = klass.resolve(ref)
                        impl = ['ok', got.reference, canon(dict(got.params))]
                    except forml.MissingError:
                        impl = ['MissingError']
                    except Exception as e:  # pylint: disable=broad-except
                        impl = ['malformed']
                    # spec from the property text: present section → its provider (or its own name) + options; else missing
                    group = spec_cfg.get(gname)
                    eref = ref
                    if ref is None:
                        eref = group.get('default') if is_table(group) else None
                    if not is_table(group) or not isinstance(eref, str) or eref not in group:
                        spec = ['MissingError'] if (group is None or is_table(group)) else ['malformed']
                    elif not is_table(group[eref]):
                        spec = ['malformed']
                    else:
                        sec = dict(group[eref])
                        prov = sec.pop('provider', eref)
                        sec.update(sec.pop('params', {}))
                        spec = ['ok', str(prov), canon(sec)]
                    out.append(((gname, ref), impl, spec, eref))
        return out

    # ---- multi-instance and mode sections: setup.Feed (Multi, priority) and setup.Sink.Mode ----
    FEED_QUERIES = [None, 'r0', 'r1', 'r4', ['r0', 'r1'], ['r1', 'r0'], ['r2', 'r0', 'r1'], ['r0', 'r4'], []]

    @staticmethod
    def _wf_section(sec, feed=False):
        """well-formed options of one provider section: a table whose `provider` is a string, `params` a table and
        (feeds) `priority` a plain number"""
        if not is_table(sec):
            return False
        if 'provider' in sec and not isinstance(sec['provider'], str):
            return False
        if 'params' in sec and not is_table(sec['params']):
            return False
        if feed and 'priority' in sec and (isinstance(sec['priority'], bool) or not isinstance(sec['priority'], (int, float))):
            return False
        return True

    @classmethod
    def _spec_single(cls, group, ref):
        """property text for one provider section of a group: present → (its provider or its own name, options with
        `params` merged over them); absent → MissingError; anything ill-formed → None (not judged)"""
        if not isinstance(ref, str) or not ref:
            return None
        if ref not in group:
            return ['MissingError']
        if not cls._wf_section(group[ref]):
            return None
        sec = dict(group[ref])
        prov = sec.pop('provider', ref)
        sec.update(sec.pop('params', {}))
        return ['ok', str(prov), canon(sec)]

    @classmethod
    def _spec_feeds(cls, spec_cfg, ref):
        group = spec_cfg.get('FEED')
        if group is None:
            group = {}
        if not is_table(group):
            return None
        refs = ref if ref else group.get('default')
        if not refs:
            return ['MissingError'] if (refs is None or refs == [] or refs == ()) else None
        if isinstance(refs, str):
            refs = [refs]
        if not is_list(refs) or not all(isinstance(r, str) and r for r in refs):
            return None
        out = []
        for r in refs:
            if r not in group:
                return ['MissingError']
            if not cls._wf_section(group[r], feed=True):
                return None
            sec = dict(group[r])
            prio = float(sec.pop('priority', 0))
            prov = sec.pop('provider', r)
            sec.update(sec.pop('params', {}))
            out.append((prio, str(prov), canon(sec)))
        # "deterministic": by priority, equal priorities by provider reference, otherwise as listed
        order = sorted(range(len(out)), key=lambda i: (out[i][0], out[i][1], i))
        return ['ok', [[out[i][1], out[i][0], out[i][2]] for i in order]]

    @classmethod
    def _spec_mode(cls, spec_cfg, ref):
        group = spec_cfg.get('SINK')
        if ref:
            if group is None:
                return ['MissingError']
            if not is_table(group):
                return None
            one = cls._spec_single(group, ref)
            return one if one is None or one[0] != 'ok' else ['ok', one[1:], one[1:]]
        if group is None:
            return ['MissingError']
        if not is_table(group):
            return None
        dflt = group.get('default')
        apply, evaluate = group.get('apply', dflt), group.get('eval', dflt)
        for v in (apply, evaluate):
            if v is not None and (not isinstance(v, str) or not v):
                return None
        if apply is None or evaluate is None:
            return ['MissingError']
        a = cls._spec_single(group, apply)
        if a is None or a[0] != 'ok':
            return a
        e = cls._spec_single(group, evaluate)
        if e is None or e[0] != 'ok':
            return e
        return ['ok', a[1:], e[1:]]

    def _multi_sections(self, cfg, eff):
        """setup.Feed.resolve / setup.Sink.Mode.resolve on the real code with CONFIG patched → [(what, query, impl, spec)]"""
        from unittest import mock

        import forml
        from forml import setup
        from forml.setup import _conf

        spec_cfg = spec_layer(list(reversed(eff)) + [{}])
        out = []
        with mock.patch.object(_conf, 'CONFIG', cfg):
            for q in self.FEED_QUERIES:
                try:
                    got = setup.Feed.resolve(q)
                    impl = ['ok', [[f.reference, float(f.priority), canon(dict(f.params))] for f in got]]
                except forml.MissingError:
                    impl = ['MissingError']
                except Exception:  # pylint: disable=broad-except
                    impl = ['malformed']
                out.append(('feed', q, impl, self._spec_feeds(spec_cfg, q)))
            for q in (None, 'r0', 'r1', 'r4'):
                try:
                    got = setup.Sink.Mode.resolve(q)
                    impl = ['ok'] + [[s.reference, canon(dict(s.params))] for s in (got.apply, got.eval)]
                except forml.MissingError:
                    impl = ['MissingError']
                except Exception:  # pylint: disable=broad-except
                    impl = ['malformed']
                out.append(('mode', q, impl, self._spec_mode(spec_cfg, q)))
        return out

    def _config(self):
        cases = self._conf_cases(self.n(1000, 30000))
        tmp = tempfile.mkdtemp(prefix='verif-c20-conf-')
        try:
            lines, metas = [], []
            for idx, (sources, groups, via) in enumerate(cases):
                impl, spec, dupes, cfg, eff = self._conf_eval(sources, via, tmp)
                num = Numbering()
                num.seed(Numbering.collect(eff, []) + GROUP_KEYS + SECTION_REFS
                         + ['r4', 'provider', 'params', 'priority', 'default', 'apply', 'eval', 0])
                lines.append(sexp.dumps(['stack', [num.enc(s) for s in eff]]))
                shared = len(eff) > 1 and any(set(a) & set(b) for a, b in itertools.combinations(eff, 2))
                depth_flip = 'flip' if self._has_flip(eff) else 'consistent'
                self.case(('conf', json.dumps(canon(eff), sort_keys=True, default=str), via),
                          f'conf n={len(eff)} via={via} {depth_flip}{" groups" if groups else ""}', nontrivial=shared,
                          sample={'sources': canon(eff), 'via': via, 'result': impl} if idx in (1, 4, 12) else None)
                sect = msect = None
                if isinstance(impl, tuple):  # a stack of well-formed sources is layered, it never aborts
                    self.violate(f'Config stack ({via}) raised {impl[1]}', {'kind': 'conf', 'raw': self._jsonable(eff), 'via': via},
                                 'conf-raises')
                if isinstance(impl, dict) and len(eff) == 3 and via == 'update':
                    self._assoc(eff, impl, depth_flip == 'flip')
                if isinstance(impl, dict):
                    d = conf_diff(impl, spec, dupes)
                    if d:
                        sig, path, detail = d
                        self.violate(f'Config stack ({via}): at {"/".join(path) or "<root>"}: {detail}',
                                     {'kind': 'conf', 'raw': self._jsonable(eff), 'via': via}, sig, {'path': list(path)})
                    rr = None if d else self._reread(sources, via, tmp, impl)
                    if rr:
                        self.violate(rr, {'kind': 'conf', 'raw': self._jsonable(eff), 'via': via}, 'conf-reread')
                    if groups:
                        sect = self._sections(cfg, eff)
                        msect = self._multi_sections(cfg, eff)
                metas.append((via, impl, num, eff, sect, msect))
            answers = self.model(lines)
            sec_lines, sec_meta = [], []
            mul_lines, mul_meta = [], []
            for (via, impl, num, eff, sect, msect), ans in zip(metas, answers):
                m = sexp.num(sexp.loads(ans))
                if isinstance(impl, tuple):
                    self.diverge('Config raised', {'sources': self._jsonable(eff), 'via': via}, list(impl), m)
                    continue
                want = ['ok', num.enc_sorted(self._from_canon(impl))]
                if m != want:
                    self.diverge('merged configuration', {'sources': self._jsonable(eff), 'via': via}, impl, ans)
                    continue
                for (gname, ref), simpl, sspec, eref in sect or []:
                    self.case(('sec', len(sec_lines), gname, ref, json.dumps(simpl, default=str)), f'section {simpl[0]}',
                              nontrivial=simpl[0] == 'ok')
                    if (dedupe_canon(simpl) != dedupe_canon(sspec)) if any(has_dup_list(x) for x in eff) else (simpl != sspec):
                        self.violate(f'section [{gname}.{ref}] resolved to {simpl} but the layered configuration says {sspec}',
                                     {'kind': 'section', 'raw': self._jsonable(eff), 'via': via, 'group': gname, 'ref': ref},
                                     'section-resolution')
                    if isinstance(eref, str):
                        sec_lines.append(sexp.dumps(['section', m[1], num.key(gname), num.key(eref), num.key('provider'),
                                                     num.key('params')]))
                        sec_meta.append((eff, via, gname, eref, simpl, num))
                dup = any(has_dup_list(x) for x in eff)
                for what, q, mimpl, mspec in msect or []:
                    self.case((what, len(mul_lines), json.dumps(q), json.dumps(mimpl, default=str)),
                              f'{what} section {mimpl[0]}{" n=" + str(len(mimpl[1])) if what == "feed" and mimpl[0] == "ok" else ""}',
                              nontrivial=mimpl[0] == 'ok')
                    if mspec is None:
                        continue  # ill-formed configuration (a section that is no table, a priority that is no number …)
                    if (dedupe_canon(mimpl) != dedupe_canon(mspec)) if dup else (mimpl != mspec):
                        gname = 'FEED' if what == 'feed' else 'SINK'
                        self.violate(f'{"feeds" if what == "feed" else "sink modes"} [{gname}] {q!r} resolved to {mimpl} but the '
                                     f'layered configuration says {mspec}',
                                     {'kind': 'multi', 'raw': self._jsonable(eff), 'via': via, 'what': what, 'query': q},
                                     f'section-resolution-{what}')
                        continue
                    ex = None if not q else ['s', num.scalar(q)] if isinstance(q, str) else ['l'] + [num.scalar(x) for x in q]
                    if what == 'feed':
                        mul_lines.append(sexp.dumps(['multi', m[1], num.key('FEED'), num.key('FEED'), num.key('default'),
                                                     num.key('provider'), num.key('params'), num.key('priority'), num.scalar(0), ex]))
                    else:
                        mul_lines.append(sexp.dumps(['mode', m[1], num.key('SINK'), num.key('SINK'), num.key('default'),
                                                     num.key('apply'), num.key('eval'), num.key('provider'), num.key('params'), ex]))
                    mul_meta.append((eff, via, what, q, mimpl, num))
            for (eff, via, gname, eref, simpl, num), ans in zip(sec_meta, self.model(sec_lines)):
                m = sexp.num(sexp.loads(ans))
                if simpl[0] == 'ok':
                    # the model reports `none` when the section has no provider option (reference = the section name)
                    ok = (isinstance(m, list) and m[0] == 'ok'
                          and (simpl[1] == eref if m[1] == 'none' else m[1] == ['s', num.scalar(simpl[1])])
                          and m[2] == num.enc_sorted(self._from_canon(simpl[2])))
                else:
                    ok = m == ('missing' if simpl[0] == 'MissingError' else 'malformed')
                if not ok:
                    self.diverge('section resolution', {'sources': self._jsonable(eff), 'via': via, 'group': gname, 'ref': eref},
                                 simpl, ans)
            for (eff, via, what, q, mimpl, num), ans in zip(mul_meta, self.model(mul_lines)):
                m = sexp.num(sexp.loads(ans))
                if mimpl[0] != 'ok':
                    ok = m == ('missing' if mimpl[0] == 'MissingError' else 'malformed')
                elif not (isinstance(m, list) and m[0] == 'ok'):
                    ok = False
                elif what == 'feed':
                    ok = len(m[1]) == len(mimpl[1]) and all(
                        num.decode(e[0]) == f[0] and float(num.decode(e[1])) == f[1]
                        and e[2] == num.enc_sorted(self._from_canon(f[2])) for e, f in zip(m[1], mimpl[1]))
                else:
                    ok = all((num.decode(e[0][1]) == f[0] if e[0] != 'none' else True)
                             and e[1] == num.enc_sorted(self._from_canon(f[1])) for e, f in zip(m[1:], mimpl[1:]))
                if not ok:
                    self.diverge(f'{what} section resolution', {'sources': self._jsonable(eff), 'via': via, 'query': q}, mimpl, ans)
        finally:
            shutil.rmtree(tmp, ignore_errors=True)

    def _assoc(self, eff, left, flip):
        """C20_assoc_partial / C20_assoc_counterexample on the real code: a (b c) against (a b) c."""
        from forml.setup import _conf

        inner = _conf.Config(eff[1])
        inner.update(eff[2])
        outer = _conf.Config(eff[0])
        outer.update(inner)
        right = canon(dict(outer))
        self.histogram['assoc ' + ('flip' if flip else 'consistent') + (' equal' if right == left else ' differs')] += 1
        if not flip and right != left:
            self.diverge('kind-consistent sources but grouping matters (C20_assoc_partial)', {'sources': self._jsonable(eff)},
                         left, right)

    @staticmethod
    def _has_flip(eff):
        def kind(v):
            return 't' if is_table(v) else 'l' if is_list(v) else 's'

        def walk(vals):
            if len({kind(v) for v in vals}) > 1:
                return True
            tabs = [v for v in vals if is_table(v)]
            keys = set().union(*tabs) if tabs else set()
            return any(walk([t[k] for t in tabs if k in t]) for k in keys)

        return walk(eff)

    @staticmethod
    def _jsonable(v):
        if is_table(v):
            return {k: C20._jsonable(x) for k, x in v.items()}
        if isinstance(v, tuple):
            return {'__tuple__': [C20._jsonable(x) for x in v]}
        if isinstance(v, list):
            return [C20._jsonable(x) for x in v]
        return v

    @staticmethod
    def _unjson(v):
        if isinstance(v, dict):
            if set(v) == {'__tuple__'}:
                return tuple(C20._unjson(x) for x in v['__tuple__'])
            return {k: C20._unjson(x) for k, x in v.items()}
        if isinstance(v, list):
            return [C20._unjson(x) for x in v]
        return v

    @staticmethod
    def _from_canon(c):
        """canonical JSON form → plain Python value (for the numbering)"""
        if 't' in c:
            return {k: C20._from_canon(v) for k, v in c['t'].items()}
        if 'l' in c:
            return [C20._from_canon(v) for v in c['l']]
        return c['s'][1]

    # ------------------------------------------------------------------------------------------------- providers
    def _orders(self, sc: Scenario):
        perms = list(itertools.permutations(sc.imports))
        if self.quick and len(perms) > 6:
            perms = [perms[0], perms[-1]] + self.rng.sample(perms[1:-1], 4)
        return [list(p) for p in perms]

    @staticmethod
    def _ops(sc: Scenario, order):
        ops = [['import', IFC]]
        for op in sc.history:
            if op[0] == 'import':
                if op[1] < len(order):
                    ops.append(['import', order[op[1]]])
            elif op[0] == 'reload':
                ops.append(['reload', op[1]])
            else:
                ops.append(['get', *(op[1].split(':', 1) if ':' in op[1] else (IFC, op[1])), op[2]])
        return ops

    @staticmethod
    def _single_key(ops, k):
        """the lookup at position k asked at once: the explicit imports (and reloads) that precede it, then the lookup alone"""
        return tuple((op[0], op[1]) for op in ops[1:k] if op[0] in ('import', 'reload')), ops[k][2], ops[k][3]

    @staticmethod
    def _classinfo_ops(sc: Scenario):
        ops = [['import', IFC]]
        for pkg, pd in sc.packages.items():
            ops.append(['import', pkg])
            ops += [['import', f'{pkg}.{sub}'] for sub in pd['mods'] if sub]
        f = sc.facts()
        ops += [['classinfo', lab[0], lab[1]] for lab in f.label if lab is not None]
        return ops

    def _run_scenarios(self, items, seeds, root, classinfo=False, single_seeds=None, single_orders=2):
        """items = [(scenario, [order…])]. Every (scenario, order) history is run in a fresh process under every hash
        seed; under the hash seeds `single_seeds` (default: the first two) every lookup of the first `single_orders`
        orders is also run on its own in a fresh process after the same explicit imports: the single-shot answers.
        → [{'runs': [(order, seed, ops, results)], 'singles': {(order, seed, key): (ops, result)}, 'info': {seed: (ops, results)}}]"""
        single_seeds = list(seeds[:2]) if single_seeds is None else list(single_seeds)
        jobs, jobkey = ([], []), ({}, {})
        dirs: dict = {}

        def job(which, d, ops):
            key = (d, json.dumps(ops))
            if key not in jobkey[which]:
                jobkey[which][key] = len(jobs[which])
                jobs[which].append({'dir': d, 'ops': ops})
            return jobkey[which][key]

        plan = []
        for sc, orders in items:
            wkey = json.dumps([sc.ifc, sc.packages], sort_keys=True)
            if wkey not in dirs:
                dirs[wkey] = os.path.join(root, f's{len(dirs)}')
                sc.write(dirs[wkey])
            d = dirs[wkey]
            entry = {'main': [], 'single': [], 'info': None}
            for n, order in enumerate(orders):
                ops = self._ops(sc, order)
                entry['main'].append((order, ops, job(0, d, ops)))
                if n >= single_orders or not single_seeds:
                    continue
                for k, op in enumerate(ops):
                    if op[0] == 'get':
                        key = self._single_key(ops, k)
                        sops = [['import', IFC]] + [[kind, m] for kind, m in key[0]] + [op]
                        entry['single'].append((order, key, sops, job(1, d, sops)))
            if classinfo:
                iops = self._classinfo_ops(sc)
                entry['info'] = (iops, job(0, d, iops))
            plan.append(entry)
        res: list = [None, None]
        errs: list = []

        def run(which, sds):
            try:
                res[which] = spawn_workers(jobs[which], sds) if jobs[which] and sds else {s: [] for s in sds}
            except Exception as e:  # pylint: disable=broad-except
                errs.append(e)

        threads = [threading.Thread(target=run, args=(0, list(seeds))), threading.Thread(target=run, args=(1, single_seeds))]
        for t in threads:
            t.start()
        for t in threads:
            t.join()
        if errs:
            raise errs[0]
        for which in (0, 1):
            for rs in res[which].values():
                for r in rs:
                    if isinstance(r, dict):
                        raise fw.MachineryError(f'provider job crashed: {r}')
        out = []
        for entry in plan:
            o = {'runs': [], 'singles': {}, 'info': {}}
            for seed in seeds:
                for order, ops, j in entry['main']:
                    o['runs'].append((order, seed, ops, res[0][seed][j]))
                if entry['info']:
                    o['info'][seed] = (entry['info'][0], res[0][seed][entry['info'][1]])
            for seed in single_seeds:
                for order, key, sops, j in entry['single']:
                    o['singles'][(tuple(order), seed, key)] = (sops, res[1][seed][j])
            out.append(o)
        return out

    @staticmethod
    def _model_line(sc: Scenario, ops, results):
        def build(names):
            world = scenario_world(sc, names)
            mops = []
            for op, r in zip(ops, results):
                if op[0] == 'import':
                    mops.append(['import', names.mod(op[1])])
                elif op[0] == 'reload':
                    # qualnames that are plain identifiers are interned strings: the re-executed statement is the same class
                    mops.append(['reload', names.mod(op[1]), [names.n(c['name']) for m, c, _, _ in sc.classes()
                                                              if m == op[1] and '.' not in c['name']]])
                else:
                    mops.append(['get', [names.mod(op[1]), names.n(op[2])], ref_sexp(op[3], names),
                                 [names.mod(v) for v in r[-1]] if r[0] != 'noiface' else []])
            return ['bankt', sc.facts().stmts, world, mops]

        collect = Names()
        build(collect)  # first pass: the universe of strings
        names = Names(collect.tab)  # second pass: order-preserving numbers
        return sexp.dumps(build(names)), names

    @staticmethod
    def _impl_canon(ops, results, names: Names):
        out = []
        for op, r in zip(ops, results):
            if op[0] in ('import', 'reload'):
                out.append(r[0] if r[0] != 'err' else ['err', r[1]])
            elif r[0] == 'ok':
                out.append(['ok', [names.mod(r[1]), names.n(r[2])]])
            elif r[0] == 'noiface':
                out.append('noiface')
            else:
                out.append(['err', r[1]])
        return out

    @staticmethod
    def _model_canon(ans):
        m = sexp.loads(ans)
        out = []
        for r in m:
            if isinstance(r, list) and r[0] == 'err':
                out.append(['err', ERRMAP.get(r[1], r[1])])
            elif isinstance(r, list) and r[0] == 'ok':
                out.append(['ok', [[int(r[1][0][0]), None if r[1][0][1] == 'none' else int(r[1][0][1])], int(r[1][1])]])
            else:
                out.append(r)
        return out

    def _oracle(self, sc: Scenario, runs, singles=None):
        """Property text evaluated on the real outcomes of one scenario across all import orders and hash seeds.
        runs = [(order, seed, ops, results)]; singles = {(order, seed, key): (ops, result)} = every lookup asked at once"""
        classes = {(mod, c['name']): (c, abstract) for mod, c, abstract, _ in sc.classes()}
        ancestors = {(mod, c['name']): anc for mod, c, _, anc in sc.classes()}
        # path= seen by each bank (a class's search paths go to its own bank and to the bank of every Service ancestor)
        search = {(IFC, 'Base'): set(sc.base_paths) | set(sc.mid_paths), (IFC, 'Mid'): set(sc.mid_paths),
                  (IFC, 'Side'): set(sc.ifc.get('side_paths') or [])}
        for key in ancestors:
            search.setdefault(key, set())
        # … and the search paths declared by classes that a search of those packages discovers (package __init__ or a
        # module listed in __all__), transitively: the repaired Bank.get searches them in the same lookup
        for iname, found_pkgs in search.items():
            grew = True
            while grew:
                grew = False
                for mod, c, _, anc in sc.classes():
                    if mod == IFC or not c.get('paths') or iname not in anc:
                        continue
                    pkg, _, sub = mod.partition('.')
                    allv = sc.packages.get(pkg, {}).get('all')
                    if pkg in found_pkgs and (sub == '' or (allv is not None and sub in allv)):
                        for q in c['paths']:
                            if q not in found_pkgs:
                                found_pkgs.add(q)
                                grew = True
        by_alias: dict = {}
        for (mod, name), (c, abstract) in classes.items():
            if c.get('alias') and (mod, name) not in by_alias.get(c['alias'], []):
                by_alias.setdefault(c['alias'], []).append((mod, name))
        colliding = {a for a, cs in by_alias.items() if len(cs) > 1}
        defective = bool(colliding) or any(abstract and c.get('alias') for c, abstract in classes.values())
        nested = any(c.get('paths') for (mod, _), (c, _) in classes.items() if mod != IFC)
        witness = {'kind': 'bank', 'scenario': sc.to_json()}
        per_query: dict = {}
        for order, seed, ops, results in runs:
            import_errs = {op[1]: r for op, r in zip(ops, results) if op[0] == 'import' and r[0] == 'err'}
            rejected = bool(import_errs)
            imported_all = [op[1] for op in ops if op[0] == 'import']
            # colliding references are rejected at registration: once both classes' modules were imported explicitly,
            # one of the imports must have failed
            for alias in colliding:
                mods = [m for m, _ in by_alias[alias]]
                if all(m in imported_all for m in mods) and not any(m in import_errs for m in mods):
                    self.violate(f'alias {alias!r} bound to two classes by the explicitly imported modules {mods} and no '
                                 f'registration was rejected (import order {order})', dict(witness, order=order, seeds=[seed]),
                                 'collision-not-rejected')
            for (mod, name), (c, abstract) in classes.items():
                if abstract and c.get('alias') and mod in imported_all and mod not in import_errs:
                    self.violate(f'alias on abstract class {mod}:{name} accepted', dict(witness, order=order, seeds=[seed]),
                                 'abstract-alias-accepted')
            qi = -1
            for k, (op, r) in enumerate(zip(ops, results)):
                if op[0] != 'get':
                    continue
                qi += 1
                iface, ref = (op[2] if op[1] == IFC else f'{op[1]}:{op[2]}'), op[3]
                ikey = (op[1], op[2])
                if r[0] == 'noiface':  # the interface's module is not imported: nothing was asked
                    continue
                before = [o[1] for o in ops[1:k] if o[0] == 'import']  # explicit imports executed before this lookup
                hist = dict(witness, order=order, seeds=[seed], at=k)
                if r[0] == 'ok':
                    got = (r[1], r[2])
                    if r[3] or got not in classes or classes[got][1]:
                        self.violate(f'{iface}[{ref!r}] returned the abstract/unknown class {got}', hist, 'abstract-returned')
                        continue
                    c = classes[got][0]
                    legit = (ref == f'{got[0]}:{got[1]}') or (c.get('alias') == ref)
                    if not legit:
                        self.violate(f'{iface}[{ref!r}] returned {got[0]}:{got[1]} which does not carry that reference',
                                     hist, 'wrong-provider-returned')
                        continue
                known = (ref in by_alias) or (':' in ref and tuple(ref.split(':', 1)) in classes)
                # the answer does not depend on what was looked up before: a reference that resolves when it is asked at
                # once (fresh process, the same explicit imports) resolves to the same class at this point of the history
                if singles is not None and not defective and not rejected and sc.kind != 'preload':
                    s = singles.get((tuple(order), seed, self._single_key(ops, k)))
                    sr = s[1][-1] if s is not None else None  # the answer of the lookup asked at once
                    if sr is not None and sr[0] == 'ok' and (r[0] != 'ok' or (r[1], r[2]) != (sr[1], sr[2])):
                        shown = [f'{o[2]}[{o[3]!r}]' if o[0] == 'get' else f'import {o[1]}' for o in ops[1:k]]
                        self.violate(f'{iface}[{ref!r}] {"raised " + r[1] if r[0] != "ok" else "returned " + r[1] + ":" + r[2]} '
                                     f'after the history {shown} although it resolves to {sr[1]}:{sr[2]} when asked at once '
                                     f'(same explicit imports)', hist, 'lookup-depends-on-history')
                        continue
                # asking twice in a row gives the same answer
                if k > 0 and ops[k - 1] == op and not defective and not rejected and sc.kind != 'preload':
                    p = results[k - 1]
                    if (p[0], p[1], p[2] if p[0] == 'ok' else None) != (r[0], r[1], r[2] if r[0] == 'ok' else None):
                        late = nested and p[0] == 'err' and p[1] == 'MissingError' and r[0] == 'ok'
                        self.violate(f'{iface}[{ref!r}] asked twice in a row: first {"raised " + p[1] if p[0] != "ok" else p[1] + ":" + p[2]}, '
                                     f'then {"raised " + r[1] if r[0] != "ok" else "returned " + r[1] + ":" + r[2]}'
                                     + (' (the search path was registered by a class that the first lookup discovered)' if late else ''),
                                     hist, NESTED_SIG if late else 'lookup-not-idempotent')
                        continue
                # a reference carried by exactly one concrete class below the interface resolves (to that class, checked
                # above) once its module was imported, or lazily when it is discoverable: a qualified name names its
                # module, an alias is looked for in <search path>.<alias>
                carriers = by_alias.get(ref, []) if ':' not in ref else [tuple(ref.split(':', 1))]
                carriers = [k2 for k2 in carriers if k2 in classes and not classes[k2][1]]
                if (len(carriers) == 1 and not defective and not rejected and sc.kind != 'preload' and r[0] != 'ok'
                        and ikey in ancestors[carriers[0]]):
                    cmod = carriers[0][0]
                    pkg, _, sub = cmod.partition('.')
                    allv = sc.packages.get(pkg, {}).get('all')
                    if (cmod in before or ':' in ref or (sub == ref and pkg in search.get(ikey, set()))
                            or (pkg in search.get(ikey, set()) and (sub == '' or (allv is not None and sub in allv)))):
                        self.violate(f'{iface}[{ref!r}] raised {r[1]} although {cmod}:{carriers[0][1]} carries the reference '
                                     f'and is {"imported" if cmod in before else "discoverable"}', hist,
                                     'registered-provider-not-found')
                        continue
                if not known and r[0] == 'ok':
                    self.violate(f'unknown reference {iface}[{ref!r}] resolved to {r[1]}:{r[2]}', hist,
                                 'unknown-reference-resolved')
                    continue
                # a lookup that has to import a module whose class registration is rejected (colliding reference, alias
                # on an abstract class) raises that rejection: "rejected at registration" takes precedence there
                excused = defective and r[0] == 'err' and r[1] == 'UnexpectedError'
                if not known and r[1] != 'MissingError' and not rejected and not excused:
                    self.violate(f'unknown reference {iface}[{ref!r}] raised {r[1]} instead of MissingError',
                                 dict(witness, query=[iface, ref], order=order, seeds=[seed], at=k),
                                 'unknown-reference-not-missing')
                outcome = (r[0], r[1], r[2]) if r[0] == 'ok' else (r[0], r[1])
                per_query.setdefault((qi, iface, ref, frozenset(before)), []).append((outcome, order, seed, rejected))
        # the same single class whatever the import order (and whatever the hash seed): the same lookup at the same
        # point of the same history after the same set of explicit imports, compared over the runs in which no
        # registration was rejected
        for (qi, iface, ref, _), outs in per_query.items():
            clean = [o for o in outs if not o[3]]
            distinct = sorted({o[0] for o in clean})
            if len(distinct) > 1:
                involved = ref in colliding or any(ref == f'{m}:{n}' for a in colliding for m, n in by_alias[a])
                lazy_collision = sc.kind == 'collision-lazy' and (
                    involved or any(d[0] == 'err' and d[1] == 'UnexpectedError' for d in distinct))
                sig = LAZY_SIG if lazy_collision else 'lookup-depends-on-order'
                ex = {str(d): next((o[1], o[2]) for o in clean if o[0] == d) for d in distinct}
                self.violate(f'{iface}[{ref!r}] resolves differently depending on import order / hash seed: {distinct}',
                             dict(witness, query=[iface, ref], seeds=sorted({o[2] for o in clean})), sig, ex)

    def _classinfo(self, sc: Scenario, info, ans):
        """every class object of the world (providers, inner classes, mixin): `__abstractmethods__`, inspect.isabstract and
        forml.provider.isabstract of the real class against the model's class table, and the MRO the table assumes"""
        f = sc.facts()
        model = sexp.loads(ans)
        inv = {v: k for k, v in ATTR.items()}
        qual = {k: idn[1] for k, idn in enumerate(f.ident)}
        for seed, (ops, results) in info.items():
            for op, r in zip(ops, results):
                if op[0] != 'classinfo' or r[0] != 'cls':
                    continue
                k = f.index[(op[1], op[2])]
                m = model[k]
                mine = [m[0] == 'true', m[1] == 'true', sorted(inv.get(int(x), x) for x in m[2])]
                real = [bool(r[1]), bool(r[2]), sorted(r[3])]
                self.case(('cls', json.dumps(f.stmts[k]), json.dumps([f.stmts[x] for x in f.mro[k]])),
                          f'class {"abstract" if real[1] else "concrete"}{" (extended only)" if real[1] and not real[0] else ""}',
                          nontrivial=bool(f.ns[k]))
                if mine != real:
                    self.diverge('abstractness of a class', {'scenario': sc.to_json(), 'class': [op[1], op[2]]}, real, mine)
                want = [qual[x] for x in f.mro[k]]
                got = [q for q in r[4] if q in set(qual.values())]
                if want != got:
                    self.diverge('MRO assumed by the class table', {'scenario': sc.to_json(), 'class': [op[1], op[2]]}, got, want)
            break  # class objects do not depend on the hash seed

    def _bank(self, nscen, seeds, kinds=None):
        gen = ScenGen(self.rng)
        kinds = kinds or ['clean-explicit', 'clean-explicit', 'clean-explicit', 'collision-explicit', 'abstract-alias',
                          'clean-lazy', 'clean-lazy', 'clean-lazy', 'collision-lazy', 'preload', 'clean-lazy', 'nested-lazy']
        scenarios, first = [], []
        for i in range(nscen):
            vs = gen.variants(gen.make(kinds[i % len(kinds)]))
            first.append(len(scenarios))
            scenarios += vs
        import time
        t0 = time.time()
        root = tempfile.mkdtemp(prefix='verif-c20-bank-')
        try:
            outs = self._run_scenarios([(sc, self._orders(sc)) for sc in scenarios], seeds, root, classinfo=True)
        finally:
            shutil.rmtree(root, ignore_errors=True)
        t1 = time.time()
        for i in first:
            for mod, c, abstract, _ in scenarios[i].classes():
                if c.get('ns') or c.get('factory'):
                    self.histogram[('nested class (equal bare names)' if c.get('ns') else f'factory-made class x{c["factory"]}')
                                   + (' aliased' if c.get('alias') else '')] += 1
        lines, metas = [], []
        for i, o in enumerate(outs):
            for order, seed, ops, results in o['runs']:
                line, names = self._model_line(scenarios[i], ops, results)
                lines.append(line)
                metas.append((i, order, seed, ops, results, names, 'history'))
            if i in first:  # the single-shot jobs of the variants of one world coincide largely: sent once
                seen = set()
                for j in range(i, min(i + 4, len(outs))):
                    for (order, seed, key), (sops, sres) in outs[j]['singles'].items():
                        if (order, seed, key) in seen:
                            continue
                        seen.add((order, seed, key))
                        line, names = self._model_line(scenarios[i], sops, sres)
                        lines.append(line)
                        metas.append((i, list(order), seed, sops, sres, names, 'single'))
        info_at = len(lines)
        for i in first:
            lines.append(sexp.dumps(['abstract', scenarios[i].facts().stmts]))
        answers = self.model(lines)
        self.notes.append(f'provider scenarios: {nscen} worlds x 4 histories, {len(lines)} processes compared with the model; '
                          f'real code {t1 - t0:.0f}s, model {time.time() - t1:.0f}s')
        for (i, order, seed, ops, results, names, what), ans in zip(metas, answers):
            sc = scenarios[i]
            impl = self._impl_canon(ops, results, names)
            mod = self._model_canon(ans)
            gets = [r for op, r in zip(ops, results) if op[0] == 'get']
            if what == 'history':
                for op, r in zip(ops, results):
                    if op[0] == 'reload':
                        self.histogram['reload: ' + ('not loaded' if r[0] == 'notfound' else 'accepted' if r[0] == 'ok'
                                                     else 'raised ' + r[1])] += 1
            self.case(('bank', json.dumps(sc.to_json(), sort_keys=True), tuple(order), seed, json.dumps(ops) if what == 'single' else ''),
                      f'bank {sc.kind} imports={len(order)} {sc.sequence if what == "history" else "single-shot"}',
                      nontrivial=any(r[0] == 'ok' for r in gets),
                      sample={'kind': sc.kind, 'order': order, 'seed': seed, 'history': [o[1:] for o in ops[1:6]],
                              'results': [r[:3] for r in results[1:6]]} if i < 2 and seed == seeds[0] and what == 'history'
                      and len(self.samples) < 8 else None)
            if impl != mod:
                k = next((j for j, (a, b) in enumerate(zip(impl, mod)) if a != b), None)
                if sc.kind == 'collision-lazy' and k is not None and ops[k][0] == 'get' and (
                        impl[k][0] == 'ok' or impl[k] == ['err', 'UnexpectedError']) and (
                        mod[k][0] == 'ok' or mod[k] == ['err', 'UnexpectedError']):
                    # which of two lazily colliding providers is met first is search priority, not the property (the oracle
                    # judges that the answer does not depend on import order / hash seed): not compared with the model
                    self.histogram['bank collision-lazy: other winner than the model (not judged)'] += 1
                    continue
                self.diverge('provider scenario outcome', {'scenario': sc.to_json(), 'order': order, 'seed': seed, 'ops': ops,
                                                           'first_diff_op': ops[k] if k is not None else None}, impl, mod)
        for n, i in enumerate(first):
            self._classinfo(scenarios[i], outs[i]['info'], answers[info_at + n])
        before = len(self.violations)
        for i, o in enumerate(outs):
            self._oracle(scenarios[i], o['runs'], o['singles'])
        self._shrink_new(before)
        return scenarios

    # ---- shrinking a failing provider scenario on the real code ----
    def _judge(self, cands, seeds):
        """violations (by the oracle, on the real code) of each candidate (scenario, orders)"""
        root = tempfile.mkdtemp(prefix='verif-c20-shrink-')
        try:
            outs = self._run_scenarios(cands, seeds, root, single_seeds=seeds)
        finally:
            shutil.rmtree(root, ignore_errors=True)
        res = []
        saved = self.violations
        try:
            for (sc, _), o in zip(cands, outs):
                self.violations = []
                self._oracle(sc, o['runs'], o['singles'])
                res.append(self.violations)
        finally:
            self.violations = saved
        return res

    @staticmethod
    def _smaller(sc: Scenario, order):
        """candidates one step smaller: a history operation, a module, a class, a package, an `__all__` entry removed"""
        out, ops_out = [], []
        hist = sc.history
        if sum(op[0] != 'import' for op in hist) > 1:  # all lookups / reloads at once, then half of them
            ops_out.append((sc.with_history([op for op in hist if op[0] == 'import']), order))
            rest = [i for i, op in enumerate(hist) if op[0] != 'import']
            for part in (rest[:len(rest) // 2], rest[len(rest) // 2:]):
                ops_out.append((sc.with_history([op for i, op in enumerate(hist) if i not in part]), order))
        for i in range(len(hist)):
            if hist[i][0] in ('get', 'reload'):
                ops_out.append((sc.with_history(hist[:i] + hist[i + 1:]), order))
        for slot in range(len(sc.imports)):
            if slot < len(order):
                mod = order[slot]
                imports = [m for m in sc.imports if m != mod]
                norder = [m for m in order if m != mod]
                nh = []
                for op in hist:
                    if op[0] == 'import':
                        if op[1] == slot:
                            continue
                        nh.append(['import', op[1] - (1 if op[1] > slot else 0)])
                    else:
                        nh.append(op)
                v = Scenario(sc.ifc, sc.packages, imports, nh, sc.kind)
                v.sequence = sc.sequence
                out.append((v, norder))

        def rebuilt(packages):
            mods = {f'{p}.{s}' if s else p for p, pd in packages.items() for s in pd['mods']}
            if any(m not in mods for m in sc.imports):
                return None
            ifc = dict(sc.ifc, base_paths=[p for p in sc.base_paths if p in packages or p == 'nopkg'],
                       mid_paths=[p for p in sc.mid_paths if p in packages])
            v = Scenario(ifc, packages, sc.imports, hist, sc.kind)
            v.sequence = sc.sequence
            return v

        for pkg, pd in sc.packages.items():
            if len(sc.packages) > 1:
                v = rebuilt({p: x for p, x in sc.packages.items() if p != pkg})
                if v:
                    out.append((v, order))
            for sub, clss in pd['mods'].items():
                v = rebuilt({p: (x if p != pkg else {'all': x['all'], 'mods': {s: c for s, c in x['mods'].items() if s != sub}})
                             for p, x in sc.packages.items()})
                if v:
                    out.append((v, order))
                for ci, c in enumerate(clss):
                    if any(d.get('base') == c['name'] for d in clss):
                        continue
                    v = rebuilt({p: (x if p != pkg else {'all': x['all'], 'mods': dict(x['mods'], **{sub: clss[:ci] + clss[ci + 1:]})})
                                 for p, x in sc.packages.items()})
                    if v:
                        out.append((v, order))
            if pd['all']:
                v = rebuilt({p: (x if p != pkg else {'all': None, 'mods': x['mods']}) for p, x in sc.packages.items()})
                if v:
                    out.append((v, order))
        return out + ops_out  # the world first (packages, imports, modules, classes), then the history

    def _shrink_bank(self, v: fw.Violation, rounds: int = 30) -> fw.Violation:
        """Greedy shrinking of a failing provider scenario: as long as some one-step-smaller candidate still violates the
        property with the same signature on the real code (same hash seeds, same import order), continue with it."""
        w = v.witness
        if not isinstance(w, dict) or w.get('kind') != 'bank' or 'order' not in w:
            return v
        sc = Scenario.from_json(w['scenario'])
        order, seeds = list(w['order']), list(w.get('seeds') or [0])
        if 'at' in w:  # nothing after the failing lookup matters
            ops_upto = w['at']
            n, cut = 0, len(sc.history)
            for i, op in enumerate(sc.history):
                if op[0] == 'import' and op[1] >= len(order):
                    continue
                n += 1
                if n == ops_upto:
                    cut = i + 1
                    break
            sc = sc.with_history(sc.history[:cut])
        best = None
        for _ in range(rounds):
            cands = self._smaller(sc, order)
            if best is None:
                cands = [(sc, order)] + cands  # the truncated scenario itself must still fail
            if not cands:
                break
            res = self._judge([(c, [o]) for c, o in cands], seeds)
            hit = next(((c, o, x) for (c, o), vs in zip(cands, res) for x in vs if x.signature == v.signature), None)
            if hit is None:
                break
            sc, order, best = hit
        if best is None:
            return v
        return fw.Violation(best.what, best.witness, best.signature, {'shrunk_from': v.what})

    def _shrink_sections(self, v: fw.Violation) -> fw.Violation:
        """greedy deletion of sources / keys (two levels) while the same query still resolves against the specification"""
        w = v.witness
        tmp = tempfile.mkdtemp(prefix='verif-c20-shrink-')
        try:
            def fails(srcs):
                x = self.replay_finding({'witness': dict(w, raw=self._jsonable(srcs))})
                return x is not None and x.signature == v.signature

            cur = [dict(s) for s in self._unjson(w['raw'])]
            changed = True
            while changed:
                changed = False
                cands = [cur[:i] + cur[i + 1:] for i in range(len(cur)) if len(cur) > 1]
                for i, src in enumerate(cur):
                    for k in src:
                        cands.append([dict((a, b) for a, b in x.items() if not (j == i and a == k)) for j, x in enumerate(cur)])
                        if is_list(src[k]):
                            for n in range(len(src[k])):
                                c = [dict(x) for x in cur]
                                c[i][k] = type(src[k])(list(src[k])[:n] + list(src[k])[n + 1:])
                                cands.append(c)
                        if is_table(src[k]):
                            for k2 in src[k]:
                                c = [dict(x) for x in cur]
                                c[i][k] = {a: b for a, b in src[k].items() if a != k2}
                                cands.append(c)
                                if is_list(src[k][k2]):
                                    for n in range(len(src[k][k2])):
                                        c = [dict(x) for x in cur]
                                        c[i][k] = dict(src[k])
                                        c[i][k][k2] = type(src[k][k2])(list(src[k][k2])[:n] + list(src[k][k2])[n + 1:])
                                        cands.append(c)
                                if is_table(src[k][k2]):
                                    for k3 in src[k][k2]:
                                        c = [dict(x) for x in cur]
                                        c[i][k] = dict(src[k])
                                        c[i][k][k2] = {a: b for a, b in src[k][k2].items() if a != k3}
                                        cands.append(c)
                for c in cands:
                    if fails(c):
                        cur, changed = c, True
                        break
            x = self.replay_finding({'witness': dict(w, raw=self._jsonable(cur))})
            return fw.Violation(x.what, x.witness, x.signature, {'shrunk_from': v.what}) if x is not None else v
        finally:
            shutil.rmtree(tmp, ignore_errors=True)

    def _shrink_new(self, before: int):
        """shrink the first violation of every new signature (the others are reported through the same replay anyway)"""
        known = {e['signature'] for e in fw._load_findings(self.ID) if e.get('status') == 'finding'}
        seen = {x.signature for x in self.violations[:before]}
        for idx in range(before, len(self.violations)):
            x = self.violations[idx]
            if x.signature in seen or x.signature in known:
                continue
            seen.add(x.signature)
            if isinstance(x.witness, dict) and x.witness.get('kind') == 'bank':
                try:
                    self.violations[idx] = self._shrink_bank(x)
                except fw.MachineryError:
                    pass
            elif isinstance(x.witness, dict) and x.witness.get('kind') in ('multi', 'section', 'conf'):
                self.violations[idx] = self._shrink_sections(x)

    def correspondence(self):
        self._config()
        self._shrink_new(0)
        self._bank(self.n(20, 80), self.SEEDS_QUICK if self.quick else self.SEEDS_THOROUGH)

    def search(self, reason):
        # widen: conf stacks oracle-only around the diverging shapes, more provider scenarios of every kind
        before = len(self.violations)
        # a part of the check whose oracle already produced a failing input on the real code needs no wider search
        have = {v.witness.get('kind') for v in self.violations if isinstance(v.witness, dict)}
        gen = ConfGen(self.rng)
        tmp = tempfile.mkdtemp(prefix='verif-c20-search-')
        try:
            for _ in range(0 if ('conf' in have or 'section' in have) else self.n(3000, 20000)):
                sources, _ = gen.stack()
                via = self.rng.choice(['update', 'update-kw', 'read', 'mixed'])
                impl, spec, dupes, _, eff = self._conf_eval(sources, via, tmp)
                if isinstance(impl, tuple):
                    continue
                d = conf_diff(impl, spec, dupes)
                if d:
                    sig, path, detail = d
                    self.violate(f'Config stack ({via}): at {"/".join(path) or "<root>"}: {detail}',
                                 {'kind': 'conf', 'raw': self._jsonable(self._shrink_conf(eff, via, tmp)), 'via': via}, sig)
                    break
        finally:
            shutil.rmtree(tmp, ignore_errors=True)
        if (any(d.what.startswith(('provider', 'abstractness', 'MRO')) for d in self.divergences) or not self.divergences) \
                and 'bank' not in have:
            # first the worlds whose outcome the model did not predict, with more histories; then new worlds
            self._search_around()
            if len(self.violations) == before:
                self._bank(self.n(24, 60), self.SEEDS_THOROUGH)
        self.notes.append(f'failing-input search ({reason}): widened config stacks and provider scenarios, '
                          f'{len(self.violations) - before} violating input(s) found')

    def _search_around(self):
        """the worlds of the diverging cases again, each with many more lookup histories (prefixes of misses / hits of
        other references / repeats before every lookup), judged by the oracle on the real code"""
        gen = ScenGen(self.rng)
        worlds, seen = [], set()
        for d in self.divergences:
            if isinstance(d.case, dict) and 'scenario' in d.case:
                key = json.dumps([d.case['scenario'].get('ifc'), d.case['scenario']['packages']], sort_keys=True)
                if key not in seen:
                    seen.add(key)
                    worlds.append(Scenario.from_json(d.case['scenario']))
        before = len(self.violations)
        for sc in worlds[:6]:
            cands = []
            for _ in range(6):
                cands += gen.variants(sc)[1:]
            outs = None
            root = tempfile.mkdtemp(prefix='verif-c20-around-')
            try:
                outs = self._run_scenarios([(c, self._orders(c)[:2]) for c in cands], self.SEEDS_QUICK[:2], root)
            finally:
                shutil.rmtree(root, ignore_errors=True)
            for c, o in zip(cands, outs):
                self._oracle(c, o['runs'], o['singles'])
            if len(self.violations) > before:
                break
        self._shrink_new(before)

    def _shrink_conf(self, eff, via, tmp):
        """Greedy deletion of sources / keys while the oracle still fails."""
        def fails(srcs):
            impl, spec, dupes, _, _ = self._conf_eval(srcs, via, tmp)
            return isinstance(impl, dict) and conf_diff(impl, spec, dupes) is not None

        cur = [dict(s) for s in eff]
        changed = True
        while changed:
            changed = False
            for i in range(len(cur)):
                cand = cur[:i] + cur[i + 1:]
                if cand and fails(cand):
                    cur, changed = cand, True
                    break
            else:
                for i, s in enumerate(cur):
                    for k in list(s):
                        cand = [dict(x) for x in cur]
                        del cand[i][k]
                        if fails(cand):
                            cur, changed = cand, True
                            break
                    if changed:
                        break
        return cur

    def replay_finding(self, entry):
        w = entry['witness']
        if w.get('kind') == 'conf':
            tmp = tempfile.mkdtemp(prefix='verif-c20-replay-')
            try:
                eff = self._unjson(w['raw'])
                impl, spec, dupes, _, _ = self._conf_eval(eff, w['via'], tmp)
                if isinstance(impl, tuple):
                    return fw.Violation(f'Config stack ({w["via"]}) raised {impl[1]} (a stack of well-formed sources is layered, it never aborts)', w, 'conf-raises')
                d = conf_diff(impl, spec, dupes)
                if d:
                    return fw.Violation(f'Config stack ({w["via"]}): at {"/".join(d[1])}: {d[2]}', w, d[0])
                rr = self._reread(eff, w['via'], tmp, impl)
                if rr:
                    return fw.Violation(rr, w, 'conf-reread')
                return None
            finally:
                shutil.rmtree(tmp, ignore_errors=True)
        if w.get('kind') == 'section':
            tmp = tempfile.mkdtemp(prefix='verif-c20-replay-')
            try:
                eff = self._unjson(w['raw'])
                impl, _, dupes, cfg, eff2 = self._conf_eval(eff, w['via'], tmp)
                if isinstance(impl, tuple):
                    return None
                for (gname, ref), simpl, sspec, _ in self._sections(cfg, eff2):
                    if gname == w['group'] and ref == w['ref'] and (
                            (dedupe_canon(simpl) != dedupe_canon(sspec)) if dupes else (simpl != sspec)):
                        return fw.Violation(f'section [{gname}.{ref}] resolved to {simpl} but the layered configuration says {sspec}',
                                            w, 'section-resolution')
                return None
            finally:
                shutil.rmtree(tmp, ignore_errors=True)
        if w.get('kind') == 'multi':
            tmp = tempfile.mkdtemp(prefix='verif-c20-replay-')
            try:
                eff = self._unjson(w['raw'])
                impl, _, dupes, cfg, eff2 = self._conf_eval(eff, w['via'], tmp)
                if isinstance(impl, tuple):
                    return None
                for what, q, mimpl, mspec in self._multi_sections(cfg, eff2):
                    if what == w['what'] and q == w['query'] and mspec is not None and (
                            (dedupe_canon(mimpl) != dedupe_canon(mspec)) if dupes else (mimpl != mspec)):
                        return fw.Violation(f'[{what}] {q!r} resolved to {mimpl} but the layered configuration says {mspec}', w,
                                            f'section-resolution-{what}')
                return None
            finally:
                shutil.rmtree(tmp, ignore_errors=True)
        if w.get('kind') == 'bank':
            sc = Scenario.from_json(w['scenario'])
            seeds = w.get('seeds') or self.SEEDS_THOROUGH
            orders = [w['order']] if 'order' in w else [list(p) for p in itertools.permutations(sc.imports)]
            found = self._judge([(sc, orders)], seeds)[0]
            return found[0] if found else None
        return None


if __name__ == '__main__':
    raise SystemExit(fw.run(C20))
