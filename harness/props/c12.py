"""C12 — cross-validated evaluation and stacking never leak held-out data (lean/ForML/Model/CrossVal.lean,
lean/ForML/Model/CrossValActor.lean).

Implementation: the *real* `flow.Composition(source, expr)` where `expr` is built from the real operator library
(`wrap.Operator`, `payload.MapReduce`, `ensemble.FullStack`, `evaluation.TrainTestScore` over
`evaluation.CrossVal` / `HoldOut` and `evaluation.Function`), with

* symbolic actors whose payloads record provenance: every payload is a node of a provenance DAG (`P`: the term)
  carrying rows `(record, {records any model on the way was trained on})`,
* a symbolic fold splitter: a subclass of the real `payload.CVFoldable` (its `train`/`apply` are the anchored
  code) over a cross-validator double that decides *any* index lists (k-fold partitions and arbitrary tables).

* cross-validator doubles whose `split` is not reproducible between calls (counter-based), the splitter's state
  travelling from the trained worker to its forks the way the compiled code does it (`SetState`: `set_state` then the
  hyper-parameters re-applied; dict or pickled through the inherited `Actor.get_state/set_state`).

Whatever the code under test does - raising, handing `None` or foreign objects to an actor, producing an output of
another shape - is recorded as behaviour and judged by the oracle; it never crashes the check.

Both segments are compiled by `flow.compile` and executed by the memoising reference interpreter of
props/pipegen.py.  Compared with the Lean model (`denote` terms, `rows` interpretation of the scored / stacked
sub-terms); the oracle evaluates the no-leak statement of the property on the recorded provenance alone.
"""
from __future__ import annotations

import itertools
import typing

from core import framework as fw
from core import sexp

from . import pipegen as pg

NONE = pg.NONE
FINAL = 990  # stateful mapper appended after a top-level ensemble: its state reveals the stacked train set and labels
SIZE_LIMIT = 60000  # provenance terms are shipped as trees
_CACHE: dict = {}


# --------------------------------------------------------------------------------------------------
# provenance payloads and symbolic actors (created once forml is importable)
# --------------------------------------------------------------------------------------------------
class P:
    """A payload = node of the provenance DAG + its provenance value (rows).

    Whatever the code under test hands to a symbolic actor becomes a node: `None` -> the `none` term, anything that
    is not a payload -> a `foreign` node (which the model rejects): a behaviour to be judged, never a harness crash."""

    __slots__ = ('kind', 'tag', 'state', 'args', 'k', 'rows', 'pos', '_size')

    def __init__(self, kind, tag, state, args, k, rows, pos=None):
        self.kind, self.tag, self.k = kind, tag, k
        self.state = None if state is None else coerce(state)
        self.args = tuple(coerce(a) for a in args)
        self.rows = tuple(rows)  # ((col, rid), frozenset of (col, rid))
        self.pos = None if pos is None else tuple(pos)  # part: the row positions the splitter selected
        self._size = None

    def __len__(self):  # the flow engine logs len(state)
        return 1

    def size(self) -> int:
        """Size of the term as a tree."""
        if self._size is None:
            self._size = 1 + (self.state.size() if self.state is not None else 1 if self.kind not in ('input', 'none', 'foreign') else 0) \
                + sum(a.size() for a in self.args)
        return self._size

    def term(self):
        """Nested-list form (the protocol's `val`)."""
        if self.kind == 'input':
            return ['input', self.tag]
        if self.kind == 'none':
            return NONE
        if self.kind == 'foreign':
            return ['foreign', str(self.tag)]
        st = NONE if self.state is None else self.state.term()
        if self.kind == 'apply':
            return ['apply', self.tag, st, [a.term() for a in self.args]]
        if self.kind == 'state':
            args = list(self.args) + [NIL] * (2 - len(self.args))
            return ['state', self.tag, st, args[0].term(), args[1].term()]
        if self.kind == 'part':
            return ['part', self.tag, st, self.k, self.args[0].term() if self.args else NONE]
        if self.kind == 'concat':
            return ['concat', self.tag, [a.term() for a in self.args]]
        raise ValueError(self.kind)


class Observed(Exception):
    """A behaviour of the code under test, noticed while driving it, that ends the run of a case: judged, not a crash."""

    def __init__(self, signature: str, what: str):
        super().__init__(what)
        self.signature, self.what = signature, what


def coerce(x) -> 'P':
    """Any object reaching a symbolic actor as a payload node."""
    if isinstance(x, P):
        return x
    if x is None:
        return NIL
    return P('foreign', type(x).__name__, None, (), None, ())


NIL = P('none', 0, None, (), None, ())


def atoms(rows) -> frozenset:
    out = set()
    for key, deps in rows:
        out.add(key)
        out |= deps
    return frozenset(out)


def seen(state) -> frozenset:
    """Records a state was trained on (transitively)."""
    if state is None or state.kind != 'state':
        return frozenset()
    return seen(state.state).union(*(atoms(a.rows) for a in state.args))


def hzip(sn, datas):
    """Row-aligned actor: rows of the first argument, depending on the same-position rows of all arguments and
    on the records `sn` the actor's state was trained on."""
    if not datas:
        return ()
    first = list(datas[0])
    for other in datas[1:]:
        first = [(k, d | other[i][1]) if i < len(other) else (k, d) for i, (k, d) in enumerate(first)]
    return tuple((k, d | sn) for k, d in first)


def decide(decision, c: int, ln: int, call: int = 0) -> list:
    """The cross-validator doubles: (train positions, test positions) per fold for `ln` rows, as decided in the
    `call`-th invocation of `split` (a double whose split is reproducible always answers as in call 0)."""
    if decision[0] == 'kfold':
        r = decision[1] + call
        return [([p for p in range(ln) if (p + r) % c != i], [p for p in range(ln) if (p + r) % c == i]) for i in range(c)]
    if decision[0] == 'table':
        if ln == 0:
            return [([], []) for _ in decision[1]]
        return [([(s + call) % ln for s in a], [(s + call) % ln for s in b]) for a, b in decision[1]]
    raise ValueError(decision)


class FoldIdx(tuple):
    """(train positions, test positions) of one fold, remembering the splitter state they belong to."""

    origin = None
    tag = None
    call = None


class CV:
    """Cross-validator double (`payload.CrossValidable`): decides from the number of rows and - when `volatile` -
    from the number of times it has been asked before: no two calls of `split` yield the same partition (what
    `KFold(shuffle=True)` / `ShuffleSplit` with `random_state=None` do).  Every call is logged."""

    def __init__(self, tag: int, c: int, decision, volatile: bool = False, plain: bool = False):
        self.tag, self.c, self.decision, self.volatile, self.plain = tag, c, decision, bool(volatile), plain
        self.calls = 0
        self.log: list = []  # per call: the decided [(train positions, test positions)]

    def get_n_splits(self, *_args):
        return self.c

    def split(self, features, labels=None, groups=None):
        call = self.calls
        self.calls += 1
        if isinstance(features, P):
            ln = len(features.rows)
        else:
            try:
                ln = len(features)
            except TypeError:
                ln = 0
        decided = decide(self.decision, self.c, ln, call if self.volatile else 0)
        self.log.append(decided)
        if self.plain:  # pandas payloads: positional indexers must be lists
            return [(list(tr), list(te)) for tr, te in decided]
        state = P('state', self.tag, None, (features, labels), None, ())
        out = []
        for tr, te in decided:
            f = FoldIdx((tuple(tr), tuple(te)))
            f.origin, f.tag, f.call = state, self.tag, call
            out.append(f)
        return out


def lib():
    """Actor classes and helpers that need forml."""
    if 'lib' in _CACHE:
        return _CACHE['lib']
    from forml import flow
    from forml.pipeline import payload

    class Sym(flow.Actor):
        """Stateless row-aligned symbolic actor."""

        def __init__(self, tag: int):
            self.tag = tag
            self.state = None

        def apply(self, *args):
            args = [coerce(a) for a in args]
            return P('apply', self.tag, self.state, args, None, hzip(seen(self.state), [a.rows for a in args]))

        def get_params(self):
            return {}

        def set_params(self, **params):
            pass

    class Stateful(Sym):
        def train(self, features, labels, /):
            self.state = P('state', self.tag, self.state, (features, labels), None, ())

        def get_state(self):
            return self.state

        def set_state(self, state):
            self.state = state

    class Stack(Sym):
        """Vertical concatenation."""

        def apply(self, *args):
            args = [coerce(a) for a in args]
            return P('concat', self.tag, None, args, None, [r for a in args for r in a.rows])

    class SplitReal(payload.CVFoldable):
        """The real CVFoldable over provenance payloads: `train`, `apply`, `get_params`, `set_params` and the
        inherited `Actor.get_state` / `Actor.set_state` (pickled `__dict__`, hyper-parameters re-applied) are all
        the anchored code; only the payload-specific `split` is the harness's."""

        @classmethod
        def split(cls, features, indices):
            features = coerce(features)
            out = []
            for j, fold in enumerate(indices):
                a, b = fold
                origin, tag = getattr(fold, 'origin', None), getattr(fold, 'tag', 0)
                out.append(P('part', tag, origin, (features,), 2 * j, [features.rows[p] for p in a], pos=a))
                out.append(P('part', tag, origin, (features,), 2 * j + 1, [features.rows[p] for p in b], pos=b))
            return tuple(out)

    class Split(SplitReal):
        """...with the state handed over as a plain attribute dictionary (no pickling)."""

        def get_state(self):
            return dict(self.__dict__)

        def set_state(self, state):
            self.__dict__.update(state)

    class Source(flow.Actor):
        def __init__(self, col: int, size: int):
            self.col, self.size = col, size

        def apply(self):
            return P('input', self.col, None, (), None, [((self.col, r), frozenset()) for r in range(self.size)])

    class Labels(flow.Actor):
        def __init__(self, size: int, cols=(1, 2)):
            self.size, self.cols = size, tuple(cols)

        def apply(self, raw):
            return tuple(P('input', c, None, (), None, [((c, r), frozenset()) for r in range(self.size)]) for c in self.cols)

    assert Stateful.is_stateful() and not Sym.is_stateful() and not Stack.is_stateful() and Split.is_stateful()
    assert SplitReal.is_stateful() and SplitReal.get_state is flow.Actor.get_state and SplitReal.set_state is flow.Actor.set_state
    _CACHE['lib'] = dict(Sym=Sym, Stateful=Stateful, Stack=Stack, Split=Split, SplitReal=SplitReal, Source=Source, Labels=Labels)
    return _CACHE['lib']


def _fn(tag: int, vertical: bool = False):
    """Plain function flavour of a merger / metric (wrapped by forml into payload.Apply)."""
    if vertical:
        def stack(*args):
            args = [coerce(a) for a in args]
            return P('concat', tag, None, args, None, [r for a in args for r in a.rows])
        return stack

    def merge(*args):
        args = [coerce(a) for a in args]
        return P('apply', tag, None, args, None, hzip(frozenset(), [a.rows for a in args]))
    return merge


def source(n: int, m: int, cols=(1, 2)):
    """Source of `m` apply-mode records (column 0) and `n` train-mode records: features / labels = columns `cols`."""
    from forml.io._input import extract

    L = lib()
    return extract.Operator(L['Source'].builder(0, m), L['Source'].builder(-1, n), L['Labels'].builder(n, cols))


# --------------------------------------------------------------------------------------------------
# AST -> real operators.   expr ::= pipegen's wrap / mapreduce / seq
#                                 | ['stack', [expr...], nsplits, splitter, appender, stacker, reducer]
#                                 | ['score', nsplits, splitter, metric, reducer]        nsplits = 1: HoldOut
# --------------------------------------------------------------------------------------------------
def _wrap_operator(lab, app, trn):
    from forml.pipeline import wrap

    L = lib()
    groups: dict = {}
    for name, a in (('label', lab), ('apply', app), ('train', trn)):
        if a != NONE:
            groups.setdefault((int(a[0]), bool(a[1])), []).append(name)
    cls = None
    for (tag, stateful), names in groups.items():
        actor = L['Stateful'] if stateful else L['Sym']
        if names == ['apply', 'train']:
            cls = (cls or wrap.Operator).mapper(actor, tag=tag)
        else:
            assert len(names) == 1, 'builders shared between the label and another slot are not in this language'
            cls = getattr(cls or wrap.Operator, names[0])(actor, tag=tag)
    return cls


def build(ast, dec: dict, flavour: int):
    """Fresh real composable. `dec[tag] = (c, decision, volatile)` configures the splitter doubles; `flavour` picks the
    constructor variants (bit 0: cross-validator + splitter class vs builder + nsplits; bit 1: mergers as functions vs
    builders; bit 2: the splitter's state travels pickled through the inherited Actor.get_state/set_state vs as a dict)."""
    from forml import evaluation
    from forml.pipeline import ensemble, payload

    L = lib()
    Split = L['SplitReal'] if flavour & 4 else L['Split']
    kind = ast[0]
    if kind == 'wrap':
        return _wrap_operator(ast[1], ast[2], ast[3])()
    if kind == 'mapreduce':
        return payload.MapReduce(*((L['Stateful'] if a[1] else L['Sym']).builder(tag=int(a[0])) for a in ast[1]),
                                 reducer=L['Sym'].builder(tag=int(ast[2])))
    if kind == 'seq':
        return build(ast[1], dec, flavour) >> build(ast[2], dec, flavour)
    if kind == 'stack':
        _, bases, nsplits, sp, appender, stacker, reducer = ast
        c, decision, volatile = dec[sp]
        assert c == nsplits
        cv = CV(sp, c, decision, volatile)
        split = dict(crossvalidator=cv, splitter=Split) if flavour & 1 else \
            dict(splitter=Split.builder(crossvalidator=cv), nsplits=nsplits)
        mergers = dict(appender=_fn(appender), stacker=_fn(stacker, True), reducer=_fn(reducer)) if flavour & 2 else \
            dict(appender=L['Sym'].builder(tag=appender), stacker=L['Stack'].builder(tag=stacker), reducer=L['Sym'].builder(tag=reducer))
        return ensemble.FullStack(*(build(b, dec, flavour) for b in bases), **split, **mergers)
    if kind == 'score':
        _, nsplits, sp, metric, reducer = ast
        c, decision, volatile = dec[sp]
        cv = CV(sp, c, decision, volatile)
        if nsplits == 1:
            method = evaluation.HoldOut(crossvalidator=cv, splitter=Split) if flavour & 1 else \
                evaluation.HoldOut(splitter=Split.builder(crossvalidator=cv))
        else:
            assert c == nsplits
            method = evaluation.CrossVal(crossvalidator=cv, splitter=Split) if flavour & 1 else \
                evaluation.CrossVal(splitter=Split.builder(crossvalidator=cv), nsplits=nsplits)
        return evaluation.TrainTestScore(evaluation.Function(_fn(metric), _fn(reducer)), method)
    raise ValueError(f'unknown expression kind {kind!r}')


# --------------------------------------------------------------------------------------------------
# running the real composition
# --------------------------------------------------------------------------------------------------
def run(case: dict, apply_mode: bool):
    """-> (train output P, apply output P | None, [(tag, state)] of the trained workers)."""
    from forml import flow

    comp = flow.Composition(source(case['N'], case['M']), build(case['expr'], dec_table(case), case.get('flavour', 0)))
    train_nodes = pg.segment_workers(comp.train)
    ctrain = pg.compile_segment(comp.train, None)
    tvals = pg.interpret(ctrain.symbols)
    train_out = pg.tail_value(comp.train, ctrain, tvals)
    states, by_gid = [], {}
    for node in train_nodes:
        if node.trained:
            st = tvals[ctrain.index[node.uid]]
            states.append((node_tag(node), st))
            by_gid[node.gid] = st
    apply_out = None
    if apply_mode:
        persistent = list(comp.persistent)
        missing = [g for g in persistent if g not in by_gid]
        if missing:
            raise Observed('stack-apply-fold-models', f'apply mode needs the state of {len(missing)} actor(s) the train mode never trains')
        capply = pg.compile_segment(comp.apply, pg.Assets({g: by_gid[g] for g in persistent}, persistent))
        avals = pg.interpret(capply.symbols)
        apply_out = pg.tail_value(comp.apply, capply, avals)
    return train_out, apply_out, states


def run_perf(case: dict):
    """`pipeline >> PerfTrackScore(metric)` on tracked data (columns 3 / 4) with the states of the generation the same
    pipeline was trained to on columns 1 / 2 -> the train-mode output (the metric value's provenance)."""
    from forml import evaluation, flow

    comp1 = flow.Composition(source(case['N'], case['M']), build(case['expr'], {}, 0))
    nodes1 = pg.segment_workers(comp1.train)
    c1 = pg.compile_segment(comp1.train, None)
    v1 = pg.interpret(c1.symbols)
    by_tag = {node_tag(n): v1[c1.index[n.uid]] for n in nodes1 if n.trained}
    stage = evaluation.PerfTrackScore(evaluation.Function(_fn(case['metric']), _fn(case['reducer'])))
    comp2 = flow.Composition(source(case['N2'], case['M'], cols=(3, 4)), build(case['expr'], {}, 0) >> stage)
    persistent = list(comp2.persistent)
    # the states of the earlier generation by actor (in these pipelines every builder makes exactly one worker group)
    tag_of = {n.gid: node_tag(n) for n in pg.segment_workers(comp2.apply) + pg.segment_workers(comp2.train)}
    missing = [g for g in persistent if tag_of.get(g) not in by_tag]
    if missing:
        raise Observed('perf-states', f'performance tracking needs the state of {len(missing)} actor(s) the pipeline never trains')
    assets = pg.Assets({g: by_tag[tag_of[g]] for g in persistent}, persistent)
    c2 = pg.compile_segment(comp2.train, assets)
    v2 = pg.interpret(c2.symbols)
    return pg.tail_value(comp2.train, c2, v2)


def oracle_perf(case, out, violations) -> list:
    """Performance tracking: exactly one (true, prediction) pair is scored - the tracked labels against the predictions for
    the tracked features of the same records -, by models that have seen nothing of the tracked data."""
    n2 = case['N2']
    if not (out.kind == 'apply' and out.tag == case['metric'] and len(out.args) == 2):
        violations.append(('the performance-tracking value is not the metric of one (true, prediction) pair', 'perf-fold-count', {}))
        return []
    true, pred = out.args
    if list(true.rows) != [((4, r), frozenset()) for r in range(n2)]:
        violations.append(('the true outcomes scored by performance tracking are not the labels of the tracked data', 'perf-true-outcomes', {}))
    elif [r[0] for r in pred.rows] != [(3, r) for r in range(n2)]:
        violations.append(('the predictions scored by performance tracking do not describe the tracked records', 'perf-pred-records', {}))
    else:
        for key, deps in pred.rows:
            leak = sorted(a for a in deps if a[0] not in (1, 2))
            if leak:
                violations.append((f'the tracked prediction for record {key[1]} comes from a model that has seen tracked data: {leak[:4]}',
                                   'perf-leak', {}))
                break
    return [out]


def dec_table(case) -> dict:
    """{splitter tag: (n_splits, decision, volatile)}; witnesses recorded before the doubles could be volatile have triples."""
    return {d[0]: (d[1], d[2], bool(d[3]) if len(d) > 3 else False) for d in case['dec']}


def node_tag(node) -> int:
    """Builder tag of a worker: symbolic actors carry `tag`, the fold splitter the tag of its cross-validator double."""
    kwargs = node.builder.kwargs
    if 'tag' in kwargs:
        return int(kwargs['tag'])
    cv = kwargs.get('crossvalidator')
    return int(getattr(cv, 'tag', 0))


def canon_rows(rows) -> list:
    return [[key[0], key[1], [list(a) for a in sorted(deps)]] for key, deps in rows]


def _top(ast):
    """The top-level `>>` chain (however parenthesised) as a flat list of operators."""
    if ast[0] != 'seq':
        return [ast]
    return _top(ast[1]) + _top(ast[2])


def splitter_tags(ast) -> list:
    """[(tag, nsplits, kind)] of every splitter in the expression."""
    k = ast[0]
    if k == 'seq':
        return splitter_tags(ast[1]) + splitter_tags(ast[2])
    if k == 'stack':
        return [(ast[3], ast[2], 'stack')] + [t for b in ast[1] for t in splitter_tags(b)]
    if k == 'score':
        return [(ast[2], ast[1], 'score')]
    return []


def impl(case: dict) -> dict:
    """Worker-side: run the real code, evaluate the oracle on its provenance, return plain data.  An exception
    that passed through forml code is the implementation's behaviour (recorded by the batch runner and judged as
    such); so is an output of a shape the oracle cannot read (`unreadable`).  Only a failure while *building* the
    case - before any code under test produced anything - is a harness defect."""
    import traceback

    try:
        return _impl(case)
    except Exception as err:  # pylint: disable=broad-except
        frames = traceback.extract_tb(err.__traceback__)
        if any('/forml/' in f.filename for f in frames):
            raise
        return {'harness_error': f'{type(err).__name__}: {err}', 'trace': ''.join(traceback.format_tb(err.__traceback__))[-1500:]}


def _decode(st):
    """A trained worker's state as the harness reads it: pickled states (inherited Actor.get_state) are unpickled."""
    if isinstance(st, (bytes, bytearray)):
        import cloudpickle

        try:
            return cloudpickle.loads(st)
        except Exception:  # pylint: disable=broad-except
            return st
    return st


def _impl(case: dict) -> dict:
    import traceback

    kind = case['kind']
    out: dict = {'queries': [], 'answers': [], 'violations': []}
    try:
        if kind == 'perf':
            train_out, apply_out, states = run_perf(case), None, []
        else:
            train_out, apply_out, states = run(case, apply_mode=kind == 'stack')
    except Observed as seen_:
        out['violations'] = [(seen_.what, seen_.signature, {})]
        out['unreadable'] = True
        return out
    states = [(tag, _decode(st)) for tag, st in states]
    # from here on only outputs of the code under test are inspected: whatever they look like is its behaviour
    try:
        train_out = coerce(train_out)
        apply_out = coerce(apply_out) if kind == 'stack' else None
        return _judge(case, out, train_out, apply_out, states)
    except Exception as err:  # pylint: disable=broad-except
        where = ''.join(traceback.format_tb(err.__traceback__))[-600:]
        out['violations'] = [(f'the composition produced an output the property cannot be read off from ({type(err).__name__}: '
                              f'{str(err)[:120]})', 'unreadable-output', {'trace': where})]
        out['unreadable'] = True
        return out


def _judge(case: dict, out: dict, train_out, apply_out, states) -> dict:
    kind = case['kind']
    size = train_out.size() + (apply_out.size() if apply_out is not None else 0)
    out['size'] = size
    if size > SIZE_LIMIT:
        out['oversize'] = True
        return out
    reducers = reducer_tags(case['expr'])
    tterm = train_out.term()
    aterm = apply_out.term() if apply_out is not None else None
    out['train'] = sexp.dumps(tterm)
    out['apply'] = sexp.dumps(aterm) if aterm is not None else None
    if reducers:  # the same up to the order of the reducers' arguments (see C12._evaluate)
        out['train_c'] = sexp.dumps(sort_reduced(tterm, reducers))
        out['apply_c'] = sexp.dumps(sort_reduced(aterm, reducers)) if aterm is not None else None
    oracle_sync(case, [train_out, apply_out] + [st for _, st in states], out['violations'])

    def query(p):
        """rows of a sub-term: real value now, the model's interpretation is asked for later"""
        out['queries'].append(sexp.dumps(p.term()))
        out['answers'].append(canon_rows(p.rows))

    if kind in ('eval', 'perf'):
        if kind == 'perf':
            metrics = oracle_perf(case, train_out, out['violations'])
        else:
            score = _top(case['expr'])[-1]
            metrics = oracle_eval(case, score, train_out, states, out['violations'])
        for m in metrics[:6]:
            if m.kind == 'apply' and len(m.args) == 2:
                query(m.args[0])
                query(m.args[1])
    else:
        final = next((st for tag, st in states if tag == FINAL), None)
        oracle_stack(case, final, apply_out, states, out['violations'])
        if final is not None:
            query(final.args[0])
            query(final.args[1])
        query(apply_out)
    return out


# --------------------------------------------------------------------------------------------------
# the oracle: the property on the recorded provenance (written from the property text, no model involved)
# --------------------------------------------------------------------------------------------------
def _decision_of(case, tag):
    c, d, _ = dec_table(case)[tag]
    return c, d


def instantiations(ast) -> dict:
    """{splitter tag: how many instances of it the composition trains} - an evaluation / an ensemble expands the
    scope it is composed over once per fold (and every base once per fold), `left >> right` composes right over left."""
    acc: dict = {}

    def walk(p, scope, mult):
        k = p[0]
        if k == 'seq':
            if scope:
                scope(mult)
            walk(p[2], lambda m: walk(p[1], None, m), mult)
        elif k == 'stack':
            acc[p[3]] = acc.get(p[3], 0) + mult
            if scope:
                scope(mult * p[2])
            for b in p[1]:
                walk(b, None, mult * p[2])
        elif k == 'score':
            acc[p[2]] = acc.get(p[2], 0) + mult
            if scope:
                scope(mult * max(p[1], 1))
        elif scope:
            scope(mult)

    walk(ast, None, 1)
    return acc


def _reachable(roots) -> list:
    """Every payload node reachable from the roots (arguments, states, and what the states were trained on)."""
    memo, order, todo = set(), [], []
    for r in roots:
        if isinstance(r, P):
            todo.append(r)
        elif isinstance(r, dict):  # a splitter's attribute dictionary
            for fold in r.get('_indices') or ():
                if isinstance(getattr(fold, 'origin', None), P):
                    todo.append(fold.origin)
    while todo:
        p = todo.pop()
        if id(p) in memo:
            continue
        memo.add(id(p))
        order.append(p)
        todo.extend(p.args)
        if p.state is not None:
            todo.append(p.state)
    return order


def oracle_sync(case, roots, violations) -> None:
    """`Features and labels are split by the same fold indices`: of a splitter the composition trains once, every
    output port selects the same row positions of whatever input it splits (features, labels, in whichever fork)."""
    once = {t for t, m in instantiations(case['expr']).items() if m == 1}
    ports: dict = {}
    for p in _reachable(roots):
        if p.kind == 'part' and p.tag in once and p.pos is not None:
            ports.setdefault((p.tag, p.k), {}).setdefault(p.pos, p)
    for (tag, k), by_pos in sorted(ports.items()):
        if len(by_pos) > 1:
            (pa, a), (pb, b) = sorted(by_pos.items())[:2]
            cols = sorted({r[0][0] for r in a.args[0].rows[:1]} | {r[0][0] for r in b.args[0].rows[:1]})
            what = 'features and labels' if cols == [1, 2] else 'two inputs'
            violations.append((f'{what} are split by different fold indices: port {k} ({"test" if k % 2 else "train"} part of fold {k // 2}) of '
                               f'splitter {tag} selects positions {list(pa)} of one and {list(pb)} of the other',
                               'sync-features-labels', {'folds': len(ports) // 2}))
            return


def _fold_checks(case, sp, xrows, lrows, i):
    """What the property demands of fold `i` of splitter `sp` trained on rows `xrows` / `lrows`:
    (held-out feature keys, held-out label rows, per held-out position the allowed dependencies)."""
    c, decision = _decision_of(case, sp)
    tr, te = decide(decision, c, len(xrows))[i]
    trained = frozenset().union(*[{xrows[p][0], lrows[p][0]} | xrows[p][1] | lrows[p][1] for p in tr]) if tr else frozenset()
    return [xrows[p][0] for p in te], [lrows[p] for p in te], [xrows[p][1] | trained for p in te]


def _match_folds(n, ok) -> typing.Optional[tuple]:
    """A one-to-one assignment block j -> fold i with ok(j, i), identity preferred."""
    for perm in itertools.permutations(range(n)):
        if all(ok(j, perm[j]) for j in range(n)):
            return perm
    return None


def _splitter_input(states, sp):
    """(feature rows, label rows) the one top-level instance of splitter `sp` was trained on, or None."""
    top = [st for tag, st in states if tag == sp and isinstance(st, dict)]
    if len(top) != 1 or not top[0].get('_indices'):
        return None
    origin = getattr(top[0]['_indices'][0], 'origin', None)
    if not isinstance(origin, P) or len(origin.args) != 2:
        return None
    return list(origin.args[0].rows), list(origin.args[1].rows)


def oracle_eval(case, score, out, states, violations) -> list:
    """`... >> TrainTestScore`: every fold scored exactly once; true outcomes = the fold's held-out labels; the
    prediction describes the same held-out records and depends (beyond what the evaluated data depended on already)
    only on the fold's training part."""
    _, n, sp, metric, reducer = score
    inputs = _splitter_input(states, sp)
    if inputs is None:
        violations.append(('the evaluation did not train exactly one fold splitter', 'eval-splitter-count', {}))
        return []
    xrows, lrows = inputs
    if any(k[0] != 1 for k, _ in xrows) or any(k[0] != 2 for k, _ in lrows):
        violations.append(('the evaluation does not split (features, labels): the fold splitter is trained on records of columns '
                           f'{sorted({k[0] for k, _ in xrows})} as features and {sorted({k[0] for k, _ in lrows})} as labels',
                           'eval-roles', {'folds': n}))
        return []
    if n >= 2:
        if not (out.kind == 'apply' and out.tag == reducer):
            violations.append(('the evaluation value is not the reduction of the per-fold metrics', 'eval-fold-count', {}))
            return []
        metrics = list(out.args)
    else:
        metrics = [out]
    if n == 1 and out.kind == 'apply' and out.tag == reducer:
        metrics = list(out.args)
    bad = [x for x in metrics if not (x.kind == 'apply' and x.tag == metric and len(x.args) == 2)]
    if bad or len(metrics) != n:
        violations.append((f'{len(metrics) - len(bad)} (true, prediction) partitions are scored for {n} fold(s)', 'eval-fold-count',
                           {'folds': n}))
        return metrics
    checks = [_fold_checks(case, sp, xrows, lrows, i) for i in range(n)]

    def clause(j, i):
        true, pred = metrics[j].args
        keys, labels, allowed = checks[i]
        if list(true.rows) != labels:
            return 'eval-true-outcomes', f'true outcomes of scored partition {j} are not the held-out labels of fold {i}'
        if [r[0] for r in pred.rows] != keys:
            return 'eval-pred-records', f'predictions of scored partition {j} do not describe the held-out records of fold {i}'
        for (key, deps), okdeps in zip(pred.rows, allowed):
            if not deps <= okdeps:
                leak = sorted(deps - okdeps)
                own = any(a[1] == key[1] for a in leak)
                return 'eval-leak', (f'prediction for record {key[1]} scored in fold {i} depends on records outside the training part '
                                     f'of that fold: {leak[:4]}' + (' (including the record itself)' if own else ''))
        return None

    if _match_folds(n, lambda j, i: clause(j, i) is None) is None:
        first = next(c for c in (clause(j, j) for j in range(n)) if c is not None)
        violations.append((first[1], first[0], {'folds': n}))
    return metrics


def oracle_stack(case, final, apply_out, states, violations) -> None:
    """`[pre >>] FullStack(bases) >> final`: the final model's training set is, block by block, the bases'
    predictions for the held-out records of each fold (exactly once), each depending only on that fold's training
    part, paired with those records' labels; in apply mode all fold models of each base are combined on the input."""
    spine = _top(case['expr'])
    stack = next(op for op in spine if op[0] == 'stack')
    _, bases, n, sp, appender, stacker, reducer = stack
    if final is None:
        violations.append(('the model following the ensemble was not trained', 'stack-final-untrained', {}))
        return
    x, y = final.args
    inputs = _splitter_input(states, sp)
    if inputs is None:
        violations.append(('the ensemble did not train exactly one fold splitter', 'stack-splitter-count', {}))
        return
    xrows, lrows = inputs
    if any(k[0] != 1 for k, _ in xrows) or any(k[0] != 2 for k, _ in lrows):
        violations.append(('the ensemble does not split (features, labels): the fold splitter is trained on records of columns '
                           f'{sorted({k[0] for k, _ in xrows})} as features and {sorted({k[0] for k, _ in lrows})} as labels',
                           'stack-roles', {'folds': n}))
        return
    checks = [_fold_checks(case, sp, xrows, lrows, i) for i in range(n)]
    total = sum(len(c[0]) for c in checks)
    if len(x.rows) != total or len(y.rows) != total:
        violations.append((f'stacked train set has {len(x.rows)} rows and {len(y.rows)} labels, the folds hold out {total} records',
                           'stack-fold-count', {'folds': n}))
        return

    def blocks_for(perm):
        pos = 0
        for j in range(n):
            ln = len(checks[perm[j]][0])
            yield j, perm[j], pos, pos + ln
            pos += ln

    def clause(perm):
        for j, i, a, b in blocks_for(perm):
            keys, labels, allowed = checks[i]
            if [r[0] for r in x.rows[a:b]] != keys:
                return 'stack-pred-records', f'block {j} of the stacked train set does not describe the held-out records of fold {i}'
            if [(lk, ld) for lk, ld in y.rows[a:b]] != [(lk, ld) for lk, ld in labels]:
                return 'stack-labels', f'block {j} of the stacked labels is not the held-out labels of fold {i}'
            for (key, deps), okdeps in zip(x.rows[a:b], allowed):
                if not deps <= okdeps:
                    leak = sorted(deps - okdeps)
                    own = any(a_[1] == key[1] for a_ in leak)
                    return 'stack-leak', (f'stacked prediction for record {key[1]} (fold {i}) depends on records outside the training '
                                          f'part of that fold: {leak[:4]}' + (' (including the record itself)' if own else ''))
        return None

    if all(clause(perm) is not None for perm in itertools.permutations(range(n))):
        first = clause(tuple(range(n)))
        violations.append((first[1], first[0], {'folds': n, 'bases': len(bases)}))
    # apply mode: same input, all fold models of every base - and of that base - in the column of that base
    m = case['M']
    if [r[0] for r in apply_out.rows] != [(0, r) for r in range(m)]:
        violations.append(('the apply-mode output does not describe the input records', 'stack-apply-input', {}))
    trained: dict = {}
    for tag, st in states:
        if isinstance(st, P):
            trained.setdefault(tag, []).append(sexp.dumps(st.term()))

    def models_used(root) -> dict:
        """{actor tag: [state term of every distinct (node-wise) stateful application on the way]} - states are not
        descended into: only the models the apply path runs through"""
        used: dict = {}
        memo: set = set()
        todo = [root]
        while todo:
            p = todo.pop()
            if id(p) in memo:
                continue
            memo.add(id(p))
            if p.kind == 'apply' and p.state is not None:
                used.setdefault(p.tag, []).append(sexp.dumps(p.state.term()))
            if p.kind in ('input', 'part') and not (p.kind == 'input' and p.tag == 0):
                used.setdefault('foreign-input', []).append(p.kind)
            todo.extend(p.args)
        return used

    used = models_used(apply_out)
    if 'foreign-input' in used:
        violations.append(('the apply-mode output is computed from something else than the apply-mode input', 'stack-apply-input', {}))
        return
    plain = [(j, b) for j, b in enumerate(bases) if not splitter_tags(b)]
    # (a base that is itself an ensemble multiplies its instances; covered by the correspondence)
    for j, b in plain:
        for tag in apply_path_stateful_tags(b):
            want = trained.get(tag, [])
            got = set(used.get(tag, []))
            if len(want) != n or len(set(want)) != n or set(want) != got:
                violations.append((f'apply mode combines {len(got & set(want))} of the {len(want)} fold models of base actor {tag} '
                                   f'({n} folds)', 'stack-apply-fold-models', {'folds': n}))
                return
    # the stacked columns: in train mode column j is made of base j's predictions - in apply mode column j has to combine
    # the fold models of that very base, each exactly once
    joint, memo, todo = None, set(), [apply_out]
    while todo and joint is None:  # the appender application on the apply path (states are not descended into)
        p = todo.pop()
        if id(p) in memo:
            continue
        memo.add(id(p))
        if p.kind == 'apply' and p.tag == appender and p.state is None:
            joint = p
        todo.extend(p.args)
    if joint is not None and len(joint.args) == len(bases):
        for j, b in plain:
            col = joint.args[j]
            col_used = models_used(col)
            for i, other in plain:
                for tag in apply_path_stateful_tags(other):
                    got = col_used.get(tag, [])
                    if i == j and (set(got) != set(trained.get(tag, [])) or len(got) != n):
                        violations.append((f'apply-mode column {j} combines {len(set(got))} distinct fold models of its base actor {tag} in '
                                           f'{len(got)} applications ({n} folds)', 'stack-apply-columns', {'folds': n, 'bases': len(bases)}))
                        return
                    if i != j and got:
                        violations.append((f'apply-mode column {j} combines fold models of base {i} (actor {tag}), not of base {j}',
                                           'stack-apply-columns', {'folds': n, 'bases': len(bases)}))
                        return
            if col.kind == 'apply' and col.tag == reducer and len(col.args) != n:
                violations.append((f'apply-mode column {j} reduces {len(col.args)} predictions for {n} folds', 'stack-apply-fold-models',
                                   {'folds': n}))
                return


def reducer_tags(ast) -> set:
    """Tags of the apply-mode reducers of every ensemble in the expression."""
    k = ast[0]
    if k == 'seq':
        return reducer_tags(ast[1]) | reducer_tags(ast[2])
    if k == 'stack':
        return {ast[6]}.union(*(reducer_tags(b) for b in ast[1]))
    return set()


def sort_reduced(term, reducers: set):
    """The term (nested lists) with the arguments of every application of one of `reducers` sorted."""
    if not isinstance(term, list) or not term:
        return term
    if isinstance(term[0], list):  # an argument list
        return [sort_reduced(t, reducers) for t in term]
    if term[0] == 'apply' and len(term) == 4:
        args = [sort_reduced(a, reducers) for a in term[3]]
        if term[1] in reducers and term[2] == NONE:
            args = sorted(args, key=sexp.dumps)
        return ['apply', term[1], sort_reduced(term[2], reducers), args]
    return [term[0]] + [sort_reduced(t, reducers) if isinstance(t, list) else t for t in term[1:]]


def stateful_tags(ast) -> list:
    k = ast[0]
    if k == 'seq':
        return stateful_tags(ast[1]) + stateful_tags(ast[2])
    if k == 'wrap':
        return sorted({int(s[0]) for s in ast[1:4] if s != NONE and s[1]})
    if k == 'mapreduce':
        return [int(a[0]) for a in ast[1] if a[1]]
    if k == 'stack':
        return [t for b in ast[1] for t in stateful_tags(b)]
    return []


def apply_path_stateful_tags(ast) -> list:
    """Stateful actors a base runs its apply-mode input through."""
    k = ast[0]
    if k == 'seq':
        return apply_path_stateful_tags(ast[1]) + apply_path_stateful_tags(ast[2])
    if k == 'wrap':
        return [int(ast[2][0])] if ast[2] != NONE and ast[2][1] else []
    if k == 'mapreduce':
        return [int(a[0]) for a in ast[1] if a[1]]
    return []


# --------------------------------------------------------------------------------------------------
# generation
# --------------------------------------------------------------------------------------------------
LEAF_TEMPLATES = ['mapper', 'mapper', 'mapper', 'apply', 'train', 'label', 'label+mapper', 'label+mapper', 'label+apply',
                  'label+train', 'apply+train', 'label+apply+train']
FINAL_OP = ['wrap', NONE, [FINAL, True], [FINAL, True]]


def retag(ast, counter):
    """Copy with tags renumbered from `counter` (FINAL kept); builders shared inside one wrap operator stay shared."""
    k = ast[0]
    if k == 'seq':
        left = retag(ast[1], counter)
        return ['seq', left, retag(ast[2], counter)]
    if k == 'wrap':
        m: dict = {}
        out = ['wrap']
        for slot in ast[1:4]:
            if slot == NONE:
                out.append(NONE)
            elif slot[0] == FINAL:
                out.append([FINAL, True])
            else:
                if slot[0] not in m:
                    m[slot[0]] = next(counter)
                out.append([m[slot[0]], bool(slot[1])])
        return out
    if k == 'mapreduce':
        ms = [[next(counter), bool(a[1])] for a in ast[1]]
        return ['mapreduce', ms, next(counter)]
    if k == 'stack':
        tags = [next(counter) for _ in range(4)]
        return ['stack', [retag(b, counter) for b in ast[1]], int(ast[2])] + tags
    if k == 'score':
        return ['score', int(ast[1])] + [next(counter) for _ in range(3)]
    raise ValueError(k)


def shape(ast) -> str:
    k = ast[0]
    if k == 'seq':
        return f'({shape(ast[1])}>{shape(ast[2])})'
    if k == 'stack':
        return f'stk{ast[2]}[' + ','.join(shape(b) for b in ast[1]) + ']'
    if k == 'score':
        return f'score{ast[1]}'
    if k == 'wrap' and ast[2] != NONE and ast[2][0] == FINAL:
        return 'final'
    return pg.shape(ast)


def leaves(ast) -> int:
    k = ast[0]
    if k == 'seq':
        return leaves(ast[1]) + leaves(ast[2])
    if k == 'stack':
        return 1 + sum(leaves(b) for b in ast[1])
    return 1


class Gen:
    def __init__(self, rng):
        self.rng = rng

    def leaf(self):
        rng = self.rng
        if rng.random() < 0.15:
            return ['mapreduce', [[0, rng.random() < 0.65] for _ in range(rng.choice([1, 2, 2, 3]))], 0]
        t = rng.choice(LEAF_TEMPLATES)
        n = len({c for c in pg.WRAP_TEMPLATES[t] if c != '-'})
        return pg.wrap_leaf(t, [rng.random() < 0.7 for _ in range(n)])

    def tree(self, items: list):
        """Random parenthesisation of an operator sequence."""
        if len(items) == 1:
            return items[0]
        k = self.rng.randint(1, len(items) - 1)
        return ['seq', self.tree(items[:k]), self.tree(items[k:])]

    def pipe(self, n: int):
        return self.tree([self.leaf() for _ in range(n)])

    def stack(self, nested: bool = False, inner: bool = False):
        rng = self.rng
        nb = rng.choice([1, 1, 2, 2, 3])
        bases = []
        for _ in range(nb):
            if nested and rng.random() < 0.5:
                bases.append(self.tree([self.stack(False, inner=True)] + ([self.leaf()] if rng.random() < 0.5 else [])))
            else:
                bases.append(self.pipe(rng.choice([1, 1, 2])))
        # (an ensemble inside an ensemble multiplies the instances: fold counts kept small there)
        folds = 2 if nested else rng.choice([2, 2, 3, 3]) if inner else rng.choice([2, 2, 3, 3, 4, 5])
        return ['stack', bases, folds, 0, 0, 0, 0]

    def decision(self, c: int, n: int):
        rng = self.rng
        if rng.random() < 0.65:
            return ['kfold', rng.randrange(c)]
        return ['table', [[[rng.randrange(2 * n) for _ in range(rng.randint(0, n))],
                           [rng.randrange(2 * n) for _ in range(rng.randint(0, 3))]] for _ in range(c)]]

    def finish(self, kind: str, expr, n: typing.Optional[int] = None, partition: bool = False) -> dict:
        rng = self.rng
        expr = retag(expr, itertools.count(1))
        n = n or rng.randint(3, 8)
        dec = []
        once = instantiations(expr)
        for tag, nsplits, what in splitter_tags(expr):
            c = nsplits if nsplits >= 2 else rng.choice([2, 2, 3])
            # a double that never splits twice alike - where the composition trains the splitter exactly once (the call
            # number of that one `split` is then 0 whatever the execution order)
            volatile = once.get(tag) == 1 and rng.random() < 0.7
            dec.append([tag, c, ['kfold', rng.randrange(c)] if partition else self.decision(c, n), volatile])
        return {'kind': kind, 'expr': expr, 'N': n, 'M': rng.randint(1, 3), 'dec': dec, 'flavour': rng.randrange(8)}

    def eval_case(self) -> dict:
        rng = self.rng
        items = [self.leaf() for _ in range(rng.choice([1, 1, 2, 2, 3, 4]))]
        if rng.random() < 0.2:
            items.insert(rng.randrange(len(items) + 1), self.stack())
            items = items[:3]
        pipe = self.tree(items)
        folds = rng.choice([1, 2, 2, 3, 3, 4, 5])
        return self.finish('eval', ['seq', pipe, ['score', folds, 0, 0, 0]])

    def perf_case(self) -> dict:
        """`pipeline >> PerfTrackScore`: plain pipelines (the earlier generation's states are found by actor)."""
        rng = self.rng
        counter = itertools.count(1)
        items = [self.leaf() for _ in range(rng.choice([1, 1, 2, 2, 3]))]
        # (a pipeline whose apply path fans out - MapReduce over several mappers - does not compose with PerfTrackScore at
        # all: the state-carrying copy hanging on the apply input makes the apply tail ambiguous, `TopologyError`; not
        # this property's subject, see design.d/C12.md)
        items = [['mapreduce', it[1][:1], it[2]] if it[0] == 'mapreduce' else it for it in items]
        expr = retag(self.tree(items), counter)
        return {'kind': 'perf', 'expr': expr, 'N': rng.randint(2, 6), 'N2': rng.randint(1, 6), 'M': rng.randint(1, 3), 'dec': [],
                'flavour': 0, 'metric': next(counter), 'reducer': next(counter)}

    def stack_case(self) -> dict:
        rng = self.rng
        pre = [self.leaf() for _ in range(rng.choice([0, 0, 1, 1, 2]))]
        return self.finish('stack', self.tree(pre + [self.stack(nested=rng.random() < 0.12), FINAL_OP]))


CORPUS = [
    # the documentation's shapes: a mapper evaluated by 3-fold cross-validation and by hold-out; label transformer in scope
    ('eval', ['seq', ['wrap', NONE, [1, True], [1, True]], ['score', 3, 0, 0, 0]], 6),
    ('eval', ['seq', ['wrap', NONE, [1, True], [1, True]], ['score', 1, 0, 0, 0]], 5),
    ('eval', ['seq', ['seq', ['wrap', NONE, [1, True], [1, True]], ['wrap', [2, True], NONE, NONE]],
              ['seq', ['wrap', NONE, [3, True], [3, True]], ['score', 2, 0, 0, 0]]], 6),   # score scoped over the last mapper only
    ('eval', ['seq', ['seq', ['seq', ['wrap', NONE, [1, True], [1, True]], ['wrap', [2, True], NONE, NONE]],
                      ['wrap', NONE, [3, True], [3, True]]], ['score', 4, 0, 0, 0]], 8),
    ('eval', ['seq', ['mapreduce', [[1, True], [2, False]], 3], ['score', 2, 0, 0, 0]], 4),
    ('eval', ['seq', ['seq', ['stack', [['wrap', NONE, [1, True], [1, True]]], 2, 0, 0, 0, 0], ['wrap', NONE, [2, True], [2, True]]],
              ['score', 2, 0, 0, 0]], 6),
    # the FullStack docstring: pre >> FullStack(b1, b2) >> final
    ('stack', ['seq', ['seq', ['wrap', NONE, [1, True], [1, True]],
                       ['stack', [['wrap', NONE, [2, True], [2, True]], ['wrap', NONE, [3, True], [3, True]]], 2, 0, 0, 0, 0]], FINAL_OP], 6),
    ('stack', ['seq', ['stack', [['wrap', NONE, [2, True], [2, True]]], 3, 0, 0, 0, 0], FINAL_OP], 7),
    ('stack', ['seq', ['wrap', NONE, [1, True], [1, True]],
               ['seq', ['stack', [['seq', ['wrap', [4, True], NONE, NONE], ['wrap', NONE, [2, True], [2, True]]]], 2, 0, 0, 0, 0], FINAL_OP]], 5),
    ('stack', ['seq', ['seq', ['wrap', [1, True], [5, True], [5, True]],
                       ['stack', [['mapreduce', [[2, True], [3, True]], 4], ['wrap', NONE, [6, False], [7, True]]], 3, 0, 0, 0, 0]], FINAL_OP], 6),
]

# constructor argument checks: (class, kwargs description)
def _ctor_cases() -> list:
    out = []
    for cv in (None, 1, 2, 3):
        for builder in (False, True):
            for ns in (None, 1, 2, 4):
                out.append(('crossval', cv, builder, ns))
                for m in (0, 1, 2):
                    out.append(('ensembler', m, cv, builder, ns))
            for sized in (False, True):
                out.append(('holdout', sized, cv, builder))
    return out


def ctor_impl(spec) -> list:
    """Real constructors -> ['ok', ...] / ['error', class name]."""
    from forml import evaluation
    from forml.pipeline import ensemble, wrap

    L = lib()
    kind = spec[0]

    def splitter(builder):
        return L['Split'].builder(crossvalidator=CV(1, 2, ['kfold', 0])) if builder else L['Split']

    try:
        if kind == 'crossval':
            _, cv, builder, ns = spec
            kwargs = {'splitter': splitter(builder)}
            if cv is not None:
                kwargs['crossvalidator'] = CV(1, cv, ['kfold', 0])
            if ns is not None:
                kwargs['nsplits'] = ns
            m = evaluation.CrossVal(**kwargs)
            return ['ok', m._nsplits]  # pylint: disable=protected-access
        if kind == 'holdout':
            _, sized, cv, builder = spec
            kwargs = {'splitter': splitter(builder)}
            if cv is not None:
                kwargs['crossvalidator'] = CV(1, cv, ['kfold', 0])
            if sized:
                kwargs['test_size'] = 0.25
            m = evaluation.HoldOut(**kwargs)
            made = m._splitter.kwargs.get('crossvalidator')  # pylint: disable=protected-access
            c = 2 if builder else made.get_n_splits()
            return ['ok', m._nsplits, c]  # pylint: disable=protected-access
        _, nb, cv, builder, ns = spec
        kwargs = {'splitter': splitter(builder)}
        if cv is not None:
            kwargs['crossvalidator'] = CV(1, cv, ['kfold', 0])
        if ns is not None:
            kwargs['nsplits'] = ns
        bases = [wrap.Operator.mapper(L['Stateful'], tag=i + 1)() for i in range(nb)]
        e = ensemble.FullStack(*bases, **kwargs)
        return ['ok', e._nsplits]  # pylint: disable=protected-access
    except Exception as err:  # pylint: disable=broad-except
        return ['error', type(err).__name__]  # whatever a constructor raises is its behaviour (the model: TypeError / ValueError)


# --------------------------------------------------------------------------------------------------
# on data: the real PandasCVFolds, sklearn cross-validators (reproducible and not), default constructors, pickled
# actor states handed over by the compiled code's own actions (Train -> state -> SetState.Apply on a fresh instance)
# --------------------------------------------------------------------------------------------------
def _sk_cv(spec):
    """sklearn cross-validator; a seed of None = `random_state=None`: no two calls of `split` answer alike."""
    from sklearn import model_selection

    if spec[0] == 'KFold':
        return model_selection.KFold(n_splits=spec[1])
    if spec[0] == 'KFoldShuffle':
        return model_selection.KFold(n_splits=spec[1], shuffle=True, random_state=spec[2])
    if spec[0] == 'ShuffleSplit':
        return model_selection.ShuffleSplit(n_splits=spec[1], test_size=0.3, random_state=spec[2])
    if spec[0] == 'LeaveOneOut':
        return model_selection.LeaveOneOut()
    raise ValueError(spec)


class Recording:
    """A real cross-validator observed from outside: what every call of `split` answered (forml sees a
    `payload.CrossValidable`; nothing of forml is patched)."""

    def __init__(self, cv):
        self.cv = cv
        self.log: list = []

    def get_n_splits(self, *args, **kwargs):
        return self.cv.get_n_splits(*args, **kwargs)

    def split(self, features, labels=None, groups=None):
        out = [([int(p) for p in a], [int(p) for p in b]) for a, b in self.cv.split(features, labels, groups)]
        self.log.append(out)
        return out


def raised(err, cfg) -> list:
    """An exception that passed through forml code is the implementation's behaviour: an oracle finding; anything
    else is a harness defect and propagates."""
    import traceback

    if not any('/forml/' in f.filename for f in traceback.extract_tb(err.__traceback__)):
        raise err
    return [(f'{cfg.get("actor")} ({cfg.get("style", cfg.get("cv"))}) raised {type(err).__name__}: {str(err)[:160]}',
             f'exception-{type(err).__name__}')]


def reseed(cfg) -> None:
    """`random_state=None` cross-validators draw from numpy's global generator: seeded per case (from the check's own
    generator), so that a case replays identically while successive `split` calls still differ."""
    import numpy

    numpy.random.seed(cfg.get('np_seed', 0))


def guarded(func, cfg) -> list:
    """Oracle findings of `func(cfg)`."""
    try:
        return list(func(cfg))
    except Exception as err:  # pylint: disable=broad-except
        return raised(err, cfg)


def pandas_actor(cfg):
    """PandasCVFolds as the compiled code runs it: `Functor(builder, Train)` trains a fresh instance and returns its
    state; the features fork and the labels fork are fresh instances of the same builder receiving that state through
    `SetState` before they split -> (record ids per port, the indices decided in the train call, oracle findings)."""
    import pandas
    from forml.flow._code.target import user
    from forml.pipeline import payload

    reseed(cfg)
    ids = cfg['ids']
    cv = Recording(_sk_cv(cfg['cv']))
    features = pandas.DataFrame({'id': ids, 'x': [i * 2 for i in ids]})
    labels = pandas.Series(ids, name='y')
    builder = payload.PandasCVFolds.builder(crossvalidator=cv)
    state = user.Functor(builder, user.Train()).execute(features, labels)
    decided = [[list(a), list(b)] for a, b in cv.log[0]] if cv.log else []
    real = [[int(i) for i in part['id']] for part in user.Functor(builder, user.Apply()).preset_state().execute(state, features)]
    lreal = [[int(i) for i in part] for part in user.Functor(builder, user.Apply()).preset_state().execute(state, labels)]
    # oracle: features and labels split by the same indices - those decided in the one train call; ports 2i / 2i+1 =
    # train / test positions of fold i
    want = [[ids[p] for p in part] for ab in decided for part in ab]
    found = []
    if real != lreal:
        found.append(('the features fork and the labels fork of one trained splitter select different records', 'sync-features-labels'))
    elif real != want:
        found.append(('fold parts are not the records at the train/test positions decided when the splitter was trained', 'sync-positions'))
    return real, decided, found


def _pandas_actors():
    """Source / label extractor / memorising model over data frames."""
    if 'pandas' in _CACHE:
        return _CACHE['pandas']
    import pandas
    from forml import flow

    class Frame(flow.Actor):
        def __init__(self, ids, index=None):
            self.ids, self.index = ids, index

        def apply(self):
            return pandas.DataFrame({'id': list(self.ids)}, index=None if self.index is None else list(self.index))

    class Label(flow.Actor):
        def apply(self, frame):
            return frame[['id']], frame['id'].rename('label')

    class Memo(flow.Actor):
        """Remembers the record ids (features and labels) it was trained on; predictions carry them."""

        def __init__(self, name: int = 0):
            self.name = name
            self.seen, self.seen_labels = (), ()

        def train(self, features, labels, /):
            self.seen, self.seen_labels = tuple(int(i) for i in features['id']), tuple(int(i) for i in labels)

        def apply(self, features):
            return pandas.DataFrame({'id': features['id'].values, 'seen': [self.seen] * len(features),
                                     'seen_labels': [self.seen_labels] * len(features), 'model': [self.name] * len(features)})

        def get_params(self):
            return {'name': self.name}

        def set_params(self, name):
            self.name = name

    _CACHE['pandas'] = (Frame, Label, Memo)
    return _CACHE['pandas']


def pandas_eval(cfg) -> list:
    """A memorising model evaluated by the real TrainTestScore over CrossVal / HoldOut built by their default
    constructors (sklearn cross-validator - seeded or with random_state=None -, PandasCVFolds, pickled states, default
    reducer): oracle findings."""
    import statistics

    from forml import evaluation, flow
    from forml.io._input import extract
    from forml.pipeline import wrap
    from sklearn import model_selection

    reseed(cfg)
    Frame, Label, Memo = _pandas_actors()
    ids, style, seed, k = cfg['ids'], cfg['style'], cfg['seed'], cfg['k']
    size = cfg['size'] / 100 if cfg['size'] < 100 else cfg['size'] // 100
    partition = False  # the cross-validator holds every record out exactly once
    cv = None
    if style == 'kfold':
        cv = Recording(model_selection.KFold(n_splits=k))
        method, folds, partition = evaluation.CrossVal(crossvalidator=cv), k, True
    elif style == 'kfold-shuffle':
        cv = Recording(model_selection.KFold(n_splits=k, shuffle=True, random_state=seed))
        method, folds, partition = evaluation.CrossVal(crossvalidator=cv), k, True
    elif style == 'holdout':
        method, folds = evaluation.HoldOut(test_size=size, random_state=seed), 1
    else:
        cv = Recording(model_selection.ShuffleSplit(n_splits=3, test_size=0.3, random_state=seed))
        method, folds = evaluation.HoldOut(crossvalidator=cv), 1
    scored = []

    def metric(true, pred):
        scored.append(([int(i) for i in true], [int(i) for i in pred['id']],
                       [tuple(s) for s in pred['seen']], [tuple(s) for s in pred['seen_labels']]))
        return float(sum(int(i) for i in true))

    with pg.isolated():
        src = extract.Operator(Frame.builder(ids), Frame.builder(ids), Label.builder())
        comp = flow.Composition(src, wrap.Operator.mapper(Memo)() >> evaluation.TrainTestScore(evaluation.Function(metric), method))
        compiled = pg.compile_segment(comp.train, None)
        value = pg.tail_value(comp.train, compiled, pg.interpret(compiled.symbols))
    tag = f'(pandas, {style}{", random_state=None" if seed is None and style != "kfold" else ""})'
    if len(scored) != folds:
        return [(f'{len(scored)} (true, prediction) partitions are scored for {folds} fold(s) {tag}', 'eval-fold-count')]
    found = []
    # the statement itself, whatever the cross-validator decided
    for true, pred, seen, seen_labels in scored:
        if true != pred:
            found.append((f'the true outcomes paired with the predictions of a fold are those of other records {tag}', 'eval-true-outcomes'))
        elif any(s != sl for s, sl in zip(seen, seen_labels)):
            found.append((f'a fold model is trained on features and labels of different records: they were split by different '
                          f'indices {tag}', 'sync-features-labels'))
        elif any(i in row for i, row in zip(pred, seen)):
            found.append((f'a scored prediction comes from a model trained on its own record {tag}', 'eval-leak'))
    if not found and partition and sorted(i for true, *_ in scored for i in true) != sorted(ids):
        found.append((f'the folds do not score every record exactly once {tag}', 'eval-fold-count'))
    if not found:
        want = statistics.mean(float(sum(true)) for true, *_ in scored)
        if not isinstance(value, (int, float)) or abs(float(value) - want) > 1e-6:
            found.append((f'the evaluation result {value!r} is not the mean of the per-fold metric values: some fold does not '
                          f'contribute exactly once {tag}', 'eval-reduction'))
    if found:
        return found[:1]
    # ... and against what the cross-validator decided in the one call made while the splitter was trained
    decided = None
    if cv is not None and cv.log:
        decided = cv.log[0][:folds]
    elif style == 'holdout' and seed is not None:
        import pandas

        twin = model_selection.ShuffleSplit(test_size=size, train_size=None, random_state=seed, n_splits=2)
        frame = pandas.DataFrame({'id': ids})
        decided = [([int(p) for p in a], [int(p) for p in b]) for a, b in twin.split(frame, frame['id'])][:folds]
    if decided is None:
        return []
    want = [([ids[p] for p in te], [ids[p] for p in tr]) for tr, te in decided]
    got = sorted(scored)
    expect = sorted((te, te, [tuple(tr)] * len(te), [tuple(tr)] * len(te)) for te, tr in want)
    if got == expect:
        return []
    if [x[0] for x in got] != [x[0] for x in expect]:
        return [(f'true outcomes are not the held-out labels of the folds {tag}', 'eval-true-outcomes')]
    if [x[1] for x in got] != [x[1] for x in expect]:
        return [(f'predictions do not describe the held-out records of the folds {tag}', 'eval-pred-records')]
    return [(f'fold models are not trained on the training part of their fold {tag}', 'eval-leak')]


def pandas_stack(cfg) -> list:
    """`FullStack(memorising bases) >> final model` on data frames: real PandasCVFolds, sklearn cross-validator (seeded
    or random_state=None), pickled states; train mode, then apply mode with the train run's states: oracle findings."""
    import pandas
    from forml import flow
    from forml.io._input import extract
    from forml.pipeline import ensemble, wrap

    reseed(cfg)
    Frame, Label, Memo = _pandas_actors()
    ids, live, nb = cfg['ids'], cfg['live'], cfg['bases']
    cv = Recording(_sk_cv(cfg['cv']))
    partition = cfg['cv'][0] in ('KFold', 'KFoldShuffle', 'LeaveOneOut')
    sink: dict = {}

    class Final(flow.Actor):
        def train(self, features, labels, /):
            sink['train'] = (features, labels)

        def apply(self, features):
            sink['apply'] = features
            return features

        def get_state(self):
            return b'final'

        def set_state(self, state):
            pass

    def appender(*columns):
        return pandas.concat([c.add_prefix(f'b{i}_') for i, c in enumerate(columns)], axis='columns')

    def stacker(*folds):
        return pandas.concat(folds, axis='index', ignore_index=True)

    def reducer(*folds):
        return pandas.DataFrame({'id': folds[0]['id'].values,
                                 'models': [tuple(f['seen'].iloc[r] for f in folds) for r in range(len(folds[0]))],
                                 'inputs': [tuple(int(f['id'].iloc[r]) for f in folds) for r in range(len(folds[0]))],
                                 'model': [tuple(int(f['model'].iloc[r]) for f in folds) for r in range(len(folds[0]))]})

    with pg.isolated():
        src = extract.Operator(Frame.builder(live), Frame.builder(ids), Label.builder())
        bases = [wrap.Operator.mapper(Memo, name=i)() for i in range(nb)]
        expr = ensemble.FullStack(*bases, crossvalidator=cv, appender=appender, stacker=stacker, reducer=reducer) \
            >> wrap.Operator.mapper(Final)()
        comp = flow.Composition(src, expr)
        train_nodes = pg.segment_workers(comp.train)
        ctrain = pg.compile_segment(comp.train, None)
        tvals = pg.interpret(ctrain.symbols)
        by_gid = {node.gid: tvals[ctrain.index[node.uid]] for node in train_nodes if node.trained}
        persistent = list(comp.persistent)
        capply = pg.compile_segment(comp.apply, pg.Assets({g: by_gid[g] for g in persistent if g in by_gid}, persistent))
        pg.interpret(capply.symbols)
    tag = f'(pandas, {cfg["cv"][0]}{", random_state=None" if len(cfg["cv"]) > 2 and cfg["cv"][2] is None else ""})'
    if 'train' not in sink or 'apply' not in sink:
        return [(f'the model following the ensemble was not trained / applied {tag}', 'stack-final-untrained')]
    x, y = sink['train']
    labels = [int(i) for i in y]
    if len(x) != len(labels):
        return [(f'stacked train set has {len(x)} rows and {len(labels)} labels {tag}', 'stack-fold-count')]
    nfolds = cv.cv.get_n_splits(pandas.DataFrame({'id': ids}))
    fold_models: list = []
    for b in range(nb):
        rec = [int(i) for i in x[f'b{b}_id']]
        seen = [tuple(s) for s in x[f'b{b}_seen']]
        seen_labels = [tuple(s) for s in x[f'b{b}_seen_labels']]
        if any(int(m) != b for m in x[f'b{b}_model']):
            return [(f'column {b} of the stacked train set is not made of predictions of base {b} {tag}', 'stack-pred-records')]
        if rec != labels:
            return [(f'stacked predictions of base {b} are paired with the true outcomes of other records {tag}', 'stack-labels')]
        if seen != seen_labels:
            return [(f'a fold model of base {b} is trained on features and labels of different records: they were split by different '
                     f'indices {tag}', 'sync-features-labels')]
        if any(i in s for i, s in zip(rec, seen)):
            return [(f'a stacked prediction of base {b} comes from a model trained on its own record {tag}', 'stack-leak')]
        fold_models.append(set(seen))
    if partition and sorted(labels) != sorted(ids):
        return [(f'the folds do not stack every record exactly once {tag}', 'stack-fold-count')]
    if cv.log:
        want = [ids[p] for _, te in cv.log[0] for p in te]
        if labels != want:
            return [(f'the stacked blocks are not the held-out parts decided when the splitter was trained {tag}', 'stack-pred-records')]
    out = sink['apply']
    for b in range(nb):
        if [int(i) for i in out[f'b{b}_id']] != list(live) or any(set(t) != {i} for t, i in zip(out[f'b{b}_inputs'], live)):
            return [(f'apply mode does not run the fold models of base {b} on the same input records {tag}', 'stack-apply-input')]
        for models, names in zip(out[f'b{b}_models'], out[f'b{b}_model']):
            if set(names) != {b}:
                return [(f'apply-mode column {b} combines fold models of another base {tag}', 'stack-apply-columns')]
            if len(models) != nfolds or len(set(models)) != len(fold_models[b]) or set(models) != fold_models[b]:
                return [(f'apply mode combines {len(set(models) & fold_models[b])} of the {len(fold_models[b])} fold models of base {b} '
                         f'in {len(models)} reducer arguments {tag}', 'stack-apply-fold-models')]
    return []


# --------------------------------------------------------------------------------------------------
# the REAL default reducers / concatenators on adversarial but legal data, against the plain-matrix specification.
# Exactness: every generated number is UNIT * k = 60k/8 for a small integer k (a multiple of 7.5): such values, their
# sums and - because every fold count 1..5 divides 60 - their means over the folds are dyadic rationals far below 2**53,
# i.e. exactly representable as floats; results are compared as `fractions.Fraction`s, never approximately.
# --------------------------------------------------------------------------------------------------
UNIT_NUM, UNIT_DEN = 60, 8  # value = UNIT_NUM * k / UNIT_DEN


def _frac(value):
    """Exact rational of a number coming out of the code under test (None if it is no finite number)."""
    import fractions
    import math
    import numbers

    if isinstance(value, bool) or not isinstance(value, numbers.Real):
        try:
            value = value.item()  # numpy scalar
        except Exception:  # pylint: disable=broad-except
            return None
    if isinstance(value, float) and not math.isfinite(value):
        return None
    try:
        return fractions.Fraction(value)
    except Exception:  # pylint: disable=broad-except
        return None


def real_mean(cfg) -> tuple:
    """The real `TrainTestScore(Function(metric), CrossVal | HoldOut)` - `Function`'s DEFAULT reducer - on pandas data;
    the metric of a fold is the sum of per-record weights of its held-out records (zero, negative, equal fold scores)
    -> (per-fold scores in units, the reported value as an exact fraction or None, oracle findings)."""
    import fractions

    from forml import evaluation, flow
    from forml.io._input import extract
    from forml.pipeline import wrap
    from sklearn import model_selection

    reseed(cfg)
    Frame, Label, Memo = _pandas_actors()
    ids, weights, k = cfg['ids'], dict(zip(cfg['ids'], cfg['w'])), cfg['k']
    if cfg['style'] == 'holdout':
        method, folds = evaluation.HoldOut(test_size=0.4, random_state=cfg['seed']), 1
    else:
        cv = model_selection.KFold(n_splits=k) if cfg['seed'] is False else model_selection.KFold(n_splits=k, shuffle=True, random_state=cfg['seed'])
        method, folds = evaluation.CrossVal(crossvalidator=cv), k
    scores = []

    def metric(true, pred):
        units = sum(weights[int(i)] for i in true)
        scores.append(units)
        value = UNIT_NUM * units / UNIT_DEN
        return int(value) if cfg['ints'] and value == int(value) else value

    with pg.isolated():
        src = extract.Operator(Frame.builder(ids), Frame.builder(ids, cfg.get('index')), Label.builder())
        comp = flow.Composition(src, wrap.Operator.mapper(Memo)() >> evaluation.TrainTestScore(evaluation.Function(metric), method))
        compiled = pg.compile_segment(comp.train, None)
        value = pg.tail_value(comp.train, compiled, pg.interpret(compiled.symbols))
    tag = f'(default reducer, {folds} fold(s), fold scores {[UNIT_NUM * u / UNIT_DEN for u in scores]})'
    if len(scores) != folds:
        return scores, None, [(f'{len(scores)} (true, prediction) partitions are scored for {folds} fold(s) {tag}', 'eval-fold-count')]
    got = _frac(value)
    want = fractions.Fraction(UNIT_NUM * sum(scores), UNIT_DEN * len(scores))  # mean over ALL folds, each weight 1/n
    if got is None:
        return scores, None, [(f'the evaluation result {value!r} is not a number {tag}', 'eval-reduction')]
    if got != want:
        return scores, got, [(f'the evaluation result {float(got)} is not the mean {float(want)} of the per-fold metric values: '
                              f'some fold does not contribute exactly once {tag}', 'eval-reduction')]
    return scores, got, []


def real_stack(cfg) -> tuple:
    """The real `FullStack` with all its DEFAULT actors (PandasCVFolds, PandasConcat appender and stacker, pandas_mean
    reducer) over pandas-native base learners that keep the index of their input, on frames with non-default indexes
    -> (per base the fold models' predictions for the live rows in units, the apply output as exact fractions or None,
    oracle findings).  Base `b` trained on a fold predicts `a_b * x + UNIT * (b + 1) * sum(train labels)`."""
    import fractions

    import pandas
    from forml import flow
    from forml.io._input import extract
    from forml.pipeline import ensemble, wrap
    from sklearn import model_selection

    reseed(cfg)
    xs, ys, index = cfg['x'], cfg['y'], cfg['index']
    live_x, live_index, slopes, k = cfg['live_x'], cfg['live_index'], cfg['slopes'], cfg['k']
    cv = Recording(model_selection.KFold(n_splits=k) if cfg['seed'] is False
                   else model_selection.KFold(n_splits=k, shuffle=True, random_state=cfg['seed']))
    sink: dict = {}

    def unit(k_):
        return UNIT_NUM * k_ / UNIT_DEN

    class Frame(flow.Actor):
        def __init__(self, x, y, index):
            self.x, self.y, self.index = x, y, index

        def apply(self):
            return pandas.DataFrame({'x': [unit(v) for v in self.x], 'y': list(self.y)}, index=list(self.index))

    class Label(flow.Actor):
        def apply(self, frame):
            return frame[['x']], frame['y']

    class Lin(flow.Actor):
        """Pandas-native learner: its prediction is a Series carrying the index of its input."""

        def __init__(self, slope: int, scale: int):
            self.slope, self.scale, self.offset = slope, scale, 0.0

        def train(self, features, labels, /):
            self.offset = unit(self.scale * sum(int(v) for v in labels))

        def apply(self, features):
            return (features['x'] * self.slope + self.offset).rename('p')

        def get_params(self):
            return {'slope': self.slope, 'scale': self.scale}

        def set_params(self, slope, scale):
            self.slope, self.scale = slope, scale

    class Final(flow.Actor):
        def train(self, features, labels, /):
            sink['train'] = (features, labels)

        def apply(self, features):
            sink['apply'] = features
            return features

        def get_state(self):
            return b'final'

        def set_state(self, state):
            pass

    with pg.isolated():
        src = extract.Operator(Frame.builder(live_x, [0] * len(live_x), live_index), Frame.builder(xs, ys, index), Label.builder())
        bases = [wrap.Operator.mapper(Lin, slope=a, scale=b + 1)() for b, a in enumerate(slopes)]
        expr = ensemble.FullStack(*bases, crossvalidator=cv) >> wrap.Operator.mapper(Final)()
        comp = flow.Composition(src, expr)
        train_nodes = pg.segment_workers(comp.train)
        ctrain = pg.compile_segment(comp.train, None)
        tvals = pg.interpret(ctrain.symbols)
        by_gid = {node.gid: tvals[ctrain.index[node.uid]] for node in train_nodes if node.trained}
        persistent = list(comp.persistent)
        capply = pg.compile_segment(comp.apply, pg.Assets({g: by_gid[g] for g in persistent if g in by_gid}, persistent))
        pg.interpret(capply.symbols)
    tag = f'(default FullStack actors, {k} folds, {len(slopes)} base(s), live index {live_index})'
    decided = cv.log[0] if cv.log else []
    # the plain-matrix specification
    models = [[(b + 1) * sum(ys[p] for p in tr) for tr, _ in decided] for b in range(len(slopes))]  # offset units per base, fold
    preds = [[[slopes[b] * x + off for x in live_x] for off in models[b]] for b in range(len(slopes))]  # base, fold, row (units)
    if 'train' not in sink or 'apply' not in sink or len(decided) != k:
        return preds, None, [(f'the model following the ensemble was not trained / applied {tag}', 'stack-final-untrained')]
    found = []
    x, y = sink['train']
    want_train = [[fractions.Fraction(UNIT_NUM * (slopes[b] * xs[p] + models[b][f]), UNIT_DEN) for b in range(len(slopes))]
                  for f, (_, te) in enumerate(decided) for p in te]
    want_labels = [ys[p] for _, te in decided for p in te]
    try:
        got_train = [[_frac(v) for v in row] for row in x.values.tolist()] if getattr(x, 'ndim', 0) == 2 else None
        got_labels = [int(v) for v in y]
    except Exception:  # pylint: disable=broad-except
        got_train, got_labels = None, None
    if got_train != want_train:
        found.append((f'the stacked train set is not, block by block, the out-of-fold predictions of the bases {tag}', 'stack-pred-records'))
    elif got_labels != want_labels:
        found.append((f'the stacked labels are not the held-out labels of the folds {tag}', 'stack-labels'))
    out = sink['apply']
    want = [[fractions.Fraction(UNIT_NUM * sum(preds[b][f][i] for f in range(k)), UNIT_DEN * k) for b in range(len(slopes))]
            for i in range(len(live_x))]  # row i, column b = mean over ALL k fold models of base b for input row i
    try:
        got = [[_frac(v) for v in row] for row in out.values.tolist()] if getattr(out, 'ndim', 0) == 2 else None
    except Exception:  # pylint: disable=broad-except
        got = None
    if not found and got != want:
        if got is None or len(got) != len(want):
            what = (f'apply mode yields {None if got is None else len(got)} rows for {len(want)} input rows: the fold models are not combined '
                    f'row by row on the same input')
        else:
            row = next(i for i, (g, w) in enumerate(zip(got, want)) if g != w)
            what = (f'apply-mode row {row} is {[float(v) if v is not None else None for v in got[row]]}, the mean of all fold models\' predictions '
                    f'for input row {row} is {[float(v) for v in want[row]]}')
        found.append((f'{what} {tag}', 'stack-apply-reduce'))
    return preds, got, found[:1]


# --------------------------------------------------------------------------------------------------
# the splitter actor's state / hyper-parameter contract: operation sequences on real CVFoldable actors
# --------------------------------------------------------------------------------------------------
def run_ops(cfg) -> tuple:
    """Replay an operation sequence on real splitter actors -> (per operation output, per operation the indices the
    cross-validator decided during it).  `cls`: 'raw' / 'pickled' = the symbolic CVFoldable subclasses, 'pandas' =
    payload.PandasCVFolds.  Actors are built by their builder, states travel as the actor hands them out."""
    from forml.flow._code.target import user
    from forml.pipeline import payload

    L = lib()
    kind = cfg['cls']
    cls = {'raw': L['Split'], 'pickled': L['SplitReal'], 'pandas': payload.PandasCVFolds}[kind]
    cvs = [CV(i, c, d, v, plain=kind == 'pandas') for i, (c, d, v) in enumerate(cfg['cvs'])]

    def data(col, rids):
        if kind == 'pandas':
            import pandas

            return pandas.DataFrame({'id': list(rids)}) if col == 1 else pandas.Series(list(rids), name='y')
        return P('input', col, None, (), None, [((col, r), frozenset()) for r in rids])

    def rids_of(part):
        if kind == 'pandas':
            return [int(i) for i in (part['id'] if hasattr(part, 'columns') else part)]
        return [r[0][1] for r in coerce(part).rows]

    actors, states, outs, decided = {}, {}, [], []
    for op in cfg['ops']:
        before = [len(cv.log) for cv in cvs]
        try:
            what = op[0]
            if what == 'new':
                actors[op[1]] = cls.builder(crossvalidator=cvs[op[2]])()
                out = 'unit'
            elif what == 'train':
                actors[op[1]].train(data(1, op[2]), data(2, op[2]))
                out = 'unit'
            elif what == 'getstate':
                states[op[1]] = actors[op[2]].get_state()
                out = 'unit'
            elif what == 'setstate':
                actors[op[1]].set_state(states[op[2]])
                out = 'unit'
            elif what == 'preset':
                user.SetState(user.Apply()).set(actors[op[1]], states[op[2]])
                out = 'unit'
            elif what == 'setparams':
                actors[op[1]].set_params(crossvalidator=cvs[op[2]])
                out = 'unit'
            elif what == 'getparams':
                params = actors[op[1]].get_params()
                which = [i for i, cv in enumerate(cvs) if cv is params.get('crossvalidator')]
                out = ['params', which[0] if which and len(params) == 1 else 'foreign']
            elif what == 'apply':
                out = ['parts', [rids_of(part) for part in actors[op[1]].apply(data(op[2], op[3]))]]
            else:
                raise ValueError(op)
        except KeyError:
            out = 'badref'
        except RuntimeError:
            out = ['error', 'notTrained']
        except Exception as err:  # pylint: disable=broad-except
            out = ['error', type(err).__name__]
        outs.append(out)
        decided.append([cv.log[n:] for cv, n in zip(cvs, before)])
    return outs, decided


def ops_oracle(cfg, outs, decided) -> list:
    """The property on an operation sequence: an actor that holds the state of a train call - because it was trained,
    or received that state (however often handed on, whatever transfer) - splits whatever it is applied to at the
    positions the cross-validator decided *in that train call*; re-applying its hyper-parameters does not change that."""
    lineage, slineage, cvof = {}, {}, {}  # actor -> index of the train operation its fold indices come from
    found = []
    applied: dict = {}
    for i, (op, out) in enumerate(zip(cfg['ops'], outs)):
        what = op[0]
        if out == 'badref':
            continue
        if what == 'new':
            lineage[op[1]], cvof[op[1]] = None, op[2]
        elif what == 'train':
            made = [idx for log in decided[i] for idx in log]
            lineage[op[1]] = (i, made[-1]) if len(made) >= 1 else 'unknown'
        elif what == 'getstate':
            slineage[op[1]] = lineage.get(op[2])
        elif what in ('setstate', 'preset'):
            lineage[op[1]] = slineage.get(op[2])
        elif what == 'setparams':
            if cvof.get(op[1]) != op[2]:
                lineage[op[1]] = 'unknown'  # another cross-validator: the property does not say what becomes of the folds
            cvof[op[1]] = op[2]
        elif what == 'apply':
            lin = lineage.get(op[1])
            if not isinstance(lin, tuple):
                continue  # never trained / unknown: no demand
            rids = op[3]
            want = [[rids[p] for p in part if p < len(rids)] for ab in lin[1] for part in ab]
            got = out[1] if isinstance(out, list) and out[0] == 'parts' else out
            applied.setdefault(lin[0], []).append((op[2], got))
            if got != want:
                others = [g for _, g in applied[lin[0]][:-1] if g != got]
                if isinstance(got, list) and others:
                    found.append((f'operation {i}: features and labels are split by different fold indices although both actors hold the '
                                  f'state of the train operation {lin[0]}', 'sync-features-labels'))
                else:
                    found.append((f'operation {i}: an actor holding the state of train operation {lin[0]} does not split at the positions '
                                  f'decided in that train call: {str(got)[:80]} instead of {str(want)[:80]}', 'sync-state-transfer'))
    return found[:1]


# --------------------------------------------------------------------------------------------------
# the check
# --------------------------------------------------------------------------------------------------
def env_of(case) -> list:
    return [case['N'], case['M'], [[t, c, d, v] for t, (c, d, v) in sorted(dec_table(case).items())]] + ([case['N2']] if 'N2' in case else [])


WITNESS_KEYS = ('kind', 'expr', 'N', 'M', 'dec', 'flavour', 'N2', 'metric', 'reducer')


def witness_of(case) -> dict:
    return {k: case[k] for k in WITNESS_KEYS if k in case}


class C12(fw.Check):
    ID = 'C12'
    LEAN_MODULES = ['ForML.Props.C12']
    DRIVER = 'drv_c12'
    RULE = ('(a) evaluation: random pipelines of 1-4 operators (wrap mapper/apply/train/label operators and combinations, '
            'payload.MapReduce, occasionally a FullStack, stateful and stateless actors, random parenthesisation) >> '
            'TrainTestScore(Function(metric, reducer), CrossVal with 2-5 folds or HoldOut); (b) stacking: [0-2 operators >>] '
            'FullStack(1-3 bases of 1-2 operators, occasionally a nested FullStack; 2-5 folds) >> final model, every '
            'parenthesisation; (c) performance tracking: pipeline of 1-3 operators >> PerfTrackScore on tracked data with the states '
            'of an earlier generation; each over 3-8 train records / 1-3 apply records, splitter decisions = rotated k-fold partitions '
            '(65%) or arbitrary index tables (overlapping, repeating, empty parts); the cross-validator double of every splitter the '
            'composition trains exactly once is, in 70% of the cases, one whose split() is NOT reproducible (every call decides '
            'differently: counter-based); 8 flavours: cross-validator + splitter class / builder + nsplits, mergers as functions / '
            'builders, splitter state handed over as a dict / pickled through the inherited Actor.get_state/set_state (either way '
            'through the compiled SetState action incl. re-application of the hyper-parameters); hand-picked corpus first; thorough '
            'adds every pipeline of <= 2 basic operators x 2-3 folds x 1-2 bases.  A case is distinct by (expression, sizes, '
            'decisions, flavour); non-trivial when a stateful actor is trained inside a fold.  Real composition compiled and '
            'interpreted (train segment; for stacking also the apply segment with the train run\'s states); compared with the '
            'Lean model on the train/apply provenance terms (up to the order of the apply-mode reducers\' arguments) and on the '
            'provenance values (rows: record, dependency set) of every scored (true, prediction) pair resp. of the stacked train '
            'set, stacked labels and apply output; oracle on the recorded provenance: features/labels roles, every port of a '
            'once-trained splitter selects the same positions of whatever it splits, folds scored / stacked exactly once, held-out '
            'records and labels, dependencies within the fold\'s training part, apply mode: same input, every column combines all '
            'fold models of its own base and of no other.  (d) constructor argument checks of CrossVal / HoldOut / FullStack, all '
            'combinations; (e) splitter actor contract: random operation sequences (new / train / get_state / set_state / '
            'SetState.set / set_params / get_params / apply; the compiled flow\'s train -> state -> features fork + labels fork '
            'first) on the real CVFoldable subclasses and on PandasCVFolds with counter-based cross-validator doubles vs the Lean '
            'actor machine + lineage oracle; (f) PandasCVFolds through Functor(Train) / Functor(Apply).preset_state with sklearn '
            'KFold / ShuffleSplit / LeaveOneOut, seeded and with random_state=None; (g) real evaluations (CrossVal, HoldOut incl. the '
            'default HoldOut(test_size=..) with random_state=None, default mean reducer) and real FullStack train + apply runs on '
            'pandas data with memorising models; (h) the REAL default reducers / concatenators on adversarial legal data: '
            'evaluation.Function with its default reducer over 2-5 folds whose scores (sum of per-record weights of the held-out '
            'records) are zero / negative / equal / cancelling / all zero, ints or floats, frames with non-default indexes; '
            'FullStack with every default actor (PandasCVFolds, PandasConcat appender and stacker, pandas_mean) over '
            'pandas-native index-keeping base learners, 1-3 bases, 2-5 folds down to single-row folds, train and live frames '
            'with default / unsorted / repeated / string / constant / descending index labels, 1-5 live rows (more folds than '
            'distinct labels included); every number is 60k/8 for a small integer k, so all values, sums and fold means (fold '
            'counts divide 60) are exactly representable and compared as exact fractions; compared with the Lean reducers '
            '(meanReducer / stackReduce computed by the driver for the generated data) and with the plain-matrix specification '
            '(mean over ALL n folds; row i of the apply output = mean of row i of every fold model; stacked train set and labels '
            'block by block).')
    TRUSTED = [
        'symbolic payloads: the flow layer does not inspect payloads, so actors are uninterpreted symbols over provenance '
        'terms and the recorded rows (parametricity, DESIGN section 3)',
        'the harness\'s symbolic actors implement the row semantics the model interprets terms with (hzip / concat / select): '
        'tied by comparing the recorded rows with the model\'s `rows` of the same terms on every case',
        'reference interpreter of compiled symbol tables (props/pipegen.interpret), one process: all forks of a splitter see the '
        'same cross-validator object; the apply run loads, by gid, the states the train run of the same composition produced '
        '(persistence is C04); performance tracking: the earlier generation\'s states are handed over by actor',
        'cross-validator doubles / the recording proxy around sklearn cross-validators observe split() calls from outside',
        'fixed-point data (multiples of 60/8) make float arithmetic of the code under test exact; fractions.Fraction for the comparison',
    ]
    ASSUMPTIONS = [
        'pipelines are row-preserving on the apply path (true of the symbolic actor library: mappers and reducers are row-aligned)',
        'scopes: a pipeline is modelled by what an expanded trunk computes from its three inputs (C03 establishes that for the '
        'operator library; here it is re-checked on every case by comparing the complete provenance terms)',
        'cross-validators return positions within the data (out-of-range positions are not generated)',
        'non-reproducible cross-validator doubles are attached only to splitters the composition trains exactly once (the call '
        'number of that one split() is then independent of the execution order); splitters instantiated per fold get '
        'reproducible doubles',
        'the order in which an ensemble\'s apply-mode reducer receives the fold models is not part of the property',
        'pandas_mean is driven with one-column (Series) predictions: its data-frame branch calls DataFrame.iteritems(), which '
        'does not exist in the installed pandas 3 (environment incompatibility of the unchanged code, not generated)',
        'index labels of the apply output are not compared (the specification is positional); fold models are applied to one '
        'and the same input, so their predictions carry one and the same index',
    ]

    # ---- cases ---------------------------------------------------------------------------------
    def _cases(self) -> list:
        gen = Gen(self.rng)
        out = []
        for kind, expr, n in CORPUS:
            case = gen.finish(kind, expr, n, partition=True)
            out.append(case)
            out.append(dict(gen.finish(kind, expr, n), flavour=7 - case['flavour']))
        for _ in range(self.n(260, 3000)):
            out.append(gen.eval_case())
        for _ in range(self.n(260, 3000)):
            out.append(gen.stack_case())
        for _ in range(self.n(60, 600)):
            out.append(gen.perf_case())
        if not self.quick:
            basic = pg.wrap_leaves(['mapper', 'label', 'apply', 'train']) + [['mapreduce', [[0, True], [0, False]], 0]]
            for nl in (1, 2):
                for seq in itertools.product(basic, repeat=nl):
                    for tree in pg.parenthesisations(list(seq)):
                        for folds in (1, 2, 3):
                            out.append(gen.finish('eval', ['seq', tree, ['score', folds, 0, 0, 0]], 5, partition=folds != 3))
            for base in basic:
                for nb in (1, 2):
                    for folds in (2, 3):
                        for pre in ([], [basic[0]], [basic[2]]):
                            stack = ['stack', [base] * nb, folds, 0, 0, 0, 0]
                            for tree in pg.parenthesisations(pre + [stack, FINAL_OP]):
                                out.append(gen.finish('stack', tree, 5, partition=folds == 2))
        return out

    # ---- correspondence ------------------------------------------------------------------------
    def _evaluate(self, cases: list, account: bool = True) -> list:
        """Run real code (+ oracle) and model on the cases; returns per case True when nothing was reported."""
        reals = pg.run_batch(impl, cases, chunk=10)
        lines, spans = [], []
        for case, real in zip(cases, reals):
            start = len(lines)
            if isinstance(real, dict) and not real.get('oversize') and not real.get('unreadable') and 'harness_error' not in real:
                lines.append(sexp.dumps(['perftrack', case['expr'], case['metric'], case['reducer']] if case['kind'] == 'perf'
                                        else ['denote', case['expr']]))
                env = sexp.dumps(env_of(case))
                lines.extend(f'(rows {env} {q})' for q in real['queries'])
            spans.append((start, len(lines)))
        answers = self.model(lines)
        verdicts = []
        oversize = 0
        for case, real, (a, b) in zip(cases, reals, spans):
            ok = True
            witness = witness_of(case)
            if isinstance(real, tuple) and real and real[0] == 'exception':
                self.violate(f'composing / running {shape(case["expr"])} raised {real[1]}: {real[2]}', witness, f'exception-{real[1]}')
                verdicts.append(False)
                continue
            if 'harness_error' in real:
                raise fw.MachineryError(f'harness defect on {sexp.dumps(case["expr"])}: {real["harness_error"]}\n{real["trace"]}')
            if real.get('oversize'):
                oversize += 1
                verdicts.append(True)
                continue
            if account:
                sts = bool(stateful_tags(case['expr']))
                tbl = any(d[2][0] == 'table' for d in case['dec'])
                vol = any(len(d) > 3 and d[3] for d in case['dec'])
                folds = ','.join(str(t[1]) for t in splitter_tags(case['expr']))
                self.case(sexp.dumps([case['expr'], case['N'], case['M'], case['dec'], case['flavour']]),
                          f'{case["kind"]} leaves={min(leaves(case["expr"]), 7)} folds={folds} {"table" if tbl else "kfold"}'
                          f'{" volatile" if vol else ""} {"pickled" if case["flavour"] & 4 else "dict"}-state',
                          nontrivial=sts, sample={'expr': shape(case['expr']), 'N': case['N'], 'dec': case['dec'][:1]})
            for what, sig, detail in real['violations']:
                self.violate(f'{what} [{shape(case["expr"])}]', witness, sig, detail)
                ok = False
            if real.get('unreadable'):
                verdicts.append(False)
                continue
            m = sexp.loads(answers[a])
            if not isinstance(m, list) or m[0] != 'ok':
                self.diverge('model rejects the expression', witness, 'ok', m)
                verdicts.append(False)
                continue
            mtrain, mapply = sexp.dumps(m[2]), sexp.dumps(m[1])
            if 'train_c' in real and (real['train'] != mtrain or (real['apply'] is not None and real['apply'] != mapply)):
                # the order in which an ensemble's reducer receives the fold models is not part of the property
                # ("combines all fold models"): compared up to the order of the reducers' arguments (train mode too:
                # an ensemble that is a base / evaluated contributes its apply path to the enclosing train mode)
                reducers = reducer_tags(case['expr'])
                mtrain = sexp.dumps(sort_reduced(sexp.num(m[2]), reducers))
                real['train'] = real['train_c']
                if real['apply'] is not None:
                    mapply = sexp.dumps(sort_reduced(sexp.num(m[1]), reducers))
                    real['apply'] = real['apply_c']
            if real['train'] != mtrain:
                self.diverge('train-mode provenance term (what is scored / stacked)', witness, real['train'][:700], mtrain[:700])
                ok = False
            if real['apply'] is not None and real['apply'] != mapply:
                self.diverge('apply-mode provenance term of the ensemble', witness, real['apply'][:700], mapply[:700])
                ok = False
            for q, want, ans in zip(real['queries'], real['answers'], answers[a + 1:b]):
                got = sexp.num(sexp.loads(ans))
                got = got[1] if isinstance(got, list) and got and got[0] == 'ok' else got
                if got != want:
                    self.diverge('provenance value (rows) of a scored / stacked term', witness, str(want)[:500], str(got)[:500])
                    ok = False
                    break
            verdicts.append(ok)
        if oversize:
            self.notes.append(f'{oversize} generated cases skipped: provenance terms above {SIZE_LIMIT} nodes')
        return verdicts

    def _constructors(self):
        cases = _ctor_cases()
        lines = []
        for spec in cases:
            if spec[0] == 'crossval':
                lines.append(sexp.dumps(['init', 'crossval', spec[1], spec[2], spec[3]]))
            elif spec[0] == 'holdout':
                lines.append(sexp.dumps(['init', 'holdout', spec[1], spec[2], spec[3]]))
            else:
                lines.append(sexp.dumps(['init', 'ensembler', spec[1], spec[2], spec[3], spec[4]]))
        answers = self.model(lines)
        for spec, ans in zip(cases, answers):
            with pg.isolated():
                real = ctor_impl(spec)
            m = sexp.num(sexp.loads(ans))
            self.case(('ctor',) + tuple(spec), f'constructor {spec[0]} -> {real[0]}', nontrivial=False)
            if m != real:
                self.diverge('constructor argument check', {'ctor': list(spec)}, real, m)
            if real[0] == 'ok':
                # the property's frame: an evaluation wires >= 2 folds (hold-out: exactly one of a >= 2-split), an ensemble too
                if (spec[0] == 'holdout' and (real[1] != 1 or real[2] < 2)) or (spec[0] != 'holdout' and real[1] < 2):
                    self.violate(f'{spec[0]} constructed with a degenerate fold count {real[1:]}', {'ctor': list(spec)}, 'ctor-fold-count')

    def correspondence(self):
        import time

        pg.quiet()
        spent = {}

        def timed(name, func, *args):
            t0 = time.time()
            func(*args)
            spent[name] = round(time.time() - t0, 1)

        timed('pipelines', lambda: self._evaluate(self._cases()))
        timed('constructors', self._constructors)
        timed('actor', self._actor_level)
        timed('contract', self._actor_contract)
        timed('pandas', self._pandas_evaluation)
        timed('defaults', self._real_defaults)
        if not self.quick:
            self._planted()
        bad = sexp.loads(self.model(['(denote (wrap none))', '(rows (1 1 ()) (part 1))'])[0])
        if bad != 'bad-op':
            self.diverge('driver must reject what it cannot parse', '(denote (wrap none))', None, bad)
        timed('minimise', self._minimise)
        self.notes.append(f'wall seconds per stream: {spent}')

    # ---- actor level: the real CVFoldable / PandasCVFolds on data -----------------------------------
    def _actor_level(self):
        L = lib()
        lines, checks = [], []
        # a splitter that was never trained refuses to split (any exception; the model: notTrained)
        actor = L['Split'](crossvalidator=CV(1, 2, ['kfold', 0]))
        try:
            actor.apply(P('input', 1, None, (), None, [((1, 0), frozenset())]))
            real = ['ok']
        except Exception:  # pylint: disable=broad-except
            real = ['error', 'notTrained']
        lines.append(sexp.dumps(['cvfold', NONE, [0]]))
        checks.append(({'actor': 'untrained'}, real, None))
        rng = self.rng
        for _ in range(self.n(40, 400)):
            n = rng.randint(4, 12)
            k = rng.choice([2, 2, 3, 4])
            k = min(k, n // 2) if n // 2 >= 2 else 2
            seed = rng.choice([None, None, rng.randrange(1000)])  # None: random_state=None, no two splits alike
            cv = rng.choice([['KFold', k], ['KFoldShuffle', k, seed], ['ShuffleSplit', k, seed],
                             ['LeaveOneOut'] if n <= 6 else ['KFold', 2]])
            cfg = {'actor': 'pandas', 'ids': rng.sample(range(100, 200), n), 'cv': cv, 'np_seed': rng.randrange(2 ** 31)}
            try:
                real, indices, found = pandas_actor(cfg)
            except Exception as err:  # pylint: disable=broad-except
                found = raised(err, cfg)
                self.case(('pandas', tuple(cfg['ids']), str(cfg['cv'])), f'PandasCVFolds {cfg["cv"][0]}', nontrivial=True)
                for what, sig in found:
                    self.violate(what, cfg, sig)
                continue
            lines.append(sexp.dumps(['cvfold', indices, cfg['ids']]))
            checks.append((cfg, ['ok', real], (indices, found)))
        answers = self.model(lines)
        for (cfg, real, extra), ans in zip(checks, answers):
            m = sexp.num(sexp.loads(ans))
            if cfg['actor'] == 'untrained':
                self.case(('untrained', str(real)), 'splitter not trained', nontrivial=False)
                if m != real:
                    self.diverge('CVFoldable.apply of a splitter that was never trained', cfg, real, m)
                continue
            indices, found = extra
            volatile = len(cfg['cv']) > 2 and cfg['cv'][2] is None
            self.case(('pandas', tuple(cfg['ids']), str(cfg['cv'])),
                      f'PandasCVFolds {cfg["cv"][0]}{" random_state=None" if volatile else ""} folds={len(indices)}', nontrivial=True)
            if m != real:
                self.diverge('PandasCVFolds parts (record ids per port) of the forks vs the indices decided in train', cfg, real, m)
            for what, sig in found:
                self.violate(what, cfg, sig)

    # ---- the splitter's state / params contract: operation sequences vs the Lean actor machine ------------
    def _ops_case(self) -> dict:
        rng = self.rng
        n = rng.randint(3, 7)
        ids = rng.sample(range(10, 60), n)
        ncv = rng.choice([1, 1, 2])
        gen = Gen(rng)
        cvs = []
        for _ in range(ncv):
            c = rng.choice([2, 2, 3])
            cvs.append([c, gen.decision(c, n), rng.random() < 0.75])
        cls = rng.choice(['raw', 'pickled', 'pickled', 'pandas'])
        t = 0
        ops = [['new', t, 0], ['train', t, ids]]
        actors, states = [t], []
        if rng.random() < 0.8:
            # what the compiled flow does: the trained worker's state goes to a features fork and a labels fork
            ops.append(['getstate', 0, t])
            states.append(0)
            for fork, col in ((1, 1), (2, 2)):
                ops.append(['new', fork, rng.randrange(ncv) if rng.random() < 0.3 else 0])
                ops.append(['preset', fork, 0])
                actors.append(fork)
            ops += [['apply', 1, 1, ids], ['apply', 2, 2, ids]]
        for _ in range(rng.randint(0, 8)):
            r = rng.random()
            a = rng.choice(actors)
            if r < 0.12:
                new = max(actors) + 1
                ops.append(['new', new, rng.randrange(ncv)])
                actors.append(new)
            elif r < 0.22:
                ops.append(['train', a, ids])
            elif r < 0.37:
                st = len(states)
                ops.append(['getstate', st, a])
                states.append(st)
            elif r < 0.57 and states:
                ops.append([rng.choice(['preset', 'preset', 'setstate']), a, rng.choice(states)])
            elif r < 0.67:
                ops.append(['setparams', a, rng.randrange(ncv)])
            elif r < 0.72:
                ops.append(['getparams', a])
            else:
                ops.append(['apply', a, rng.choice([1, 2]), ids])
        return {'actor': 'ops', 'cls': cls, 'cvs': cvs, 'ops': ops}

    def _ops_judge(self, cfg) -> tuple:
        """(outputs, oracle findings) of one sequence on the real actors."""
        outs, decided = run_ops(cfg)
        return outs, ops_oracle(cfg, outs, decided)

    def _ops_shrink(self, cfg, sig) -> dict:
        cur = cfg
        progress = True
        while progress:
            progress = False
            for i in range(len(cur['ops']) - 1, 0, -1):
                cand = dict(cur, ops=cur['ops'][:i] + cur['ops'][i + 1:])
                outs, found = self._ops_judge(cand)
                if 'badref' not in outs and any(s == sig for _, s in found):
                    cur, progress = cand, True
                    break
        return cur

    def _actor_contract(self):
        cases = [self._ops_case() for _ in range(self.n(150, 1500))]
        lines = [sexp.dumps(['actor', 'raw' if c['cls'] == 'raw' else 'pickled', c['cvs'], c['ops']]) for c in cases]
        answers = self.model(lines)
        reported = set()
        for cfg, ans in zip(cases, answers):
            outs, found = self._ops_judge(cfg)
            vol = any(v for _, _, v in cfg['cvs'])
            self.case(('ops', sexp.dumps([cfg['cls'], cfg['cvs'], cfg['ops']])),
                      f'splitter actor ops cls={cfg["cls"]} {"volatile" if vol else "reproducible"} cv', nontrivial=True,
                      sample={'cls': cfg['cls'], 'ops': cfg['ops'][:6]})
            m = sexp.num(sexp.loads(ans))
            if not (isinstance(m, list) and m and m[0] == 'ok'):
                self.diverge('model rejects the operation sequence', cfg, outs, m)
                continue
            if m[1] != outs:
                k = next((i for i, (x, y) in enumerate(zip(outs, m[1])) if x != y), None)
                self.diverge(f'splitter actor: outcome of operation {k} ({cfg["ops"][k] if k is not None else "?"})', cfg, outs, m[1])
            for what, sig in found:
                if sig not in reported:
                    reported.add(sig)
                    small = self._ops_shrink(cfg, sig)
                    what2 = next((w for w, s2 in self._ops_judge(small)[1] if s2 == sig), what)
                    self.violate(f'{what2} [{small["cls"]} splitter, {len(small["ops"])} operations]', small, sig)

    # ---- the real default reducers / concatenators on adversarial data vs the Lean reducers and the matrix spec ------
    def _index(self, n: int) -> list:
        """A legal but non-default frame index for `n` rows."""
        rng = self.rng
        kind = rng.choice(['default', 'unsorted', 'repeated', 'strings', 'same', 'descending'])
        if kind == 'default':
            return list(range(n))
        if kind == 'unsorted':
            return rng.sample(range(100, 200), n)
        if kind == 'repeated':
            return [rng.choice([3, 5, 8]) for _ in range(n)]
        if kind == 'strings':
            return [rng.choice('dcba') + rng.choice(['', 'x']) for _ in range(n)]
        if kind == 'same':
            return [7] * n
        return list(range(n, 0, -1))

    def _real_mean_case(self) -> dict:
        rng = self.rng
        k = rng.choice([2, 3, 3, 4, 5])
        n = rng.randint(k, 3 * k)
        ids = rng.sample(range(1000, 2000), n)
        pattern = rng.choice(['sparse', 'sparse', 'cancel', 'equal', 'negative', 'all-zero', 'any'])
        if pattern == 'sparse':  # most records weigh nothing: some folds score exactly 0
            w = [rng.choice([0, 0, 0, 0, 1, -1, 2, 4]) for _ in ids]
        elif pattern == 'cancel':  # weights that cancel within a contiguous fold
            w = [(1 if i % 2 else -1) * (1 + i // 2 % 3) for i in range(n)]
        elif pattern == 'equal':
            w = [2] * n
        elif pattern == 'negative':
            w = [-rng.randint(0, 4) for _ in ids]
        elif pattern == 'all-zero':
            w = [0] * n
        else:
            w = [rng.randint(-8, 8) for _ in ids]
        style = 'holdout' if rng.random() < 0.1 and n >= 3 else 'crossval'
        seed = rng.randrange(1000) if style == 'holdout' else rng.choice([False, False, rng.randrange(1000), None])
        return {'actor': 'real-mean', 'ids': ids, 'w': w, 'k': k, 'style': style, 'seed': seed, 'ints': rng.random() < 0.3,
                'pattern': pattern, 'index': self._index(n) if rng.random() < 0.5 else None, 'np_seed': rng.randrange(2 ** 31)}

    def _real_stack_case(self) -> dict:
        rng = self.rng
        k = rng.choice([2, 2, 3, 4, 5])
        n = rng.randint(k, 2 * k + 2)  # down to single-row folds
        m = rng.choice([1, 2, 3, 3, 4, 5])
        return {'actor': 'real-stack', 'x': [rng.randint(-4, 4) for _ in range(n)], 'y': [rng.randint(-3, 3) for _ in range(n)],
                'index': self._index(n), 'live_x': [rng.randint(-4, 4) for _ in range(m)], 'live_index': self._index(m),
                'slopes': [rng.choice([0, 1, -1, 2]) for _ in range(rng.choice([1, 2, 2, 3]))], 'k': k,
                'seed': rng.choice([False, rng.randrange(1000), None]), 'np_seed': rng.randrange(2 ** 31)}

    @staticmethod
    def _real_variants(cfg):
        """Smaller data of the same kind."""
        if cfg['actor'] == 'real-mean':
            n, k = len(cfg['ids']), cfg['k']
            if cfg['style'] == 'crossval' and k > 2:
                yield dict(cfg, k=k - 1)
            for i in range(n):
                if n - 1 >= max(k, 3 if cfg['style'] == 'holdout' else 2):
                    yield dict(cfg, ids=cfg['ids'][:i] + cfg['ids'][i + 1:], w=cfg['w'][:i] + cfg['w'][i + 1:], index=None)
            if cfg.get('index') is not None:
                yield dict(cfg, index=None)
            for i, v in enumerate(cfg['w']):
                if abs(v) > 1:
                    yield dict(cfg, w=cfg['w'][:i] + [v // abs(v)] + cfg['w'][i + 1:])
            if cfg['seed'] not in (False, None) and cfg['style'] == 'crossval':
                yield dict(cfg, seed=False)
            if cfg['ints']:
                yield dict(cfg, ints=False)
        else:
            n, m, k = len(cfg['x']), len(cfg['live_x']), cfg['k']
            if len(cfg['slopes']) > 1:
                for b in range(len(cfg['slopes'])):
                    yield dict(cfg, slopes=cfg['slopes'][:b] + cfg['slopes'][b + 1:])
            if k > 2:
                yield dict(cfg, k=k - 1)
            for i in range(m):
                if m > 1:
                    yield dict(cfg, live_x=cfg['live_x'][:i] + cfg['live_x'][i + 1:], live_index=cfg['live_index'][:i] + cfg['live_index'][i + 1:])
            for i in range(n):
                if n - 1 >= k:
                    yield dict(cfg, x=cfg['x'][:i] + cfg['x'][i + 1:], y=cfg['y'][:i] + cfg['y'][i + 1:], index=cfg['index'][:i] + cfg['index'][i + 1:])
            if cfg['seed'] is not False:
                yield dict(cfg, seed=False)
            if cfg['index'] != list(range(n)):
                yield dict(cfg, index=list(range(n)))

    def _real_shrink(self, cfg, sig) -> tuple:
        func = real_mean if cfg['actor'] == 'real-mean' else real_stack

        def judge(c):
            return guarded(lambda c_: func(c_)[2], c)

        cur, steps, progress = cfg, 0, True
        while progress and steps < 80:
            progress = False
            for cand in self._real_variants(cur):
                steps += 1
                if any(s2 == sig for _, s2 in judge(cand)):
                    cur, progress = cand, True
                    break
        return cur, next((w for w, s2 in judge(cur) if s2 == sig), None)

    def _real_report(self, cfg, found, reported: set) -> None:
        for what, sig in found:
            if sig in reported:
                continue
            reported.add(sig)
            small, what2 = self._real_shrink(cfg, sig)
            self.violate(what2 or what, small, sig)

    def _real_defaults(self):
        import fractions

        means = [self._real_mean_case() for _ in range(self.n(30, 300))]
        stacks = [self._real_stack_case() for _ in range(self.n(30, 300))]
        lines, jobs = [], []
        reported: set = set()
        for cfg in means:
            try:
                scores, got, found = real_mean(cfg)
            except Exception as err:  # pylint: disable=broad-except
                scores, got, found = None, None, raised(err, cfg)
            self.case(('real-mean', sexp.dumps([cfg['ids'], cfg['w'], cfg['k'], str(cfg['seed']), cfg['style'], cfg['ints']])),
                      f'default mean reducer {cfg["style"]} folds={cfg["k"] if cfg["style"] == "crossval" else 1} scores={cfg["pattern"]}',
                      nontrivial=True, sample={'w': cfg['w'], 'k': cfg['k']})
            self._real_report(cfg, found, reported)
            if scores is not None and len(scores) >= 2 and got is not None:  # a single fold bypasses the reducer
                jobs.append(('mean', cfg, got, len(lines)))
                lines.append(sexp.dumps(['mean', UNIT_DEN, [UNIT_NUM * u for u in scores]]))
        for cfg in stacks:
            try:
                preds, got, found = real_stack(cfg)
            except Exception as err:  # pylint: disable=broad-except
                preds, got, found = None, None, raised(err, cfg)
            self.case(('real-stack', sexp.dumps([cfg['x'], cfg['y'], [str(i) for i in cfg['index']], cfg['live_x'],
                                                 [str(i) for i in cfg['live_index']], cfg['slopes'], cfg['k'], str(cfg['seed'])])),
                      f'default FullStack actors folds={cfg["k"]} bases={len(cfg["slopes"])} live rows={len(cfg["live_x"])}',
                      nontrivial=True, sample={'live_index': cfg['live_index'], 'k': cfg['k']})
            self._real_report(cfg, found, reported)
            if preds is not None and got is not None:
                for b, folds in enumerate(preds):
                    jobs.append(('reduce', cfg, [row[b] if b < len(row) else None for row in got], len(lines)))
                    lines.append(sexp.dumps(['reduce', UNIT_DEN, [[UNIT_NUM * v for v in fold] for fold in folds]]))
        answers = self.model(lines) if lines else []
        for kind, cfg, got, at in jobs:
            m = sexp.num(sexp.loads(answers[at]))
            if not (isinstance(m, list) and m and m[0] == 'ok'):
                self.diverge(f'model refuses what the real default {kind} reducer computes', cfg, [str(g) for g in got] if isinstance(got, list) else str(got), m)
            elif kind == 'mean' and fractions.Fraction(m[1], m[2]) != got:
                self.diverge('default reducer of the per-fold metric values (evaluation._metric.mean)', cfg, str(got), f'{m[1]}/{m[2]}')
            elif kind == 'reduce' and [fractions.Fraction(a, b) for a, b in m[1]] != got:
                self.diverge('default apply-mode reducer of the fold models (ensemble.pandas_mean)', cfg, [str(g) for g in got],
                             [f'{a}/{b}' for a, b in m[1]])

    # ---- the real thing on data: default constructors, sklearn splitters, PandasCVFolds, pickled states ---------
    def _pandas_evaluation(self):
        rng = self.rng
        for _ in range(self.n(16, 100)):
            style = rng.choice(['kfold', 'kfold-shuffle', 'holdout', 'holdout-cv'])
            cfg = {'actor': 'pandas-eval', 'ids': rng.sample(range(1000, 2000), rng.randint(6, 14)), 'style': style,
                   'seed': rng.choice([None, None, rng.randrange(10000)]), 'k': rng.choice([2, 3] if style == 'kfold' else [2, 3, 4]),
                   'size': rng.choice([25, 40, 200]), 'np_seed': rng.randrange(2 ** 31)}
            self.case(('pandas-eval', tuple(cfg['ids']), style, cfg['seed'], cfg['k'], cfg['size']),
                      f'pandas evaluation {style}{" random_state=None" if cfg["seed"] is None and style != "kfold" else ""}', nontrivial=True)
            for what, sig in guarded(pandas_eval, cfg):
                self.violate(what, cfg, sig)
        for _ in range(self.n(10, 60)):
            n = rng.randint(6, 12)
            k = rng.choice([2, 3, 3, 4])
            seed = rng.choice([None, None, rng.randrange(1000)])
            cfg = {'actor': 'pandas-stack', 'ids': rng.sample(range(1000, 2000), n), 'live': rng.sample(range(3000, 4000), rng.randint(1, 3)),
                   'bases': rng.choice([1, 2, 2, 3]), 'cv': rng.choice([['KFold', k], ['KFoldShuffle', k, seed], ['ShuffleSplit', k, seed]]),
                   'np_seed': rng.randrange(2 ** 31)}
            volatile = len(cfg['cv']) > 2 and cfg['cv'][2] is None
            self.case(('pandas-stack', tuple(cfg['ids']), tuple(cfg['live']), cfg['bases'], str(cfg['cv'])),
                      f'pandas stacking {cfg["cv"][0]}{" random_state=None" if volatile else ""} bases={cfg["bases"]}', nontrivial=True)
            for what, sig in guarded(pandas_stack, cfg):
                self.violate(what, cfg, sig)

    def _planted(self):
        """Self-test of the comparison: a deliberately wrong model line (one fold more) must differ from the real term."""
        gen = Gen(self.rng)
        case = gen.finish('eval', ['seq', ['wrap', NONE, [1, True], [1, True]], ['score', 2, 0, 0, 0]], 5, partition=True)
        with pg.isolated():
            try:
                real = impl(case)
            except Exception:  # pylint: disable=broad-except
                real = {}
        if 'train' not in real:  # the code under test does not get that far: reported by the correspondence proper
            self.notes.append('planted-divergence self-test skipped: the reference case does not run')
            return
        wrong = ['seq', case['expr'][1], ['score', 3] + case['expr'][2][2:]]
        m = sexp.loads(self.model([sexp.dumps(['denote', wrong])])[0])
        if sexp.dumps(m[2]) == real['train']:
            raise fw.MachineryError('planted divergence (one fold more in the model) was not detected by the comparison')
        self.notes.append('planted-divergence self-test: a model with one fold more is told apart')

    # ---- shrinking / search ---------------------------------------------------------------------
    @staticmethod
    def _sub_exprs(ast):
        """Smaller expressions of the same kind (the closing score / final operator and the ensemble are kept)."""
        k = ast[0]
        if k == 'seq':
            for side, other, mk in ((ast[1], ast[2], lambda s, o: ['seq', s, o]), (ast[2], ast[1], lambda s, o: ['seq', o, s])):
                if side[0] not in ('score', 'stack') and side != FINAL_OP and not (side[0] == 'seq' and C12._essential(side)):
                    yield other
                for s in C12._sub_exprs(side):
                    yield mk(s, other)
        elif k == 'stack':
            if len(ast[1]) > 1:
                for i in range(len(ast[1])):
                    yield ['stack', ast[1][:i] + ast[1][i + 1:]] + ast[2:]
            if ast[2] > 2:
                yield ['stack', ast[1], ast[2] - 1] + ast[3:]
            for i, b in enumerate(ast[1]):
                for s in C12._sub_exprs(b):
                    yield ['stack', ast[1][:i] + [s] + ast[1][i + 1:]] + ast[2:]
                if b[0] == 'seq':
                    yield ['stack', ast[1][:i] + [b[1]] + ast[1][i + 1:]] + ast[2:]
                    yield ['stack', ast[1][:i] + [b[2]] + ast[1][i + 1:]] + ast[2:]
        elif k == 'score':
            if ast[1] > 2:
                yield ['score', ast[1] - 1] + ast[2:]
        elif k == 'mapreduce':
            if len(ast[1]) > 1:
                for i in range(len(ast[1])):
                    yield ['mapreduce', ast[1][:i] + ast[1][i + 1:], ast[2]]
        elif k == 'wrap' and ast != FINAL_OP:
            filled = [i for i in (1, 2, 3) if ast[i] != NONE]
            if len(filled) > 1:
                for i in filled:
                    yield ast[:i] + [NONE] + ast[i + 1:]

    @staticmethod
    def _essential(ast) -> bool:
        k = ast[0]
        if k == 'seq':
            return C12._essential(ast[1]) or C12._essential(ast[2])
        return k in ('score', 'stack') or ast == FINAL_OP

    def _variants(self, case):
        for expr in self._sub_exprs(case['expr']):
            tags = {t: (n, w) for t, n, w in splitter_tags(expr)}
            dec = []
            once = instantiations(expr)
            for t, (c, d, v) in dec_table(case).items():
                if t in tags:
                    c2 = tags[t][0] if tags[t][0] >= 2 else c
                    d2 = d if d[0] == 'kfold' else ['table', d[1][:c2]]
                    if d2[0] == 'kfold':
                        d2 = ['kfold', d2[1] % c2]
                    dec.append([t, c2, d2, v and once.get(t) == 1])
            yield dict(case, expr=expr, dec=dec)
        if case['N'] > 3:
            yield dict(case, N=case['N'] - 1)
        if case.get('N2', 0) > 2:
            yield dict(case, N2=case['N2'] - 1)
        if case['M'] > 1:
            yield dict(case, M=1)
        for i, spec in enumerate(case['dec']):
            t, c, d = spec[:3]
            if d[0] == 'table':
                yield dict(case, dec=case['dec'][:i] + [[t, c, ['kfold', 0]] + spec[3:]] + case['dec'][i + 1:])
            if len(spec) > 3 and spec[3]:
                yield dict(case, dec=case['dec'][:i] + [[t, c, d, False]] + case['dec'][i + 1:])
        if case.get('flavour'):
            yield dict(case, flavour=0)

    def _signatures(self, case) -> dict:
        """Oracle on the real code for one case, in-process: {signature: (what, detail)}."""
        with pg.isolated():
            try:
                real = impl(case)
            except Exception as err:  # pylint: disable=broad-except
                return {'exception-' + type(err).__name__: (f'composing / running raised {type(err).__name__}: {str(err)[:200]}', None)}
        if 'harness_error' in real:
            raise fw.MachineryError(f'harness defect on {sexp.dumps(case["expr"])}: {real["harness_error"]}')
        return {sig: (what, detail) for what, sig, detail in real.get('violations', [])}

    def _shrink(self, case, signature):
        cur = case
        steps = 0
        progress = True
        while progress and steps < 60:
            progress = False
            for cand in self._variants(cur):
                steps += 1
                if signature in self._signatures(cand):
                    cur, progress = cand, True
                    break
        return cur

    def _minimise(self):
        shrunk, done = [], set()
        for v in self.violations:
            if v.signature in done:
                continue
            done.add(v.signature)
            if isinstance(v.witness, dict) and 'expr' in v.witness:
                small = self._shrink(v.witness, v.signature)
                sigs = self._signatures(small)
                what, detail = sigs.get(v.signature, (v.what, v.detail))
                shrunk.append(fw.Violation(f'{what} [{shape(small["expr"])}]', witness_of(small), v.signature, detail))
            else:
                shrunk.append(v)
        self.violations[:] = shrunk

    def search(self, reason):
        """Widen around the diverging cases (their smaller variants, partition decisions, other flavours), then a sweep
        over small pipelines; the oracle alone decides."""
        seeds = [d.case for d in self.divergences if isinstance(d.case, dict) and 'expr' in d.case][:12]
        tried, found = 0, {}
        for case in seeds:
            cands = [case] + list(itertools.islice(self._variants(case), 25))
            once = instantiations(case['expr'])
            cands += [dict(case, dec=[[d[0], d[1], ['kfold', 0], once.get(d[0]) == 1] for d in case['dec']], flavour=f) for f in range(8)]
            for cand in cands:
                tried += 1
                for sig, (what, detail) in self._signatures(cand).items():
                    found.setdefault(sig, (cand, what, detail))
                if found:
                    break
        if not found:
            gen = Gen(self.rng)
            basic = pg.wrap_leaves(['mapper', 'label']) + [['mapreduce', [[0, True], [0, False]], 0]]
            sweep = []
            for leaf in basic:
                for folds in (1, 2, 3):
                    sweep.append(gen.finish('eval', ['seq', leaf, ['score', folds, 0, 0, 0]], 5, partition=True))
                for nb in (1, 2):
                    sweep.append(gen.finish('stack', ['seq', ['stack', [leaf] * nb, 2, 0, 0, 0, 0], FINAL_OP], 5, partition=True))
                    sweep.append(gen.finish('stack', ['seq', ['seq', basic[0], ['stack', [leaf] * nb, 3, 0, 0, 0, 0]], FINAL_OP], 5, partition=True))
            for cand in sweep:
                tried += 1
                for sig, (what, detail) in self._signatures(cand).items():
                    found.setdefault(sig, (cand, what, detail))
        for sig, (cand, what, detail) in found.items():
            small = self._shrink(cand, sig)
            what2, detail2 = self._signatures(small).get(sig, (what, detail))
            self.violate(f'{what2} [{shape(small["expr"])}]', witness_of(small), sig, detail2)
        self.notes.append(f'failing-input search ({reason}): {tried} cases around {len(seeds)} diverging ones')

    def replay_finding(self, entry):
        w = entry['witness']
        if not isinstance(w, dict):
            return None
        pg.quiet()
        if w.get('actor') == 'pandas':
            for what, sig in guarded(lambda c: pandas_actor(c)[2], w):
                return fw.Violation(what, w, sig)
            return None
        if w.get('actor') == 'pandas-eval':
            for what, sig in guarded(pandas_eval, w):
                return fw.Violation(what, w, sig)
            return None
        if w.get('actor') == 'pandas-stack':
            for what, sig in guarded(pandas_stack, w):
                return fw.Violation(what, w, sig)
            return None
        if w.get('actor') == 'real-mean':
            for what, sig in guarded(lambda c: real_mean(c)[2], w):
                return fw.Violation(what, w, sig)
            return None
        if w.get('actor') == 'real-stack':
            for what, sig in guarded(lambda c: real_stack(c)[2], w):
                return fw.Violation(what, w, sig)
            return None
        if w.get('actor') == 'ops':
            for what, sig in self._ops_judge(w)[1]:
                return fw.Violation(what, w, sig)
            return None
        if w.get('ctor'):
            with pg.isolated():
                real = ctor_impl(tuple(w['ctor']))
            if real[0] == 'ok' and ((w['ctor'][0] == 'holdout' and (real[1] != 1 or real[2] < 2)) or (w['ctor'][0] != 'holdout' and real[1] < 2)):
                return fw.Violation(f'{w["ctor"][0]} constructed with a degenerate fold count {real[1:]}', w, 'ctor-fold-count')
            return None
        if 'expr' not in w:
            return None
        for sig, (what, detail) in self._signatures(w).items():
            return fw.Violation(f'{what} [{shape(w["expr"])}]', w, sig, detail)
        return None


if __name__ == '__main__':
    raise SystemExit(fw.run(C12))
