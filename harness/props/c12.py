"""C12 — cross-validated evaluation and stacking never leak held-out data (lean/ForML/Model/CrossVal.lean).

Implementation: the *real* `flow.Composition(source, expr)` where `expr` is built from the real operator library
(`wrap.Operator`, `payload.MapReduce`, `ensemble.FullStack`, `evaluation.TrainTestScore` over
`evaluation.CrossVal` / `HoldOut` and `evaluation.Function`), with

* symbolic actors whose payloads record provenance: every payload is a node of a provenance DAG (`P`: the term)
  carrying rows `(record, {records any model on the way was trained on})`,
* a symbolic fold splitter: a subclass of the real `payload.CVFoldable` (its `train`/`apply` are the anchored
  code) over a cross-validator double that decides *any* index lists (k-fold partitions and arbitrary tables).

Both segments are compiled by `flow.compile` and executed by the memoising reference interpreter of
props/pipegen.py.  Compared with the Lean model (`denote` terms, `rows` interpretation of the scored / stacked
sub-terms); the oracle evaluates the no-leak statement of the property on the recorded provenance alone.
"""
from __future__ import annotations

import itertools
import typing

from core import framework as fw
from core import sexp

from . import pipegen as pg

NONE = pg.NONE
FINAL = 990  # stateful mapper appended after a top-level ensemble: its state reveals the stacked train set and labels
SIZE_LIMIT = 60000  # provenance terms are shipped as trees
_CACHE: dict = {}


# --------------------------------------------------------------------------------------------------
# provenance payloads and symbolic actors (created once forml is importable)
# --------------------------------------------------------------------------------------------------
class P:
    """A payload = node of the provenance DAG + its provenance value (rows)."""

    __slots__ = ('kind', 'tag', 'state', 'args', 'k', 'rows', '_size')

    def __init__(self, kind, tag, state, args, k, rows):
        self.kind, self.tag, self.state, self.args, self.k = kind, tag, state, tuple(args), k
        self.rows = tuple(rows)  # ((col, rid), frozenset of (col, rid))
        self._size = None

    def __len__(self):  # the flow engine logs len(state)
        return 1

    def size(self) -> int:
        """Size of the term as a tree."""
        if self._size is None:
            self._size = 1 + (self.state.size() if self.state is not None else 1 if self.kind != 'input' else 0) \
                + sum(a.size() for a in self.args)
        return self._size

    def term(self):
        """Nested-list form (the protocol's `val`)."""
        if self.kind == 'input':
            return ['input', self.tag]
        st = NONE if self.state is None else self.state.term()
        if self.kind == 'apply':
            return ['apply', self.tag, st, [a.term() for a in self.args]]
        if self.kind == 'state':
            return ['state', self.tag, st, self.args[0].term(), self.args[1].term()]
        if self.kind == 'part':
            return ['part', self.tag, st, self.k, self.args[0].term()]
        if self.kind == 'concat':
            return ['concat', self.tag, [a.term() for a in self.args]]
        raise ValueError(self.kind)


def atoms(rows) -> frozenset:
    out = set()
    for key, deps in rows:
        out.add(key)
        out |= deps
    return frozenset(out)


def seen(state) -> frozenset:
    """Records a state was trained on (transitively)."""
    if state is None:
        return frozenset()
    return seen(state.state) | atoms(state.args[0].rows) | atoms(state.args[1].rows)


def hzip(sn, datas):
    """Row-aligned actor: rows of the first argument, depending on the same-position rows of all arguments and
    on the records `sn` the actor's state was trained on."""
    if not datas:
        return ()
    first = list(datas[0])
    for other in datas[1:]:
        first = [(k, d | other[i][1]) if i < len(other) else (k, d) for i, (k, d) in enumerate(first)]
    return tuple((k, d | sn) for k, d in first)


def decide(decision, c: int, ln: int) -> list:
    """The cross-validator doubles: (train positions, test positions) per fold for `ln` rows."""
    if decision[0] == 'kfold':
        r = decision[1]
        return [([p for p in range(ln) if (p + r) % c != i], [p for p in range(ln) if (p + r) % c == i]) for i in range(c)]
    if decision[0] == 'table':
        if ln == 0:
            return [([], []) for _ in decision[1]]
        return [([s % ln for s in a], [s % ln for s in b]) for a, b in decision[1]]
    raise ValueError(decision)


class FoldIdx(tuple):
    """(train positions, test positions) of one fold, remembering the splitter state they belong to."""

    origin = None
    tag = None


class CV:
    """Cross-validator double (`payload.CrossValidable`): decides from the number of rows."""

    def __init__(self, tag: int, c: int, decision):
        self.tag, self.c, self.decision = tag, c, decision

    def get_n_splits(self, *_args):
        return self.c

    def split(self, features, labels=None, groups=None):
        state = P('state', self.tag, None, (features, labels), None, ())
        for tr, te in decide(self.decision, self.c, len(features.rows)):
            f = FoldIdx((tuple(tr), tuple(te)))
            f.origin, f.tag = state, self.tag
            yield f


def lib():
    """Actor classes and helpers that need forml."""
    if 'lib' in _CACHE:
        return _CACHE['lib']
    from forml import flow
    from forml.pipeline import payload

    class Sym(flow.Actor):
        """Stateless row-aligned symbolic actor."""

        def __init__(self, tag: int):
            self.tag = tag
            self.state = None

        def apply(self, *args):
            return P('apply', self.tag, self.state, args, None, hzip(seen(self.state), [a.rows for a in args]))

        def get_params(self):
            return {}

        def set_params(self, **params):
            pass

    class Stateful(Sym):
        def train(self, features, labels, /):
            self.state = P('state', self.tag, self.state, (features, labels), None, ())

        def get_state(self):
            return self.state

        def set_state(self, state):
            self.state = state

    class Stack(Sym):
        """Vertical concatenation."""

        def apply(self, *args):
            return P('concat', self.tag, None, args, None, [r for a in args for r in a.rows])

    class Split(payload.CVFoldable):
        """The real CVFoldable (train/apply) over provenance payloads."""

        @classmethod
        def split(cls, features, indices):
            out = []
            for j, fold in enumerate(indices):
                a, b = fold
                out.append(P('part', fold.tag, fold.origin, (features,), 2 * j, [features.rows[p] for p in a]))
                out.append(P('part', fold.tag, fold.origin, (features,), 2 * j + 1, [features.rows[p] for p in b]))
            return tuple(out)

        def get_state(self):
            return dict(self.__dict__)

        def set_state(self, state):
            self.__dict__.update(state)

    class Source(flow.Actor):
        def __init__(self, col: int, size: int):
            self.col, self.size = col, size

        def apply(self):
            return P('input', self.col, None, (), None, [((self.col, r), frozenset()) for r in range(self.size)])

    class Labels(flow.Actor):
        def __init__(self, size: int):
            self.size = size

        def apply(self, raw):
            return (P('input', 1, None, (), None, [((1, r), frozenset()) for r in range(self.size)]),
                    P('input', 2, None, (), None, [((2, r), frozenset()) for r in range(self.size)]))

    assert Stateful.is_stateful() and not Sym.is_stateful() and not Stack.is_stateful() and Split.is_stateful()
    _CACHE['lib'] = dict(Sym=Sym, Stateful=Stateful, Stack=Stack, Split=Split, Source=Source, Labels=Labels)
    return _CACHE['lib']


def _fn(tag: int, vertical: bool = False):
    """Plain function flavour of a merger / metric (wrapped by forml into payload.Apply)."""
    if vertical:
        def stack(*args):
            return P('concat', tag, None, args, None, [r for a in args for r in a.rows])
        return stack

    def merge(*args):
        return P('apply', tag, None, args, None, hzip(frozenset(), [a.rows for a in args]))
    return merge


def source(n: int, m: int):
    from forml.io._input import extract

    L = lib()
    return extract.Operator(L['Source'].builder(0, m), L['Source'].builder(-1, n), L['Labels'].builder(n))


# --------------------------------------------------------------------------------------------------
# AST -> real operators.   expr ::= pipegen's wrap / mapreduce / seq
#                                 | ['stack', [expr...], nsplits, splitter, appender, stacker, reducer]
#                                 | ['score', nsplits, splitter, metric, reducer]        nsplits = 1: HoldOut
# --------------------------------------------------------------------------------------------------
def _wrap_operator(lab, app, trn):
    from forml.pipeline import wrap

    L = lib()
    groups: dict = {}
    for name, a in (('label', lab), ('apply', app), ('train', trn)):
        if a != NONE:
            groups.setdefault((int(a[0]), bool(a[1])), []).append(name)
    cls = None
    for (tag, stateful), names in groups.items():
        actor = L['Stateful'] if stateful else L['Sym']
        if names == ['apply', 'train']:
            cls = (cls or wrap.Operator).mapper(actor, tag=tag)
        else:
            assert len(names) == 1, 'builders shared between the label and another slot are not in this language'
            cls = getattr(cls or wrap.Operator, names[0])(actor, tag=tag)
    return cls


def build(ast, dec: dict, flavour: int):
    """Fresh real composable. `dec[tag] = (c, decision)` configures the splitter doubles; `flavour` picks the
    constructor variants (cross-validator + splitter class vs builder + nsplits; mergers as functions vs builders)."""
    from forml import evaluation
    from forml.pipeline import ensemble, payload

    L = lib()
    kind = ast[0]
    if kind == 'wrap':
        return _wrap_operator(ast[1], ast[2], ast[3])()
    if kind == 'mapreduce':
        return payload.MapReduce(*((L['Stateful'] if a[1] else L['Sym']).builder(tag=int(a[0])) for a in ast[1]),
                                 reducer=L['Sym'].builder(tag=int(ast[2])))
    if kind == 'seq':
        return build(ast[1], dec, flavour) >> build(ast[2], dec, flavour)
    if kind == 'stack':
        _, bases, nsplits, sp, appender, stacker, reducer = ast
        c, decision = dec[sp]
        assert c == nsplits
        cv = CV(sp, c, decision)
        split = dict(crossvalidator=cv, splitter=L['Split']) if flavour & 1 else \
            dict(splitter=L['Split'].builder(crossvalidator=cv), nsplits=nsplits)
        mergers = dict(appender=_fn(appender), stacker=_fn(stacker, True), reducer=_fn(reducer)) if flavour & 2 else \
            dict(appender=L['Sym'].builder(tag=appender), stacker=L['Stack'].builder(tag=stacker), reducer=L['Sym'].builder(tag=reducer))
        return ensemble.FullStack(*(build(b, dec, flavour) for b in bases), **split, **mergers)
    if kind == 'score':
        _, nsplits, sp, metric, reducer = ast
        c, decision = dec[sp]
        cv = CV(sp, c, decision)
        if nsplits == 1:
            method = evaluation.HoldOut(crossvalidator=cv, splitter=L['Split']) if flavour & 1 else \
                evaluation.HoldOut(splitter=L['Split'].builder(crossvalidator=cv))
        else:
            assert c == nsplits
            method = evaluation.CrossVal(crossvalidator=cv, splitter=L['Split']) if flavour & 1 else \
                evaluation.CrossVal(splitter=L['Split'].builder(crossvalidator=cv), nsplits=nsplits)
        return evaluation.TrainTestScore(evaluation.Function(_fn(metric), _fn(reducer)), method)
    raise ValueError(f'unknown expression kind {kind!r}')


# --------------------------------------------------------------------------------------------------
# running the real composition
# --------------------------------------------------------------------------------------------------
def run(case: dict, apply_mode: bool):
    """-> (train output P, apply output P | None, [(tag, state)] of the trained workers)."""
    from forml import flow

    comp = flow.Composition(source(case['N'], case['M']), build(case['expr'], {t: (c, d) for t, c, d in case['dec']}, case.get('flavour', 0)))
    train_nodes = pg.segment_workers(comp.train)
    ctrain = pg.compile_segment(comp.train, None)
    tvals = pg.interpret(ctrain.symbols)
    train_out = pg.tail_value(comp.train, ctrain, tvals)
    states, by_gid = [], {}
    for node in train_nodes:
        if node.trained:
            st = tvals[ctrain.index[node.uid]]
            states.append((node_tag(node), st))
            by_gid[node.gid] = st
    apply_out = None
    if apply_mode:
        persistent = list(comp.persistent)
        missing = [g for g in persistent if g not in by_gid]
        if missing:
            raise RuntimeError(f'{len(missing)} persistent actors were not trained by the train run')
        capply = pg.compile_segment(comp.apply, pg.Assets({g: by_gid[g] for g in persistent}, persistent))
        avals = pg.interpret(capply.symbols)
        apply_out = pg.tail_value(comp.apply, capply, avals)
    return train_out, apply_out, states


def node_tag(node) -> int:
    """Builder tag of a worker: symbolic actors carry `tag`, the fold splitter the tag of its cross-validator double."""
    kwargs = node.builder.kwargs
    if 'tag' in kwargs:
        return int(kwargs['tag'])
    cv = kwargs.get('crossvalidator')
    return int(getattr(cv, 'tag', 0))


def canon_rows(rows) -> list:
    return [[key[0], key[1], [list(a) for a in sorted(deps)]] for key, deps in rows]


def _top(ast):
    """The top-level `>>` chain (however parenthesised) as a flat list of operators."""
    if ast[0] != 'seq':
        return [ast]
    return _top(ast[1]) + _top(ast[2])


def splitter_tags(ast) -> list:
    """[(tag, nsplits, kind)] of every splitter in the expression."""
    k = ast[0]
    if k == 'seq':
        return splitter_tags(ast[1]) + splitter_tags(ast[2])
    if k == 'stack':
        return [(ast[3], ast[2], 'stack')] + [t for b in ast[1] for t in splitter_tags(b)]
    if k == 'score':
        return [(ast[2], ast[1], 'score')]
    return []


def impl(case: dict) -> dict:
    """Worker-side: run the real code, evaluate the oracle on its provenance, return plain data.  An exception
    that passed through forml code is the implementation's behaviour; anything else is a harness defect."""
    import traceback

    try:
        return _impl(case)
    except Exception as err:  # pylint: disable=broad-except
        frames = traceback.extract_tb(err.__traceback__)
        if any('/forml/' in f.filename for f in frames):
            raise
        return {'harness_error': f'{type(err).__name__}: {err}', 'trace': ''.join(traceback.format_tb(err.__traceback__))[-1500:]}


def _impl(case: dict) -> dict:
    kind = case['kind']
    out: dict = {'queries': [], 'answers': [], 'violations': []}
    train_out, apply_out, states = run(case, apply_mode=kind == 'stack')
    size = train_out.size() + (apply_out.size() if apply_out is not None else 0)
    out['size'] = size
    if size > SIZE_LIMIT:
        out['oversize'] = True
        return out
    out['train'] = sexp.dumps(train_out.term())
    out['apply'] = sexp.dumps(apply_out.term()) if apply_out is not None else None

    def query(p):
        """rows of a sub-term: real value now, the model's interpretation is asked for later"""
        out['queries'].append(sexp.dumps(p.term()))
        out['answers'].append(canon_rows(p.rows))

    if kind == 'eval':
        score = _top(case['expr'])[-1]
        metrics = oracle_eval(case, score, train_out, states, out['violations'])
        for m in metrics[:6]:
            if m.kind == 'apply' and len(m.args) == 2:
                query(m.args[0])
                query(m.args[1])
    else:
        final = next((st for tag, st in states if tag == FINAL), None)
        oracle_stack(case, final, apply_out, states, out['violations'])
        if final is not None:
            query(final.args[0])
            query(final.args[1])
        query(apply_out)
    return out


# --------------------------------------------------------------------------------------------------
# the oracle: the property on the recorded provenance (written from the property text, no model involved)
# --------------------------------------------------------------------------------------------------
def _decision_of(case, tag):
    for t, c, d in case['dec']:
        if t == tag:
            return c, d
    raise KeyError(tag)


def _fold_checks(case, sp, xrows, lrows, i):
    """What the property demands of fold `i` of splitter `sp` trained on rows `xrows` / `lrows`:
    (held-out feature keys, held-out label rows, per held-out position the allowed dependencies)."""
    c, decision = _decision_of(case, sp)
    tr, te = decide(decision, c, len(xrows))[i]
    trained = frozenset().union(*[{xrows[p][0], lrows[p][0]} | xrows[p][1] | lrows[p][1] for p in tr]) if tr else frozenset()
    return [xrows[p][0] for p in te], [lrows[p] for p in te], [xrows[p][1] | trained for p in te]


def _match_folds(n, ok) -> typing.Optional[tuple]:
    """A one-to-one assignment block j -> fold i with ok(j, i), identity preferred."""
    for perm in itertools.permutations(range(n)):
        if all(ok(j, perm[j]) for j in range(n)):
            return perm
    return None


def _splitter_input(states, sp):
    """(feature rows, label rows) the one top-level instance of splitter `sp` was trained on, or None."""
    top = [st for tag, st in states if tag == sp and isinstance(st, dict)]
    if len(top) != 1 or not top[0].get('_indices'):
        return None
    origin = top[0]['_indices'][0].origin
    return list(origin.args[0].rows), list(origin.args[1].rows)


def oracle_eval(case, score, out, states, violations) -> list:
    """`... >> TrainTestScore`: every fold scored exactly once; true outcomes = the fold's held-out labels; the
    prediction describes the same held-out records and depends (beyond what the evaluated data depended on already)
    only on the fold's training part."""
    _, n, sp, metric, reducer = score
    inputs = _splitter_input(states, sp)
    if inputs is None:
        violations.append(('the evaluation did not train exactly one fold splitter', 'eval-splitter-count', {}))
        return []
    xrows, lrows = inputs
    if n >= 2:
        if not (out.kind == 'apply' and out.tag == reducer):
            violations.append(('the evaluation value is not the reduction of the per-fold metrics', 'eval-fold-count', {}))
            return []
        metrics = list(out.args)
    else:
        metrics = [out]
    if n == 1 and out.kind == 'apply' and out.tag == reducer:
        metrics = list(out.args)
    bad = [x for x in metrics if not (x.kind == 'apply' and x.tag == metric and len(x.args) == 2)]
    if bad or len(metrics) != n:
        violations.append((f'{len(metrics) - len(bad)} (true, prediction) partitions are scored for {n} fold(s)', 'eval-fold-count',
                           {'folds': n}))
        return metrics
    checks = [_fold_checks(case, sp, xrows, lrows, i) for i in range(n)]

    def clause(j, i):
        true, pred = metrics[j].args
        keys, labels, allowed = checks[i]
        if list(true.rows) != labels:
            return 'eval-true-outcomes', f'true outcomes of scored partition {j} are not the held-out labels of fold {i}'
        if [r[0] for r in pred.rows] != keys:
            return 'eval-pred-records', f'predictions of scored partition {j} do not describe the held-out records of fold {i}'
        for (key, deps), okdeps in zip(pred.rows, allowed):
            if not deps <= okdeps:
                leak = sorted(deps - okdeps)
                own = any(a[1] == key[1] for a in leak)
                return 'eval-leak', (f'prediction for record {key[1]} scored in fold {i} depends on records outside the training part '
                                     f'of that fold: {leak[:4]}' + (' (including the record itself)' if own else ''))
        return None

    if _match_folds(n, lambda j, i: clause(j, i) is None) is None:
        first = next(c for c in (clause(j, j) for j in range(n)) if c is not None)
        violations.append((first[1], first[0], {'folds': n}))
    return metrics


def oracle_stack(case, final, apply_out, states, violations) -> None:
    """`[pre >>] FullStack(bases) >> final`: the final model's training set is, block by block, the bases'
    predictions for the held-out records of each fold (exactly once), each depending only on that fold's training
    part, paired with those records' labels; in apply mode all fold models of each base are combined on the input."""
    spine = _top(case['expr'])
    stack = next(op for op in spine if op[0] == 'stack')
    _, bases, n, sp, appender, stacker, reducer = stack
    if final is None:
        violations.append(('the model following the ensemble was not trained', 'stack-final-untrained', {}))
        return
    x, y = final.args
    inputs = _splitter_input(states, sp)
    if inputs is None:
        violations.append(('the ensemble did not train exactly one fold splitter', 'stack-splitter-count', {}))
        return
    xrows, lrows = inputs
    checks = [_fold_checks(case, sp, xrows, lrows, i) for i in range(n)]
    total = sum(len(c[0]) for c in checks)
    if len(x.rows) != total or len(y.rows) != total:
        violations.append((f'stacked train set has {len(x.rows)} rows and {len(y.rows)} labels, the folds hold out {total} records',
                           'stack-fold-count', {'folds': n}))
        return

    def blocks_for(perm):
        pos = 0
        for j in range(n):
            ln = len(checks[perm[j]][0])
            yield j, perm[j], pos, pos + ln
            pos += ln

    def clause(perm):
        for j, i, a, b in blocks_for(perm):
            keys, labels, allowed = checks[i]
            if [r[0] for r in x.rows[a:b]] != keys:
                return 'stack-pred-records', f'block {j} of the stacked train set does not describe the held-out records of fold {i}'
            if [(lk, ld) for lk, ld in y.rows[a:b]] != [(lk, ld) for lk, ld in labels]:
                return 'stack-labels', f'block {j} of the stacked labels is not the held-out labels of fold {i}'
            for (key, deps), okdeps in zip(x.rows[a:b], allowed):
                if not deps <= okdeps:
                    leak = sorted(deps - okdeps)
                    own = any(a_[1] == key[1] for a_ in leak)
                    return 'stack-leak', (f'stacked prediction for record {key[1]} (fold {i}) depends on records outside the training '
                                          f'part of that fold: {leak[:4]}' + (' (including the record itself)' if own else ''))
        return None

    if all(clause(perm) is not None for perm in itertools.permutations(range(n))):
        first = clause(tuple(range(n)))
        violations.append((first[1], first[0], {'folds': n, 'bases': len(bases)}))
    # apply mode: same input, all fold models of every base
    m = case['M']
    if [r[0] for r in apply_out.rows] != [(0, r) for r in range(m)]:
        violations.append(('the apply-mode output does not describe the input records', 'stack-apply-input', {}))
    trained: dict = {}
    for tag, st in states:
        if isinstance(st, P):
            trained.setdefault(tag, []).append(sexp.dumps(st.term()))
    used: dict = {}
    memo: set = set()
    todo = [apply_out]
    while todo:
        p = todo.pop()
        if id(p) in memo:
            continue
        memo.add(id(p))
        if p.kind == 'apply' and p.state is not None:
            used.setdefault(p.tag, set()).add(sexp.dumps(p.state.term()))
        todo.extend(p.args)  # states are not descended into: only the models the apply path runs through
    for b in bases:
        if splitter_tags(b):
            continue  # a base that is itself an ensemble multiplies its instances; covered by the correspondence
        for tag in apply_path_stateful_tags(b):
            want = trained.get(tag, [])
            got = used.get(tag, set())
            if len(want) != n or len(set(want)) != n or set(want) != got:
                violations.append((f'apply mode combines {len(got & set(want))} of the {len(want)} fold models of base actor {tag} '
                                   f'({n} folds)', 'stack-apply-fold-models', {'folds': n}))
                return


def stateful_tags(ast) -> list:
    k = ast[0]
    if k == 'seq':
        return stateful_tags(ast[1]) + stateful_tags(ast[2])
    if k == 'wrap':
        return sorted({int(s[0]) for s in ast[1:4] if s != NONE and s[1]})
    if k == 'mapreduce':
        return [int(a[0]) for a in ast[1] if a[1]]
    if k == 'stack':
        return [t for b in ast[1] for t in stateful_tags(b)]
    return []


def apply_path_stateful_tags(ast) -> list:
    """Stateful actors a base runs its apply-mode input through."""
    k = ast[0]
    if k == 'seq':
        return apply_path_stateful_tags(ast[1]) + apply_path_stateful_tags(ast[2])
    if k == 'wrap':
        return [int(ast[2][0])] if ast[2] != NONE and ast[2][1] else []
    if k == 'mapreduce':
        return [int(a[0]) for a in ast[1] if a[1]]
    return []


# --------------------------------------------------------------------------------------------------
# generation
# --------------------------------------------------------------------------------------------------
LEAF_TEMPLATES = ['mapper', 'mapper', 'mapper', 'apply', 'train', 'label', 'label+mapper', 'label+mapper', 'label+apply',
                  'label+train', 'apply+train', 'label+apply+train']
FINAL_OP = ['wrap', NONE, [FINAL, True], [FINAL, True]]


def retag(ast, counter):
    """Copy with tags renumbered from `counter` (FINAL kept); builders shared inside one wrap operator stay shared."""
    k = ast[0]
    if k == 'seq':
        left = retag(ast[1], counter)
        return ['seq', left, retag(ast[2], counter)]
    if k == 'wrap':
        m: dict = {}
        out = ['wrap']
        for slot in ast[1:4]:
            if slot == NONE:
                out.append(NONE)
            elif slot[0] == FINAL:
                out.append([FINAL, True])
            else:
                if slot[0] not in m:
                    m[slot[0]] = next(counter)
                out.append([m[slot[0]], bool(slot[1])])
        return out
    if k == 'mapreduce':
        ms = [[next(counter), bool(a[1])] for a in ast[1]]
        return ['mapreduce', ms, next(counter)]
    if k == 'stack':
        tags = [next(counter) for _ in range(4)]
        return ['stack', [retag(b, counter) for b in ast[1]], int(ast[2])] + tags
    if k == 'score':
        return ['score', int(ast[1])] + [next(counter) for _ in range(3)]
    raise ValueError(k)


def shape(ast) -> str:
    k = ast[0]
    if k == 'seq':
        return f'({shape(ast[1])}>{shape(ast[2])})'
    if k == 'stack':
        return f'stk{ast[2]}[' + ','.join(shape(b) for b in ast[1]) + ']'
    if k == 'score':
        return f'score{ast[1]}'
    if k == 'wrap' and ast[2] != NONE and ast[2][0] == FINAL:
        return 'final'
    return pg.shape(ast)


def leaves(ast) -> int:
    k = ast[0]
    if k == 'seq':
        return leaves(ast[1]) + leaves(ast[2])
    if k == 'stack':
        return 1 + sum(leaves(b) for b in ast[1])
    return 1


class Gen:
    def __init__(self, rng):
        self.rng = rng

    def leaf(self):
        rng = self.rng
        if rng.random() < 0.15:
            return ['mapreduce', [[0, rng.random() < 0.65] for _ in range(rng.choice([1, 2, 2, 3]))], 0]
        t = rng.choice(LEAF_TEMPLATES)
        n = len({c for c in pg.WRAP_TEMPLATES[t] if c != '-'})
        return pg.wrap_leaf(t, [rng.random() < 0.7 for _ in range(n)])

    def tree(self, items: list):
        """Random parenthesisation of an operator sequence."""
        if len(items) == 1:
            return items[0]
        k = self.rng.randint(1, len(items) - 1)
        return ['seq', self.tree(items[:k]), self.tree(items[k:])]

    def pipe(self, n: int):
        return self.tree([self.leaf() for _ in range(n)])

    def stack(self, nested: bool = False):
        rng = self.rng
        nb = rng.choice([1, 1, 2, 2, 3])
        bases = []
        for _ in range(nb):
            if nested and rng.random() < 0.5:
                bases.append(self.tree([self.stack(False)] + ([self.leaf()] if rng.random() < 0.5 else [])))
            else:
                bases.append(self.pipe(rng.choice([1, 1, 2])))
        return ['stack', bases, rng.choice([2, 2, 3, 3, 4, 5]) if not nested else 2, 0, 0, 0, 0]

    def decision(self, c: int, n: int):
        rng = self.rng
        if rng.random() < 0.65:
            return ['kfold', rng.randrange(c)]
        return ['table', [[[rng.randrange(2 * n) for _ in range(rng.randint(0, n))],
                           [rng.randrange(2 * n) for _ in range(rng.randint(0, 3))]] for _ in range(c)]]

    def finish(self, kind: str, expr, n: typing.Optional[int] = None, partition: bool = False) -> dict:
        rng = self.rng
        expr = retag(expr, itertools.count(1))
        n = n or rng.randint(3, 8)
        dec = []
        for tag, nsplits, what in splitter_tags(expr):
            c = nsplits if nsplits >= 2 else rng.choice([2, 2, 3])
            dec.append([tag, c, ['kfold', rng.randrange(c)] if partition else self.decision(c, n)])
        return {'kind': kind, 'expr': expr, 'N': n, 'M': rng.randint(1, 3), 'dec': dec, 'flavour': rng.randrange(4)}

    def eval_case(self) -> dict:
        rng = self.rng
        items = [self.leaf() for _ in range(rng.choice([1, 1, 2, 2, 3, 4]))]
        if rng.random() < 0.2:
            items.insert(rng.randrange(len(items) + 1), self.stack())
            items = items[:3]
        pipe = self.tree(items)
        folds = rng.choice([1, 2, 2, 3, 3, 4, 5])
        return self.finish('eval', ['seq', pipe, ['score', folds, 0, 0, 0]])

    def stack_case(self) -> dict:
        rng = self.rng
        pre = [self.leaf() for _ in range(rng.choice([0, 0, 1, 1, 2]))]
        return self.finish('stack', self.tree(pre + [self.stack(nested=rng.random() < 0.12), FINAL_OP]))


CORPUS = [
    # the documentation's shapes: a mapper evaluated by 3-fold cross-validation and by hold-out; label transformer in scope
    ('eval', ['seq', ['wrap', NONE, [1, True], [1, True]], ['score', 3, 0, 0, 0]], 6),
    ('eval', ['seq', ['wrap', NONE, [1, True], [1, True]], ['score', 1, 0, 0, 0]], 5),
    ('eval', ['seq', ['seq', ['wrap', NONE, [1, True], [1, True]], ['wrap', [2, True], NONE, NONE]],
              ['seq', ['wrap', NONE, [3, True], [3, True]], ['score', 2, 0, 0, 0]]], 6),   # score scoped over the last mapper only
    ('eval', ['seq', ['seq', ['seq', ['wrap', NONE, [1, True], [1, True]], ['wrap', [2, True], NONE, NONE]],
                      ['wrap', NONE, [3, True], [3, True]]], ['score', 4, 0, 0, 0]], 8),
    ('eval', ['seq', ['mapreduce', [[1, True], [2, False]], 3], ['score', 2, 0, 0, 0]], 4),
    ('eval', ['seq', ['seq', ['stack', [['wrap', NONE, [1, True], [1, True]]], 2, 0, 0, 0, 0], ['wrap', NONE, [2, True], [2, True]]],
              ['score', 2, 0, 0, 0]], 6),
    # the FullStack docstring: pre >> FullStack(b1, b2) >> final
    ('stack', ['seq', ['seq', ['wrap', NONE, [1, True], [1, True]],
                       ['stack', [['wrap', NONE, [2, True], [2, True]], ['wrap', NONE, [3, True], [3, True]]], 2, 0, 0, 0, 0]], FINAL_OP], 6),
    ('stack', ['seq', ['stack', [['wrap', NONE, [2, True], [2, True]]], 3, 0, 0, 0, 0], FINAL_OP], 7),
    ('stack', ['seq', ['wrap', NONE, [1, True], [1, True]],
               ['seq', ['stack', [['seq', ['wrap', [4, True], NONE, NONE], ['wrap', NONE, [2, True], [2, True]]]], 2, 0, 0, 0, 0], FINAL_OP]], 5),
    ('stack', ['seq', ['seq', ['wrap', [1, True], [5, True], [5, True]],
                       ['stack', [['mapreduce', [[2, True], [3, True]], 4], ['wrap', NONE, [6, False], [7, True]]], 3, 0, 0, 0, 0]], FINAL_OP], 6),
]

# constructor argument checks: (class, kwargs description)
def _ctor_cases() -> list:
    out = []
    for cv in (None, 1, 2, 3):
        for builder in (False, True):
            for ns in (None, 1, 2, 4):
                out.append(('crossval', cv, builder, ns))
                for m in (0, 1, 2):
                    out.append(('ensembler', m, cv, builder, ns))
            for sized in (False, True):
                out.append(('holdout', sized, cv, builder))
    return out


def ctor_impl(spec) -> list:
    """Real constructors -> ['ok', ...] / ['error', class name]."""
    from forml import evaluation
    from forml.pipeline import ensemble, wrap

    L = lib()
    kind = spec[0]

    def splitter(builder):
        return L['Split'].builder(crossvalidator=CV(1, 2, ['kfold', 0])) if builder else L['Split']

    try:
        if kind == 'crossval':
            _, cv, builder, ns = spec
            kwargs = {'splitter': splitter(builder)}
            if cv is not None:
                kwargs['crossvalidator'] = CV(1, cv, ['kfold', 0])
            if ns is not None:
                kwargs['nsplits'] = ns
            m = evaluation.CrossVal(**kwargs)
            return ['ok', m._nsplits]  # pylint: disable=protected-access
        if kind == 'holdout':
            _, sized, cv, builder = spec
            kwargs = {'splitter': splitter(builder)}
            if cv is not None:
                kwargs['crossvalidator'] = CV(1, cv, ['kfold', 0])
            if sized:
                kwargs['test_size'] = 0.25
            m = evaluation.HoldOut(**kwargs)
            made = m._splitter.kwargs.get('crossvalidator')  # pylint: disable=protected-access
            c = 2 if builder else made.get_n_splits()
            return ['ok', m._nsplits, c]  # pylint: disable=protected-access
        _, nb, cv, builder, ns = spec
        kwargs = {'splitter': splitter(builder)}
        if cv is not None:
            kwargs['crossvalidator'] = CV(1, cv, ['kfold', 0])
        if ns is not None:
            kwargs['nsplits'] = ns
        bases = [wrap.Operator.mapper(L['Stateful'], tag=i + 1)() for i in range(nb)]
        e = ensemble.FullStack(*bases, **kwargs)
        return ['ok', e._nsplits]  # pylint: disable=protected-access
    except (TypeError, ValueError) as err:
        return ['error', type(err).__name__]


# --------------------------------------------------------------------------------------------------
# on data: the real PandasCVFolds, sklearn cross-validators, default constructors, pickled actor states
# --------------------------------------------------------------------------------------------------
def _sk_cv(spec):
    from sklearn import model_selection

    if spec[0] == 'KFold':
        return model_selection.KFold(n_splits=spec[1])
    if spec[0] == 'KFoldShuffle':
        return model_selection.KFold(n_splits=spec[1], shuffle=True, random_state=spec[2])
    if spec[0] == 'ShuffleSplit':
        return model_selection.ShuffleSplit(n_splits=spec[1], test_size=0.3, random_state=spec[2])
    if spec[0] == 'LeaveOneOut':
        return model_selection.LeaveOneOut()
    raise ValueError(spec)


def pandas_actor(cfg):
    """PandasCVFolds trained once, applied to features and to labels -> (record ids per port, indices the
    cross-validator decides, oracle findings)."""
    import pandas
    from forml.pipeline import payload

    ids = cfg['ids']
    cv = _sk_cv(cfg['cv'])
    features = pandas.DataFrame({'id': ids, 'x': [i * 2 for i in ids]})
    labels = pandas.Series(ids, name='y')
    actor = payload.PandasCVFolds(crossvalidator=cv)
    actor.train(features, labels)
    real = [[int(i) for i in part['id']] for part in actor.apply(features)]
    lreal = [[int(i) for i in part] for part in actor.apply(labels)]
    indices = [[[int(p) for p in a], [int(p) for p in b]] for a, b in cv.split(features, labels)]
    # oracle: features and labels split by the same indices; ports 2i / 2i+1 = train / test positions of fold i
    want = [[ids[p] for p in part] for ab in indices for part in ab]
    found = []
    if real != lreal:
        found.append(('features and labels of one trained splitter are split into different records', 'sync-features-labels'))
    elif real != want:
        found.append(('fold parts are not the records at the decided train/test positions', 'sync-positions'))
    return real, indices, found


def pandas_eval(cfg) -> list:
    """A memorising model evaluated by the real TrainTestScore over CrossVal / HoldOut built by their default
    constructors (sklearn cross-validator, PandasCVFolds, pickled states): oracle findings."""
    import pandas
    from forml import evaluation, flow
    from forml.io._input import extract
    from forml.pipeline import wrap
    from sklearn import model_selection

    class Frame(flow.Actor):
        def __init__(self, ids):
            self.ids = ids

        def apply(self):
            return pandas.DataFrame({'id': list(self.ids)})

    class Label(flow.Actor):
        def apply(self, frame):
            return frame[['id']], frame['id'].rename('label')

    class Memo(flow.Actor):
        """Remembers the record ids (features and labels) it was trained on; predictions carry them."""

        def __init__(self):
            self.seen, self.seen_labels = (), ()

        def train(self, features, labels, /):
            self.seen, self.seen_labels = tuple(int(i) for i in features['id']), tuple(int(i) for i in labels)

        def apply(self, features):
            return pandas.DataFrame({'id': features['id'].values, 'seen': [self.seen] * len(features),
                                     'seen_labels': [self.seen_labels] * len(features)})

        def get_params(self):
            return {}

        def set_params(self, **params):
            pass

    ids, style, seed, k = cfg['ids'], cfg['style'], cfg['seed'], cfg['k']
    size = cfg['size'] / 100 if cfg['size'] < 100 else cfg['size'] // 100
    if style == 'kfold':
        cv = model_selection.KFold(n_splits=k)
        method, folds = evaluation.CrossVal(crossvalidator=cv), k
    elif style == 'kfold-shuffle':
        cv = model_selection.KFold(n_splits=k, shuffle=True, random_state=seed)
        method, folds = evaluation.CrossVal(crossvalidator=cv), k
    elif style == 'holdout':
        cv = model_selection.ShuffleSplit(test_size=size, train_size=None, random_state=seed, n_splits=2)
        method, folds = evaluation.HoldOut(test_size=size, random_state=seed), 1
    else:
        cv = model_selection.ShuffleSplit(n_splits=3, test_size=0.3, random_state=seed)
        method, folds = evaluation.HoldOut(crossvalidator=cv), 1
    scored = []

    def metric(true, pred):
        scored.append(([int(i) for i in true], [int(i) for i in pred['id']],
                       [tuple(s) for s in pred['seen']], [tuple(s) for s in pred['seen_labels']]))
        return 0.0

    with pg.isolated():
        src = extract.Operator(Frame.builder(ids), Frame.builder(ids), Label.builder())
        comp = flow.Composition(src, wrap.Operator.mapper(Memo)() >> evaluation.TrainTestScore(evaluation.Function(metric), method))
        compiled = pg.compile_segment(comp.train, None)
        pg.interpret(compiled.symbols)
    frame = pandas.DataFrame({'id': ids})
    want = [([ids[p] for p in te], [ids[p] for p in tr]) for tr, te in list(cv.split(frame, frame['id']))[:folds]]
    if len(scored) != folds:
        return [(f'{len(scored)} (true, prediction) partitions are scored for {folds} fold(s) (pandas, {style})', 'eval-fold-count')]
    got = sorted(scored)
    expect = sorted((te, te, [tuple(tr)] * len(te), [tuple(tr)] * len(te)) for te, tr in want)
    if got == expect:
        return []
    if any(i in row for _, p, s, sl in got for i, row in zip(p, s)) or any(i in row for _, p, s, sl in got for i, row in zip(p, sl)):
        return [(f'a scored prediction comes from a model trained on its own record (pandas, {style})', 'eval-leak')]
    if [x[0] for x in got] != [x[0] for x in expect]:
        return [(f'true outcomes are not the held-out labels of the folds (pandas, {style})', 'eval-true-outcomes')]
    if [x[1] for x in got] != [x[1] for x in expect]:
        return [(f'predictions do not describe the held-out records of the folds (pandas, {style})', 'eval-pred-records')]
    return [(f'fold models are not trained on the training part of their fold (pandas, {style})', 'eval-leak')]


# --------------------------------------------------------------------------------------------------
# the check
# --------------------------------------------------------------------------------------------------
def env_of(case) -> list:
    return [case['N'], case['M'], case['dec']]


class C12(fw.Check):
    ID = 'C12'
    LEAN_MODULES = ['ForML.Props.C12']
    DRIVER = 'drv_c12'
    RULE = ('(a) evaluation: random pipelines of 1-4 operators (wrap mapper/apply/train/label operators and combinations, '
            'payload.MapReduce, occasionally a FullStack, stateful and stateless actors, random parenthesisation) >> '
            'TrainTestScore(Function(metric, reducer), CrossVal with 2-5 folds or HoldOut); (b) stacking: [0-2 operators >>] '
            'FullStack(1-3 bases of 1-2 operators, occasionally a nested FullStack; 2-5 folds) >> final model, every '
            'parenthesisation; each over 3-8 train records / 1-3 apply records, splitter decisions = rotated k-fold partitions '
            '(65%) or arbitrary index tables (overlapping, repeating, empty parts), both constructor flavours (cross-validator + '
            'splitter class / builder + nsplits) and both merger flavours (functions / builders); hand-picked corpus first; '
            'thorough adds every pipeline of <= 2 basic operators x 2-3 folds x 1-2 bases.  A case is distinct by (expression, '
            'sizes, decisions, flavour); non-trivial when a stateful actor is trained inside a fold.  Real composition compiled '
            'and interpreted (train segment; for stacking also the apply segment with the train run\'s states); compared with '
            'the Lean model on the train/apply provenance terms and on the provenance values (rows: record, dependency set) of '
            'every scored (true, prediction) pair resp. of the stacked train set, stacked labels and apply output; oracle on '
            'the recorded provenance: folds scored / stacked exactly once, held-out records and labels, dependencies within the '
            'fold\'s training part, apply mode runs through all fold models of each base.  (c) constructor argument checks of '
            'CrossVal / HoldOut / FullStack, all combinations; (d) PandasCVFolds and CVFoldable actor level (sync on data).')
    TRUSTED = [
        'symbolic payloads: the flow layer does not inspect payloads, so actors are uninterpreted symbols over provenance '
        'terms and the recorded rows (parametricity, DESIGN section 3)',
        'the harness\'s symbolic actors implement the row semantics the model interprets terms with (hzip / concat / select): '
        'tied by comparing the recorded rows with the model\'s `rows` of the same terms on every case',
        'reference interpreter of compiled symbol tables (props/pipegen.interpret); the apply run loads, by gid, the states the '
        'train run of the same composition produced (persistence is C04)',
    ]
    ASSUMPTIONS = [
        'pipelines are row-preserving on the apply path (true of the symbolic actor library: mappers and reducers are row-aligned)',
        'scopes: a pipeline is modelled by what an expanded trunk computes from its three inputs (C03 establishes that for the '
        'operator library; here it is re-checked on every case by comparing the complete provenance terms)',
        'cross-validators return positions within the data (out-of-range positions are not generated)',
    ]

    # ---- cases ---------------------------------------------------------------------------------
    def _cases(self) -> list:
        gen = Gen(self.rng)
        out = []
        for kind, expr, n in CORPUS:
            case = gen.finish(kind, expr, n, partition=True)
            out.append(case)
            out.append(dict(gen.finish(kind, expr, n), flavour=3 - case['flavour']))
        for _ in range(self.n(300, 3000)):
            out.append(gen.eval_case())
        for _ in range(self.n(300, 3000)):
            out.append(gen.stack_case())
        if not self.quick:
            basic = pg.wrap_leaves(['mapper', 'label', 'apply', 'train']) + [['mapreduce', [[0, True], [0, False]], 0]]
            for nl in (1, 2):
                for seq in itertools.product(basic, repeat=nl):
                    for tree in pg.parenthesisations(list(seq)):
                        for folds in (1, 2, 3):
                            out.append(gen.finish('eval', ['seq', tree, ['score', folds, 0, 0, 0]], 5, partition=folds != 3))
            for base in basic:
                for nb in (1, 2):
                    for folds in (2, 3):
                        for pre in ([], [basic[0]], [basic[2]]):
                            stack = ['stack', [base] * nb, folds, 0, 0, 0, 0]
                            for tree in pg.parenthesisations(pre + [stack, FINAL_OP]):
                                out.append(gen.finish('stack', tree, 5, partition=folds == 2))
        return out

    # ---- correspondence ------------------------------------------------------------------------
    def _evaluate(self, cases: list, account: bool = True) -> list:
        """Run real code (+ oracle) and model on the cases; returns per case True when nothing was reported."""
        reals = pg.run_batch(impl, cases, chunk=10)
        lines, spans = [], []
        for case, real in zip(cases, reals):
            start = len(lines)
            if isinstance(real, dict) and not real.get('oversize') and 'harness_error' not in real:
                lines.append(sexp.dumps(['denote', case['expr']]))
                env = sexp.dumps(env_of(case))
                lines.extend(f'(rows {env} {q})' for q in real['queries'])
            spans.append((start, len(lines)))
        answers = self.model(lines)
        verdicts = []
        oversize = 0
        for case, real, (a, b) in zip(cases, reals, spans):
            ok = True
            witness = {k: case[k] for k in ('kind', 'expr', 'N', 'M', 'dec', 'flavour')}
            if isinstance(real, tuple) and real and real[0] == 'exception':
                self.violate(f'composing / running {shape(case["expr"])} raised {real[1]}: {real[2]}', witness, f'exception-{real[1]}')
                verdicts.append(False)
                continue
            if 'harness_error' in real:
                raise fw.MachineryError(f'harness defect on {sexp.dumps(case["expr"])}: {real["harness_error"]}\n{real["trace"]}')
            if real.get('oversize'):
                oversize += 1
                verdicts.append(True)
                continue
            if account:
                sts = bool(stateful_tags(case['expr']))
                tbl = any(d[2][0] == 'table' for d in case['dec'])
                folds = ','.join(str(t[1]) for t in splitter_tags(case['expr']))
                self.case(sexp.dumps([case['expr'], case['N'], case['M'], case['dec'], case['flavour']]),
                          f'{case["kind"]} leaves={min(leaves(case["expr"]), 7)} folds={folds} {"table" if tbl else "kfold"}',
                          nontrivial=sts, sample={'expr': shape(case['expr']), 'N': case['N'], 'dec': case['dec'][:1]})
            for what, sig, detail in real['violations']:
                self.violate(f'{what} [{shape(case["expr"])}]', witness, sig, detail)
                ok = False
            m = sexp.loads(answers[a])
            if not isinstance(m, list) or m[0] != 'ok':
                self.diverge('model rejects the expression', witness, 'ok', m)
                verdicts.append(False)
                continue
            mtrain, mapply = sexp.dumps(m[2]), sexp.dumps(m[1])
            if real['train'] != mtrain:
                self.diverge('train-mode provenance term (what is scored / stacked)', witness, real['train'][:700], mtrain[:700])
                ok = False
            if real['apply'] is not None and real['apply'] != mapply:
                self.diverge('apply-mode provenance term of the ensemble', witness, real['apply'][:700], mapply[:700])
                ok = False
            for q, want, ans in zip(real['queries'], real['answers'], answers[a + 1:b]):
                got = sexp.num(sexp.loads(ans))
                got = got[1] if isinstance(got, list) and got and got[0] == 'ok' else got
                if got != want:
                    self.diverge('provenance value (rows) of a scored / stacked term', witness, str(want)[:500], str(got)[:500])
                    ok = False
                    break
            verdicts.append(ok)
        if oversize:
            self.notes.append(f'{oversize} generated cases skipped: provenance terms above {SIZE_LIMIT} nodes')
        return verdicts

    def _constructors(self):
        cases = _ctor_cases()
        lines = []
        for spec in cases:
            if spec[0] == 'crossval':
                lines.append(sexp.dumps(['init', 'crossval', spec[1], spec[2], spec[3]]))
            elif spec[0] == 'holdout':
                lines.append(sexp.dumps(['init', 'holdout', spec[1], spec[2], spec[3]]))
            else:
                lines.append(sexp.dumps(['init', 'ensembler', spec[1], spec[2], spec[3], spec[4]]))
        answers = self.model(lines)
        for spec, ans in zip(cases, answers):
            with pg.isolated():
                real = ctor_impl(spec)
            m = sexp.num(sexp.loads(ans))
            self.case(('ctor',) + tuple(spec), f'constructor {spec[0]} -> {real[0]}', nontrivial=False)
            if m != real:
                self.diverge('constructor argument check', {'ctor': list(spec)}, real, m)
            if real[0] == 'ok':
                # the property's frame: an evaluation wires >= 2 folds (hold-out: exactly one of a >= 2-split), an ensemble too
                if (spec[0] == 'holdout' and (real[1] != 1 or real[2] < 2)) or (spec[0] != 'holdout' and real[1] < 2):
                    self.violate(f'{spec[0]} constructed with a degenerate fold count {real[1:]}', {'ctor': list(spec)}, 'ctor-fold-count')

    def correspondence(self):
        pg.quiet()
        self._evaluate(self._cases())
        self._constructors()
        self._actor_level()
        self._pandas_evaluation()
        if not self.quick:
            self._planted()
        bad = sexp.loads(self.model(['(denote (wrap none))', '(rows (1 1 ()) (part 1))'])[0])
        if bad != 'bad-op':
            self.diverge('driver must reject what it cannot parse', '(denote (wrap none))', None, bad)
        self._minimise()

    # ---- actor level: the real CVFoldable / PandasCVFolds on data -----------------------------------
    def _actor_level(self):
        L = lib()
        lines, checks = [], []
        # a splitter that was never trained refuses to split (any exception; the model: notTrained)
        actor = L['Split'](crossvalidator=CV(1, 2, ['kfold', 0]))
        try:
            actor.apply(P('input', 1, None, (), None, [((1, 0), frozenset())]))
            real = ['ok']
        except Exception:  # pylint: disable=broad-except
            real = ['error', 'notTrained']
        lines.append(sexp.dumps(['cvfold', NONE, [0]]))
        checks.append(({'actor': 'untrained'}, real, None))
        rng = self.rng
        for _ in range(self.n(40, 400)):
            n = rng.randint(4, 12)
            k = rng.choice([2, 2, 3, 4])
            k = min(k, n // 2) if n // 2 >= 2 else 2
            cv = rng.choice([['KFold', k], ['KFoldShuffle', k, rng.randrange(1000)], ['ShuffleSplit', k, rng.randrange(1000)],
                             ['LeaveOneOut'] if n <= 6 else ['KFold', 2]])
            cfg = {'actor': 'pandas', 'ids': rng.sample(range(100, 200), n), 'cv': cv}
            real, indices, found = pandas_actor(cfg)
            lines.append(sexp.dumps(['cvfold', indices, cfg['ids']]))
            checks.append((cfg, ['ok', real], (indices, found)))
        answers = self.model(lines)
        for (cfg, real, extra), ans in zip(checks, answers):
            m = sexp.num(sexp.loads(ans))
            if cfg['actor'] == 'untrained':
                self.case(('untrained', str(real)), 'splitter not trained', nontrivial=False)
                if m != real:
                    self.diverge('CVFoldable.apply of a splitter that was never trained', cfg, real, m)
                continue
            indices, found = extra
            self.case(('pandas', tuple(cfg['ids']), str(cfg['cv'])), f'PandasCVFolds {cfg["cv"][0]} folds={len(indices)}', nontrivial=True)
            if m != real:
                self.diverge('PandasCVFolds parts (record ids per port)', cfg, real, m)
            for what, sig in found:
                self.violate(what, cfg, sig)

    # ---- the real thing on data: default constructors, sklearn splitters, PandasCVFolds, pickled states ---------
    def _pandas_evaluation(self):
        rng = self.rng
        for _ in range(self.n(12, 80)):
            style = rng.choice(['kfold', 'kfold-shuffle', 'holdout', 'holdout-cv'])
            cfg = {'actor': 'pandas-eval', 'ids': rng.sample(range(1000, 2000), rng.randint(6, 14)), 'style': style,
                   'seed': rng.randrange(10000), 'k': rng.choice([2, 3] if style == 'kfold' else [2, 3, 4]),
                   'size': rng.choice([25, 40, 200])}
            self.case(('pandas-eval', tuple(cfg['ids']), style, cfg['seed'], cfg['k'], cfg['size']), f'pandas evaluation {style}', nontrivial=True)
            for what, sig in pandas_eval(cfg):
                self.violate(what, cfg, sig)

    def _planted(self):
        """Self-test of the comparison: a deliberately wrong model line (one fold more) must differ from the real term."""
        gen = Gen(self.rng)
        case = gen.finish('eval', ['seq', ['wrap', NONE, [1, True], [1, True]], ['score', 2, 0, 0, 0]], 5, partition=True)
        with pg.isolated():
            real = impl(case)
        wrong = ['seq', case['expr'][1], ['score', 3] + case['expr'][2][2:]]
        m = sexp.loads(self.model([sexp.dumps(['denote', wrong])])[0])
        if sexp.dumps(m[2]) == real['train']:
            raise fw.MachineryError('planted divergence (one fold more in the model) was not detected by the comparison')
        self.notes.append('planted-divergence self-test: a model with one fold more is told apart')

    # ---- shrinking / search ---------------------------------------------------------------------
    @staticmethod
    def _sub_exprs(ast):
        """Smaller expressions of the same kind (the closing score / final operator and the ensemble are kept)."""
        k = ast[0]
        if k == 'seq':
            for side, other, mk in ((ast[1], ast[2], lambda s, o: ['seq', s, o]), (ast[2], ast[1], lambda s, o: ['seq', o, s])):
                if side[0] not in ('score', 'stack') and side != FINAL_OP and not (side[0] == 'seq' and C12._essential(side)):
                    yield other
                for s in C12._sub_exprs(side):
                    yield mk(s, other)
        elif k == 'stack':
            if len(ast[1]) > 1:
                for i in range(len(ast[1])):
                    yield ['stack', ast[1][:i] + ast[1][i + 1:]] + ast[2:]
            if ast[2] > 2:
                yield ['stack', ast[1], ast[2] - 1] + ast[3:]
            for i, b in enumerate(ast[1]):
                for s in C12._sub_exprs(b):
                    yield ['stack', ast[1][:i] + [s] + ast[1][i + 1:]] + ast[2:]
                if b[0] == 'seq':
                    yield ['stack', ast[1][:i] + [b[1]] + ast[1][i + 1:]] + ast[2:]
                    yield ['stack', ast[1][:i] + [b[2]] + ast[1][i + 1:]] + ast[2:]
        elif k == 'score':
            if ast[1] > 2:
                yield ['score', ast[1] - 1] + ast[2:]
        elif k == 'mapreduce':
            if len(ast[1]) > 1:
                for i in range(len(ast[1])):
                    yield ['mapreduce', ast[1][:i] + ast[1][i + 1:], ast[2]]
        elif k == 'wrap' and ast != FINAL_OP:
            filled = [i for i in (1, 2, 3) if ast[i] != NONE]
            if len(filled) > 1:
                for i in filled:
                    yield ast[:i] + [NONE] + ast[i + 1:]

    @staticmethod
    def _essential(ast) -> bool:
        k = ast[0]
        if k == 'seq':
            return C12._essential(ast[1]) or C12._essential(ast[2])
        return k in ('score', 'stack') or ast == FINAL_OP

    def _variants(self, case):
        for expr in self._sub_exprs(case['expr']):
            tags = {t: (n, w) for t, n, w in splitter_tags(expr)}
            dec = []
            for t, c, d in case['dec']:
                if t in tags:
                    c2 = tags[t][0] if tags[t][0] >= 2 else c
                    d2 = d if d[0] == 'kfold' else ['table', d[1][:c2]]
                    if d2[0] == 'kfold':
                        d2 = ['kfold', d2[1] % c2]
                    dec.append([t, c2, d2])
            yield dict(case, expr=expr, dec=dec)
        if case['N'] > 3:
            yield dict(case, N=case['N'] - 1)
        if case['M'] > 1:
            yield dict(case, M=1)
        for i, (t, c, d) in enumerate(case['dec']):
            if d[0] == 'table':
                yield dict(case, dec=case['dec'][:i] + [[t, c, ['kfold', 0]]] + case['dec'][i + 1:])
        if case.get('flavour'):
            yield dict(case, flavour=0)

    def _signatures(self, case) -> dict:
        """Oracle on the real code for one case, in-process: {signature: (what, detail)}."""
        with pg.isolated():
            try:
                real = impl(case)
            except Exception as err:  # pylint: disable=broad-except
                return {'exception-' + type(err).__name__: (f'composing / running raised {type(err).__name__}: {str(err)[:200]}', None)}
        if 'harness_error' in real:
            raise fw.MachineryError(f'harness defect on {sexp.dumps(case["expr"])}: {real["harness_error"]}')
        return {sig: (what, detail) for what, sig, detail in real.get('violations', [])}

    def _shrink(self, case, signature):
        cur = case
        steps = 0
        progress = True
        while progress and steps < 60:
            progress = False
            for cand in self._variants(cur):
                steps += 1
                if signature in self._signatures(cand):
                    cur, progress = cand, True
                    break
        return cur

    def _minimise(self):
        shrunk, done = [], set()
        for v in self.violations:
            if v.signature in done:
                continue
            done.add(v.signature)
            if isinstance(v.witness, dict) and 'expr' in v.witness:
                small = self._shrink(v.witness, v.signature)
                sigs = self._signatures(small)
                what, detail = sigs.get(v.signature, (v.what, v.detail))
                shrunk.append(fw.Violation(f'{what} [{shape(small["expr"])}]', {k: small[k] for k in ('kind', 'expr', 'N', 'M', 'dec', 'flavour')},
                                           v.signature, detail))
            else:
                shrunk.append(v)
        self.violations[:] = shrunk

    def search(self, reason):
        """Widen around the diverging cases (their smaller variants, partition decisions, other flavours), then a sweep
        over small pipelines; the oracle alone decides."""
        seeds = [d.case for d in self.divergences if isinstance(d.case, dict) and 'expr' in d.case][:12]
        tried, found = 0, {}
        for case in seeds:
            cands = [case] + list(itertools.islice(self._variants(case), 25))
            cands += [dict(case, dec=[[t, c, ['kfold', 0]] for t, c, _ in case['dec']], flavour=f) for f in range(4)]
            for cand in cands:
                tried += 1
                for sig, (what, detail) in self._signatures(cand).items():
                    found.setdefault(sig, (cand, what, detail))
                if found:
                    break
        if not found:
            gen = Gen(self.rng)
            basic = pg.wrap_leaves(['mapper', 'label']) + [['mapreduce', [[0, True], [0, False]], 0]]
            sweep = []
            for leaf in basic:
                for folds in (1, 2, 3):
                    sweep.append(gen.finish('eval', ['seq', leaf, ['score', folds, 0, 0, 0]], 5, partition=True))
                for nb in (1, 2):
                    sweep.append(gen.finish('stack', ['seq', ['stack', [leaf] * nb, 2, 0, 0, 0, 0], FINAL_OP], 5, partition=True))
                    sweep.append(gen.finish('stack', ['seq', ['seq', basic[0], ['stack', [leaf] * nb, 3, 0, 0, 0, 0]], FINAL_OP], 5, partition=True))
            for cand in sweep:
                tried += 1
                for sig, (what, detail) in self._signatures(cand).items():
                    found.setdefault(sig, (cand, what, detail))
        for sig, (cand, what, detail) in found.items():
            small = self._shrink(cand, sig)
            what2, detail2 = self._signatures(small).get(sig, (what, detail))
            self.violate(f'{what2} [{shape(small["expr"])}]', {k: small[k] for k in ('kind', 'expr', 'N', 'M', 'dec', 'flavour')}, sig, detail2)
        self.notes.append(f'failing-input search ({reason}): {tried} cases around {len(seeds)} diverging ones')

    def replay_finding(self, entry):
        w = entry['witness']
        if not isinstance(w, dict):
            return None
        pg.quiet()
        if w.get('actor') == 'pandas':
            for what, sig in pandas_actor(w)[2]:
                return fw.Violation(what, w, sig)
            return None
        if w.get('actor') == 'pandas-eval':
            for what, sig in pandas_eval(w):
                return fw.Violation(what, w, sig)
            return None
        if w.get('ctor'):
            with pg.isolated():
                real = ctor_impl(tuple(w['ctor']))
            if real[0] == 'ok' and ((w['ctor'][0] == 'holdout' and (real[1] != 1 or real[2] < 2)) or (w['ctor'][0] != 'holdout' and real[1] < 2)):
                return fw.Violation(f'{w["ctor"][0]} constructed with a degenerate fold count {real[1:]}', w, 'ctor-fold-count')
            return None
        if 'expr' not in w:
            return None
        for sig, (what, detail) in self._signatures(w).items():
            return fw.Violation(f'{what} [{shape(w["expr"])}]', w, sig, detail)
        return None


if __name__ == '__main__':
    raise SystemExit(fw.run(C12))
