"""C02 runtime half: everything that must be importable *by name* inside worker / dask-spawned processes.

This module imports forml at import time, so it is imported lazily (after `framework.run` has put $FORML_REPO on
`sys.path` and exported PYTHONPATH for sub-processes).

  * provenance terms (`Term`) with a structural digest (terms are DAGs; their tree form can be large),
  * symbolic actors that append one line per invocation to a record file (works across processes),
  * the fake generation behind the *real* `asset.State` (records loads / dumps / commits to the same file),
  * `materialise(spec, rec)`: a table spec -> real `flow.Symbol`s over real instruction objects,
  * the harness's own dependency-ordered interpreter (`reference`),
  * one function per back-end (`run_backend`) driving the real runner code.

Table spec (JSON-able; the same structure is sent to the Lean driver):

    {'syms': [[key, instr, [arg keys]], ...], 'assets': None | {'persistent': [gid...], 'prev': None | [0/1...]}}
    instr ::= ['functor', actor_tag, 'apply'|'train', n_setstate_presets] | ['getter', i] | ['loader', gid]
            | ['dumper'] | ['committer']
"""
from __future__ import annotations

import hashlib
import json
import os
import threading
import uuid

import forml
from forml import flow
from forml.io import asset

# --------------------------------------------------------------------------------------------------
# provenance terms
# --------------------------------------------------------------------------------------------------


class Term:
    """Provenance term (immutable, picklable, indexable so that `Getter` can split it)."""

    __slots__ = ('kind', 'items', '_digest', '_size', 'nonce')

    def __init__(self, kind, *items):
        self.kind = kind
        self.items = items
        self._digest = None
        self._size = None
        self.nonce = None  # which *execution* produced the term (never part of digest / equality)

    def __reduce__(self):
        return (_rebuild, (self.kind, tuple(self.items), self.nonce))

    def __len__(self):  # `State.dump` / `SetState.set` log `len(state)`
        return 1

    def __bool__(self):
        return True

    def __iter__(self):
        raise TypeError('term is not iterable')

    def __getitem__(self, index):
        if not isinstance(index, int):
            raise TypeError('term index')
        return Term('proj', index, self)

    def __eq__(self, other):
        return isinstance(other, Term) and digest(self) == digest(other)

    def __hash__(self):
        return hash(digest(self))

    def __repr__(self):
        return f'<{self.kind} {digest(self)[:8]}>'


def _rebuild(kind, items, nonce):
    t = Term(kind, *items)
    t.nonce = nonce
    return t


def stamp(term):
    """Mark the term as the product of one fresh execution (process-safe: a uuid)."""
    term.nonce = uuid.uuid4().hex
    return term


def origin(v):
    """[digest, nonce] of the execution a value stems from (looking through getters); None for inputs."""
    while isinstance(v, Term) and v.kind == 'proj':
        v = v.items[1]
    if isinstance(v, Term) and v.nonce is not None:
        return [digest(v), v.nonce]
    return None


def digest(v) -> str:
    """Merkle digest of a value in the `Val.toSexp` vocabulary (shared sub-terms are hashed once)."""
    if v is None:
        return 'none'
    if isinstance(v, Term):
        if v._digest is None:
            v._digest = hashlib.sha1(('T' + v.kind + '(' + ','.join(digest(i) for i in v.items) + ')').encode()).hexdigest()
        return v._digest
    if isinstance(v, bool):
        return 'b' + str(int(v))
    if isinstance(v, int):
        return 'i' + str(v)
    if isinstance(v, str):
        return 's' + v
    if isinstance(v, (tuple, list)):
        return hashlib.sha1(('L(' + ','.join(digest(i) for i in v) + ')').encode()).hexdigest()
    return 'opaque:' + type(v).__name__


def digest_canon(c) -> str:
    """The same digest computed from the canonical nested-list form (what the Lean driver prints)."""
    if c == 'none' or c is None:
        return 'none'
    if isinstance(c, int):
        return 'i' + str(c)
    if isinstance(c, str):
        return 's' + c
    kind = c[0]
    if kind in ('input', 'stored'):
        items = ['i' + str(int(c[1]))]
    elif kind == 'apply':
        items = ['i' + str(int(c[1])), digest_canon(c[2]), _dlist(c[3])]
    elif kind == 'state':
        items = ['i' + str(int(c[1])), digest_canon(c[2]), digest_canon(c[3]), digest_canon(c[4])]
    elif kind == 'proj':
        items = ['i' + str(int(c[1])), digest_canon(c[2])]
    elif kind == 'dumped':
        items = [digest_canon(c[1])]
    elif kind == 'committed':
        items = [_dlist(c[1])]
    elif kind == 'error':
        items = ['s' + str(c[1])]
    else:
        raise ValueError(f'not a canonical value: {c!r:.80}')
    return hashlib.sha1(('T' + kind + '(' + ','.join(items) + ')').encode()).hexdigest()


def _dlist(cs) -> str:
    return hashlib.sha1(('L(' + ','.join(digest_canon(i) for i in cs) + ')').encode()).hexdigest()


def size(v, limit=10 ** 9) -> int:
    if isinstance(v, Term):
        if v._size is None:
            v._size = 1 + sum(size(i) for i in v.items)
        return v._size
    if isinstance(v, (tuple, list)):
        return 1 + sum(size(i) for i in v)
    return 1


def canon(v):
    """Nested lists in the vocabulary of `Val.toSexp` (tree form: only call on small terms)."""
    if v is None:
        return 'none'
    if isinstance(v, Term):
        if v.kind in ('input', 'stored'):
            return [v.kind, v.items[0]]
        if v.kind == 'apply':
            return ['apply', v.items[0], canon(v.items[1]), [canon(a) for a in v.items[2]]]
        if v.kind == 'committed':
            return ['committed', [canon(a) for a in v.items[0]]]
        return [v.kind] + [canon(i) for i in v.items]
    if isinstance(v, bool):
        return 'true' if v else 'false'
    if isinstance(v, int):
        return v
    if isinstance(v, (tuple, list)):
        return [canon(i) for i in v]
    return ['opaque', type(v).__name__]


def show(v, limit=400):
    if size(v) > 4000:
        return f'<term of tree size {size(v)} digest {digest(v)[:10]}>'
    s = json.dumps(canon(v), separators=(',', ':'))
    return s if len(s) <= limit else s[:limit] + '...'


# --------------------------------------------------------------------------------------------------
# recording (append-only file; one JSON line per event; O_APPEND keeps concurrent writers apart)
# --------------------------------------------------------------------------------------------------
_LOCK = threading.Lock()


def record(path, event) -> None:
    if not path:
        return
    data = (json.dumps(event, separators=(',', ':')) + '\n').encode()
    with _LOCK:
        fd = os.open(path, os.O_WRONLY | os.O_APPEND | os.O_CREAT, 0o600)
        try:
            os.write(fd, data)
        finally:
            os.close(fd)


def read_records(path) -> list:
    if not path or not os.path.exists(path):
        return []
    with open(path) as f:
        return [json.loads(line) for line in f if line.strip()]


def _brief(v):
    return canon(v) if size(v) <= 300 else None


# --------------------------------------------------------------------------------------------------
# symbolic actors
# --------------------------------------------------------------------------------------------------


FAIL = {'tag': None}  # in-process failure injection: the next `apply` of the actor with this tag raises once


class Injected(Exception):
    """The injected actor failure."""


class Stateless(flow.Actor):
    """`apply(*args)` -> ('apply', tag, state, args); every invocation is recorded."""

    def __init__(self, tag, rec=None):
        self._tag = tag
        self._rec = rec
        self._state = None

    def apply(self, *args):
        if FAIL['tag'] is not None and FAIL['tag'] == self._tag:
            FAIL['tag'] = None
            raise Injected(f'actor {self._tag} fails once')
        res = stamp(Term('apply', self._tag, self._state, tuple(args)))
        record(self._rec, ['call', self._tag, 'apply', digest(res), _brief(res), res.nonce,
                           [o for o in map(origin, (self._state,) + tuple(args)) if o]])
        return res

    def get_params(self):
        return {}

    def set_params(self, **kwargs):
        pass


class Stateful(Stateless):
    def train(self, *args):
        # `Train.__call__` passes whatever the table links: arity errors are the interpreter's (not the actor's)
        if len(args) != 2:
            raise TypeError('train() takes features and labels')
        prev = self._state
        self._state = stamp(Term('state', self._tag, prev, args[0], args[1]))
        record(self._rec, ['call', self._tag, 'train', digest(self._state), _brief(self._state), self._state.nonce,
                           [o for o in map(origin, (prev, args[0], args[1])) if o]])

    def get_state(self):
        return self._state

    def set_state(self, state):
        self._state = state


assert Stateful.is_stateful() and not Stateless.is_stateful()

# --------------------------------------------------------------------------------------------------
# assets: the real asset.State over a recording fake generation
# --------------------------------------------------------------------------------------------------


class FakeTag:
    def __init__(self, states=()):
        self.states = tuple(states)

    def replace(self, **kw):
        return FakeTag(kw.get('states', self.states))


class FakeRelease:
    def __init__(self, rec, prev):
        self.rec = rec
        self.prev = prev

    def dump(self, state):
        res = stamp(Term('dumped', state))
        record(self.rec, ['dump', digest(state), _brief(state), res.nonce, [o for o in [origin(state)] if o], digest(res)])
        return res

    def put(self, tag):
        record(self.rec, ['commit', [digest(s) for s in tag.states], [_brief(s) for s in tag.states],
                          [o for o in map(origin, tag.states) if o]])
        return FakeGeneration(self.rec, self.prev)


class FakeGeneration:
    def __init__(self, rec, prev):
        self.rec = rec
        self.prev = prev
        self.release = FakeRelease(rec, prev)
        self.tag = FakeTag()

    def get(self, key):
        record(self.rec, ['load', key if isinstance(key, int) else str(key)])
        if self.prev is None or not isinstance(key, int) or key >= len(self.prev):
            raise forml.MissingError('no previous generation')
        return Term('stored', key) if self.prev[key] else None


_GIDS: dict = {}


def gid_of(g: int) -> uuid.UUID:
    """Deterministic group uuid of the spec-level gid."""
    if g not in _GIDS:
        _GIDS[g] = uuid.UUID(int=0xC02 << 64 | g)
    return _GIDS[g]


def make_assets(aspec, rec):
    if aspec is None:
        return None
    return asset.State(FakeGeneration(rec, aspec.get('prev')), [gid_of(g) for g in aspec['persistent']])


# --------------------------------------------------------------------------------------------------
# spec -> real symbols
# --------------------------------------------------------------------------------------------------


class Unbuildable(Exception):
    """The spec cannot be expressed with the real instruction classes (e.g. loader without assets)."""


def materialise(spec, rec):
    """Returns (symbols tuple, {key: instruction}, {actor tag: stateful?})."""
    assets = make_assets(spec.get('assets'), rec)
    stateful = {}
    for _, ins, _ in spec['syms']:
        if ins[0] == 'functor':
            stateful[ins[1]] = stateful.get(ins[1], False) or ins[2] == 'train' or ins[3] > 0
    for t, st in spec.get('stateful', {}).items():
        stateful[int(t)] = stateful.get(int(t), False) or bool(st)
    builders: dict = {}
    instr: dict = {}
    for key, ins, _ in spec['syms']:
        kind = ins[0]
        if kind == 'functor':
            _, tag, action, npre = ins
            if tag not in builders or spec.get('fresh_builders'):
                builders[tag] = (Stateful if stateful[tag] else Stateless).builder(tag=tag, rec=rec)
            f = flow.Functor(builders[tag], flow.Apply() if action == 'apply' else flow.Train())
            for _ in range(npre):
                f = f.preset_state()
            obj = f
        elif kind == 'getter':
            obj = flow.Getter(ins[1])
        elif kind == 'loader':
            if assets is None:
                raise Unbuildable('loader without assets')
            obj = flow.Loader(assets, gid_of(ins[1]))
        elif kind == 'dumper':
            if assets is None:
                raise Unbuildable('dumper without assets')
            obj = flow.Dumper(assets)
        elif kind == 'committer':
            if assets is None:
                raise Unbuildable('committer without assets')
            obj = flow.Committer(assets)
        else:
            raise Unbuildable(f'unknown instruction {ins!r}')
        if key in instr:
            raise Unbuildable('duplicate key')
        instr[key] = obj
    foreign: dict = {}

    def ref(k):
        if k in instr:
            return instr[k]
        if k not in foreign:  # an argument that is not a symbol of the table (malformed stream only)
            foreign[k] = flow.Functor(Stateless.builder(tag=10 ** 6 + k, rec=rec), flow.Apply())
        return foreign[k]

    symbols = tuple(flow.Symbol(instr[key], [ref(a) for a in args]) for key, _, args in spec['syms'])
    return symbols, instr, stateful


# --------------------------------------------------------------------------------------------------
# the harness's own interpreter on the real instruction objects (dependency ordered, memoised)
# --------------------------------------------------------------------------------------------------


class Cyclic(Exception):
    pass


def reference(symbols, head=None, x=None):
    """{id(instr): value}. When `head` is given that instruction receives `x` as an additional last argument
    (the single-function runner feeds the external input to the head)."""
    up = {id(s.instruction): s for s in symbols}
    memo: dict = {}
    onstack: set = set()

    def ev(instr):
        k = id(instr)
        if k in memo:
            return memo[k]
        if k in onstack:
            raise Cyclic()
        onstack.add(k)
        args = [ev(a) for a in up[k].arguments] if k in up else []
        if head is not None and instr is head:
            args.append(x)
        res = instr(*args)
        onstack.discard(k)
        memo[k] = res
        return res

    for s in symbols:
        ev(s.instruction)
    return memo


# --------------------------------------------------------------------------------------------------
# back-ends
# --------------------------------------------------------------------------------------------------
BACKENDS = ('ref', 'dask-synchronous', 'dask-threads', 'dask-processes', 'dask-processes-fresh', 'pyfunc-run', 'pyfunc-call',
            'pyfunc-recover')

_POOL = None


def _pool():
    """A re-used spawn-context process pool for the `processes` scheduler (dask accepts it via config `pool`)."""
    global _POOL  # pylint: disable=global-statement
    if _POOL is None:
        import concurrent.futures
        import multiprocessing

        _POOL = concurrent.futures.ProcessPoolExecutor(2, mp_context=multiprocessing.get_context('spawn'))
    return _POOL


def shutdown_pool():
    global _POOL  # pylint: disable=global-statement
    if _POOL is not None:
        _POOL.shutdown(wait=False, cancel_futures=True)
        _POOL = None


INPUT = ('input', 0)
INPUT2 = ('input', 1)


def run_backend(spec, backend, rec):
    """Drive one back-end on a freshly materialised table. Returns a JSON-able outcome:

        {'status': 'ok'|'rejected'|'crash'|'unbuildable', 'error': class name, 'stage': 'build'|'run',
         'result': [digest, brief] (pyfunc only), 'records': [...]}
    """
    import dask

    from forml.provider.runner import dask as daskrunner
    from forml.provider.runner import pyfunc

    if os.path.exists(rec):
        os.unlink(rec)
    out = {'backend': backend, 'status': 'ok'}
    try:
        symbols, instr, _ = materialise(spec, rec)
    except Unbuildable as e:
        return {'backend': backend, 'status': 'unbuildable', 'error': str(e), 'records': []}
    except forml.AssemblyError:
        return {'backend': backend, 'status': 'unbuildable', 'error': 'AssemblyError', 'records': []}
    try:
        if backend == 'ref':
            reference(symbols)
        elif backend.startswith('dask-'):
            sched = backend.split('-')[1]
            conf = dict(daskrunner.Runner.DEFAULTS, scheduler=sched)
            if backend == 'dask-processes':
                conf['pool'] = _pool()
            elif backend == 'dask-processes-fresh':
                conf['num_workers'] = 3
            with dask.config.set(conf):
                daskrunner.Runner.run(symbols)
        elif backend == 'pyfunc-run':
            out['stage'] = 'run'
            pyfunc.Runner.run(symbols)
        elif backend == 'pyfunc-call':
            out['stage'] = 'build'
            expr = pyfunc.Expression(symbols)
            out['stage'] = 'call'
            x = Term(*INPUT)
            res = expr(x)
            out['result'] = [digest(res), _brief(res)]
            out['stage'] = 'call2'  # the expression is re-used for every request (serving)
            res2 = expr(Term(*INPUT2))
            out['result2'] = [digest(res2), _brief(res2)]
            out['stage'] = 'done'
        elif backend == 'pyfunc-recover':
            # a request on which one actor fails, followed by an ordinary request on the same expression
            out['stage'] = 'build'
            expr = pyfunc.Expression(symbols)
            out['stage'] = 'failing-call'
            FAIL['tag'] = spec.get('fail')
            try:
                expr(Term(*INPUT))
                out['injected'] = False
            except Injected:
                out['injected'] = True
            finally:
                FAIL['tag'] = None
            out['stage'] = 'call-after-failure'
            res2 = expr(Term(*INPUT2))
            out['result2'] = [digest(res2), _brief(res2)]
            out['stage'] = 'done'
        else:
            raise ValueError(backend)
    except RecursionError:
        out.update(status='crash', error='RecursionError')
    except AssertionError as e:
        out.update(status='assert', error='AssertionError', message=str(e)[:80])
    except Exception as e:  # pylint: disable=broad-except
        out.update(status='crash', error=type(e).__name__, message=str(e)[:120])
    out['records'] = read_records(rec)
    return out
