"""C02 runtime half: everything that must be importable *by name* inside worker / dask-spawned processes.

This module imports forml at import time, so it is imported lazily (after `framework.run` has put $FORML_REPO on
`sys.path` and exported PYTHONPATH for sub-processes).

  * provenance terms (`Term`) with a structural digest (terms are DAGs; their tree form can be large),
  * symbolic actors that append one line per invocation to a record file (works across processes),
  * the fake generation behind the *real* `asset.State` (records loads / dumps / commits to the same file),
  * `materialise(spec, rec)`: a table spec -> real `flow.Symbol`s over real instruction objects,
  * the harness's own dependency-ordered interpreter (`reference`),
  * one function per back-end (`run_backend`) driving the real runner code.

Table spec (JSON-able; the same structure is sent to the Lean driver):

    {'syms': [[key, instr, [arg keys]], ...], 'assets': None | {'persistent': [gid...], 'prev': None | [0/1...]}}
    instr ::= ['functor', actor_tag, 'apply'|'train', n_setstate_presets] | ['getter', i] | ['loader', gid]
            | ['dumper'] | ['committer']
    optional: 'builders': {str(tag): {'cls': 'HyA'|'HyB'|'HyC', 'args': [hyper...], 'kw': {name: hyper}}} - the actors of
              that tag are built by `<cls>.builder(tag, rec, *args, **kw)` (hyper-parameters visible in every output and
              state); without an entry the tag is built by the parameterless `Stateless`/`Stateful`.
              'prev' entries: 0 no state | 1 truthy stored state | ['f', n] falsy stored payload number n >= 1000
              (1000: b'', 1001: 0, else a falsy provenance term)

Falsy yet distinguishable payloads (twin of `Val.truthy` in lean/ForML/Model/Symbols.lean): the outputs of an actor
whose tag has bit FALSY_BASE set and the states of an actor whose tag has bit 2*FALSY_BASE set are falsy provenance
terms; stored payloads numbered >= FALSY_BASE are falsy.
"""
from __future__ import annotations

import contextlib
import hashlib
import json
import os
import sys
import threading
import uuid

import forml
from forml import flow
from forml.io import asset

# --------------------------------------------------------------------------------------------------
# provenance terms
# --------------------------------------------------------------------------------------------------


class Term:
    """Provenance term (immutable, picklable, indexable so that `Getter` can split it)."""

    __slots__ = ('kind', 'items', '_digest', '_size', 'nonce')

    def __init__(self, kind, *items):
        self.kind = kind
        self.items = items
        self._digest = None
        self._size = None
        self.nonce = None  # which *execution* produced the term (never part of digest / equality)

    def __reduce__(self):
        return (_rebuild, (self.kind, tuple(self.items), self.nonce))

    def __len__(self):  # `State.dump` / `SetState.set` log `len(state)`
        return 1

    def __bool__(self):
        return not falsy_term(self.kind, self.items)

    def __iter__(self):
        raise TypeError('term is not iterable')

    def __getitem__(self, index):
        if not isinstance(index, int):
            raise TypeError('term index')
        return Term('proj', index, self)

    def __eq__(self, other):
        return isinstance(other, Term) and digest(self) == digest(other)

    def __hash__(self):
        return hash(digest(self))

    def __repr__(self):
        return f'<{self.kind} {digest(self)[:8]}>'


FALSY_BASE = 1000  # twin of `falsyBase` in lean/ForML/Model/Symbols.lean (checked against the driver on every run)


def tag_of(ident):
    """The actor symbol inside a term: the tag itself, or ('actor', tag, params) for a configured instance."""
    return ident[1] if isinstance(ident, tuple) else ident


def falsy_term(kind, items) -> bool:
    """Python truthiness of a provenance term is part of its structure (so it survives pickling and digests)."""
    if kind == 'apply':
        return tag_of(items[0]) // FALSY_BASE % 2 == 1
    if kind == 'state':
        return tag_of(items[0]) // (2 * FALSY_BASE) % 2 == 1
    if kind == 'stored':
        return items[0] >= FALSY_BASE
    return False


class Zero(int):
    """The payload `0` (a real int zero: falsy, `len()` fails) - told apart from the integers inside terms."""

    def __new__(cls):
        return super().__new__(cls, 0)

    def __reduce__(self):
        return (Zero, ())


def stored_payload(n):
    """The stored payload number `n`: truthy provenance term below FALSY_BASE, then b'', 0, falsy terms."""
    if n == FALSY_BASE:
        return b''
    if n == FALSY_BASE + 1:
        return Zero()
    return Term('stored', n)


def _as_term(v):
    """b'' and 0 are the stored payloads FALSY_BASE and FALSY_BASE + 1."""
    if isinstance(v, bytes) and v == b'':
        return Term('stored', FALSY_BASE)
    if isinstance(v, Zero):
        return Term('stored', FALSY_BASE + 1)
    return None


def _rebuild(kind, items, nonce):
    t = Term(kind, *items)
    t.nonce = nonce
    return t


def stamp(term):
    """Mark the term as the product of one fresh execution (process-safe: a uuid)."""
    term.nonce = uuid.uuid4().hex
    return term


def origin(v):
    """[digest, nonce] of the execution a value stems from (looking through getters); None for inputs."""
    while isinstance(v, Term) and v.kind == 'proj':
        v = v.items[1]
    if isinstance(v, Term) and v.nonce is not None:
        return [digest(v), v.nonce]
    return None


def digest(v) -> str:
    """Merkle digest of a value in the `Val.toSexp` vocabulary (shared sub-terms are hashed once)."""
    if v is None:
        return 'none'
    t = _as_term(v)
    if t is not None:
        return digest(t)
    if isinstance(v, Term):
        if v._digest is None:
            v._digest = hashlib.sha1(('T' + v.kind + '(' + ','.join(digest(i) for i in v.items) + ')').encode()).hexdigest()
        return v._digest
    if isinstance(v, bool):
        return 'b' + str(int(v))
    if isinstance(v, int):
        return 'i' + str(v)
    if isinstance(v, str):
        return 's' + v
    if isinstance(v, (tuple, list)):
        return hashlib.sha1(('L(' + ','.join(digest(i) for i in v) + ')').encode()).hexdigest()
    return 'opaque:' + type(v).__name__


def digest_canon(c, actors=None) -> str:
    """The same digest computed from the canonical nested-list form (what the Lean driver prints). `actors`: the
    driver's table {actor symbol: identity of the configured instance it stands for}."""
    if c == 'none' or c is None:
        return 'none'
    if isinstance(c, int):
        return 'i' + str(c)
    if isinstance(c, str):
        return 's' + c
    kind = c[0]

    def actor(a):
        a = int(a)
        return digest(actors[a]) if actors and a in actors else 'i' + str(a)

    if kind in ('input', 'stored'):
        items = ['i' + str(int(c[1]))]
    elif kind == 'apply':
        items = [actor(c[1]), digest_canon(c[2], actors), _dlist(c[3], actors)]
    elif kind == 'state':
        items = [actor(c[1]), digest_canon(c[2], actors), digest_canon(c[3], actors), digest_canon(c[4], actors)]
    elif kind == 'proj':
        items = ['i' + str(int(c[1])), digest_canon(c[2], actors)]
    elif kind == 'dumped':
        items = [digest_canon(c[1], actors)]
    elif kind == 'committed':
        items = [_dlist(c[1], actors)]
    elif kind == 'error':
        items = ['s' + str(c[1])]
    else:
        raise ValueError(f'not a canonical value: {c!r:.80}')
    return hashlib.sha1(('T' + kind + '(' + ','.join(items) + ')').encode()).hexdigest()


def _dlist(cs, actors=None) -> str:
    return hashlib.sha1(('L(' + ','.join(digest_canon(i, actors) for i in cs) + ')').encode()).hexdigest()


def size(v, limit=10 ** 9) -> int:
    if isinstance(v, Term):
        if v._size is None:
            v._size = 1 + sum(size(i) for i in v.items)
        return v._size
    if isinstance(v, (tuple, list)):
        return 1 + sum(size(i) for i in v)
    return 1


def canon(v):
    """Nested lists in the vocabulary of `Val.toSexp` (tree form: only call on small terms)."""
    if v is None:
        return 'none'
    t = _as_term(v)
    if t is not None:
        return ['stored', t.items[0], repr(v)]
    if isinstance(v, str):
        return repr(v)
    if isinstance(v, tuple) and len(v) == 3 and v[0] == 'actor':  # a configured instance: tag and parameter assignment
        return ['actor', v[1], ' '.join(f'{k}={p!r}' for k, p in v[2])]
    if isinstance(v, Term):
        if v.kind in ('input', 'stored'):
            return [v.kind, v.items[0]]
        if v.kind == 'apply':
            return ['apply', canon(v.items[0]), canon(v.items[1]), [canon(a) for a in v.items[2]]]
        if v.kind == 'committed':
            return ['committed', [canon(a) for a in v.items[0]]]
        return [v.kind] + [canon(i) for i in v.items]
    if isinstance(v, bool):
        return 'true' if v else 'false'
    if isinstance(v, int):
        return v
    if isinstance(v, (tuple, list)):
        return [canon(i) for i in v]
    return ['opaque', type(v).__name__]


def show(v, limit=400):
    if size(v) > 4000:
        return f'<term of tree size {size(v)} digest {digest(v)[:10]}>'
    s = json.dumps(canon(v), separators=(',', ':'))
    return s if len(s) <= limit else s[:limit] + '...'


# --------------------------------------------------------------------------------------------------
# recording (append-only file; one JSON line per event; O_APPEND keeps concurrent writers apart)
# --------------------------------------------------------------------------------------------------
_LOCK = threading.Lock()


def record(path, event) -> None:
    if not path:
        return
    data = (json.dumps(event, separators=(',', ':')) + '\n').encode()
    with _LOCK:
        fd = os.open(path, os.O_WRONLY | os.O_APPEND | os.O_CREAT, 0o600)
        try:
            os.write(fd, data)
        finally:
            os.close(fd)


def read_records(path) -> list:
    if not path or not os.path.exists(path):
        return []
    with open(path) as f:
        return [json.loads(line) for line in f if line.strip()]


def _brief(v):
    return canon(v) if size(v) <= 300 else None


# --------------------------------------------------------------------------------------------------
# symbolic actors
# --------------------------------------------------------------------------------------------------


class Blind:
    """A value that its repr does not tell apart from its siblings (equality, hash and pickle go by content)."""

    __slots__ = ('v',)

    def __init__(self, v):
        self.v = v

    def __repr__(self):
        return 'Blind'

    def __eq__(self, other):
        return isinstance(other, Blind) and other.v == self.v

    def __hash__(self):
        return hash(('Blind', self.v))

    def __reduce__(self):
        return (Blind, (self.v,))


def blind_fn(v):
    """The same as a closure: every one of them is a function called `tag` (a builder prints callables by __name__)."""

    def tag():
        return v

    return tag


def blind(v, how):
    return Blind(v) if how == 'obj' else blind_fn(v) if how == 'fn' else v


def unblind(v):
    return v.v if isinstance(v, Blind) else v() if callable(v) else v


FAIL = {'tag': None}  # in-process failure injection: the next `apply` of the actor with this tag raises once


class Injected(Exception):
    """The injected actor failure."""


class Stateless(flow.Actor):
    """`apply(*args)` -> ('apply', tag, state, args); every invocation is recorded."""

    def __init__(self, tag, rec=None):
        self._tag = unblind(tag)
        self._rec = rec
        self._state = None

    def ident(self):
        """What a result says about the actor that made it: the tag (parameterless classes)."""
        return self._tag

    def apply(self, *args):
        if FAIL['tag'] is not None and FAIL['tag'] == self._tag:
            FAIL['tag'] = None
            raise Injected(f'actor {self._tag} fails once')
        res = stamp(Term('apply', self.ident(), self._state, tuple(args)))
        record(self._rec, ['call', self._tag, 'apply', digest(res), _brief(res), res.nonce,
                           [o for o in map(origin, (self._state,) + tuple(args)) if o]])
        return res

    def get_params(self):
        return {}

    def set_params(self, **kwargs):
        pass


class Stateful(Stateless):
    def train(self, *args):
        # `Train.__call__` passes whatever the table links: arity errors are the interpreter's (not the actor's)
        if len(args) != 2:
            raise TypeError('train() takes features and labels')
        prev = self._state
        self._state = stamp(Term('state', self.ident(), prev, args[0], args[1]))
        record(self._rec, ['call', self._tag, 'train', digest(self._state), _brief(self._state), self._state.nonce,
                           [o for o in map(origin, (prev, args[0], args[1])) if o]])

    def get_state(self):
        return self._state

    def set_state(self, state):
        self._state = state


assert Stateful.is_stateful() and not Stateless.is_stateful()


class _Hyper:
    """Mix-in for actors with hyper-parameters: every constructor parameter after (tag, rec) is kept by name, exposed by
    `get_params`, changed by `set_params` and is part of the identity stamped on every output and every state."""

    def _configure(self, tag, rec, params):
        Stateless.__init__(self, tag, rec)
        self._params = dict(params)

    def ident(self):
        return ('actor', self._tag, tuple(self._params.items()))

    def get_params(self):
        return dict(self._params)

    def set_params(self, **kwargs):
        for k in kwargs:
            if k not in self._params:
                raise TypeError(f'unknown hyper-parameter {k}')
        self._params.update(kwargs)


class HyA(_Hyper, Stateless):
    def __init__(self, tag, rec=None, alpha=100, beta=None, gamma='g', *, delta=0):
        self._configure(tag, rec, {'alpha': alpha, 'beta': beta, 'gamma': gamma, 'delta': delta})


class HyB(_Hyper, Stateless):
    def __init__(self, tag, rec=None, upper=None, lower=0, flag=True):
        self._configure(tag, rec, {'upper': upper, 'lower': lower, 'flag': flag})


class HyC(_Hyper, Stateless):
    def __init__(self, tag, rec, scale, offset='', *, mode=False):  # `scale` has no default
        self._configure(tag, rec, {'scale': scale, 'offset': offset, 'mode': mode})


class HyAS(_Hyper, Stateful):
    def __init__(self, tag, rec=None, alpha=100, beta=None, gamma='g', *, delta=0):
        self._configure(tag, rec, {'alpha': alpha, 'beta': beta, 'gamma': gamma, 'delta': delta})


class HyBS(_Hyper, Stateful):
    def __init__(self, tag, rec=None, upper=None, lower=0, flag=True):
        self._configure(tag, rec, {'upper': upper, 'lower': lower, 'flag': flag})


class HyCS(_Hyper, Stateful):
    def __init__(self, tag, rec, scale, offset='', *, mode=False):
        self._configure(tag, rec, {'scale': scale, 'offset': offset, 'mode': mode})


HYPER = {'HyA': (HyA, HyAS), 'HyB': (HyB, HyBS), 'HyC': (HyC, HyCS)}
NODEFAULT = '<no default>'


def signature_of(cls_name):
    """[(name, default | NODEFAULT, keyword-only?)] of the hyper-parameters: read off the live class."""
    import inspect

    out = []
    for i, prm in enumerate(inspect.signature(HYPER[cls_name][0]).parameters.values()):
        if i < 2:
            continue  # tag, rec: plumbing of the harness
        assert prm.kind in (prm.POSITIONAL_OR_KEYWORD, prm.KEYWORD_ONLY)
        out.append((prm.name, NODEFAULT if prm.default is prm.empty else prm.default, prm.kind == prm.KEYWORD_ONLY))
    assert [tuple(x) for x in out] == [
        tuple((p.name, NODEFAULT if p.default is p.empty else p.default, p.kind == p.KEYWORD_ONLY))
        for i, p in enumerate(inspect.signature(HYPER[cls_name][1]).parameters.values()) if i >= 2]
    return out


assert HyAS.is_stateful() and not HyA.is_stateful()


def make_builder(tag, rec, stateful, bspec, how=None):
    """The real `flow.Spec` of a tag (TypeError: `Spec.__new__` refuses the arguments). `how` ('obj' | 'fn'): the tag
    is handed over as a value that the printed form of the builder does not show - builders of different tags (different
    behaviour) then print the same."""
    if bspec is None:
        return (Stateful if stateful else Stateless).builder(tag=blind(tag, how), rec=rec)
    cls = HYPER[bspec['cls']][1 if stateful else 0]
    return cls.builder(blind(tag, how), rec, *bspec.get('args', ()), **bspec.get('kw', {}))


def builder_tag(builder):
    return unblind(builder.args[0] if builder.args else builder.kwargs['tag'])

# --------------------------------------------------------------------------------------------------
# assets: the real asset.State over a recording fake generation
# --------------------------------------------------------------------------------------------------


class FakeTag:
    def __init__(self, states=()):
        self.states = tuple(states)

    def replace(self, **kw):
        return FakeTag(kw.get('states', self.states))


class FakeRelease:
    def __init__(self, rec, prev):
        self.rec = rec
        self.prev = prev

    def dump(self, state):
        res = stamp(Term('dumped', state))
        record(self.rec, ['dump', digest(state), _brief(state), res.nonce, [o for o in [origin(state)] if o], digest(res)])
        return res

    def put(self, tag):
        record(self.rec, ['commit', [digest(s) for s in tag.states], [_brief(s) for s in tag.states],
                          [o for o in map(origin, tag.states) if o]])
        return FakeGeneration(self.rec, self.prev)


class FakeGeneration:
    def __init__(self, rec, prev):
        self.rec = rec
        self.prev = prev
        self.release = FakeRelease(rec, prev)
        self.tag = FakeTag()

    def get(self, key):
        record(self.rec, ['load', key if isinstance(key, int) else str(key)])
        if self.prev is None or not isinstance(key, int) or key >= len(self.prev):
            raise forml.MissingError('no previous generation')
        p = self.prev[key]
        if isinstance(p, (list, tuple)):  # ['f', n]: the falsy stored payload number n
            return stored_payload(p[1])
        return Term('stored', key) if p else None


_GIDS: dict = {}


def gid_of(g: int) -> uuid.UUID:
    """Deterministic group uuid of the spec-level gid."""
    if g not in _GIDS:
        _GIDS[g] = uuid.UUID(int=0xC02 << 64 | g)
    return _GIDS[g]


def make_assets(aspec, rec):
    if aspec is None:
        return None
    return asset.State(FakeGeneration(rec, aspec.get('prev')), [gid_of(g) for g in aspec['persistent']])


# --------------------------------------------------------------------------------------------------
# spec -> real symbols
# --------------------------------------------------------------------------------------------------


class Unbuildable(Exception):
    """The spec cannot be expressed with the real instruction classes (e.g. loader without assets)."""


def materialise(spec, rec):
    """Returns (symbols tuple, {key: instruction}, {actor tag: stateful?})."""
    assets = make_assets(spec.get('assets'), rec)
    stateful = {}
    for _, ins, _ in spec['syms']:
        if ins[0] == 'functor':
            stateful[ins[1]] = stateful.get(ins[1], False) or ins[2] == 'train' or ins[3] > 0
    for t, st in spec.get('stateful', {}).items():
        stateful[int(t)] = stateful.get(int(t), False) or bool(st)
    builders: dict = {}
    instr: dict = {}
    for key, ins, _ in spec['syms']:
        kind = ins[0]
        if kind == 'functor':
            _, tag, action, npre = ins
            how = (spec.get('blind') or {}).get(str(tag))
            if tag not in builders or spec.get('fresh_builders'):
                builders[tag] = make_builder(tag, rec, stateful[tag], (spec.get('builders') or {}).get(str(tag)), how)
            builder = builders[tag]
            if str(key) in (spec.get('alt') or {}):  # this functor is built by a builder of its own (same tag)
                builder = make_builder(tag, rec, stateful[tag], spec['alt'][str(key)], how)
            f = flow.Functor(builder, flow.Apply() if action == 'apply' else flow.Train())
            for _ in range(npre):
                f = f.preset_state()
            obj = f
        elif kind == 'getter':
            obj = flow.Getter(ins[1])
        elif kind == 'loader':
            if assets is None:
                raise Unbuildable('loader without assets')
            obj = flow.Loader(assets, gid_of(ins[1]))
        elif kind == 'dumper':
            if assets is None:
                raise Unbuildable('dumper without assets')
            obj = flow.Dumper(assets)
        elif kind == 'committer':
            if assets is None:
                raise Unbuildable('committer without assets')
            obj = flow.Committer(assets)
        else:
            raise Unbuildable(f'unknown instruction {ins!r}')
        if key in instr:
            raise Unbuildable('duplicate key')
        instr[key] = obj
    foreign: dict = {}

    def ref(k):
        if k in instr:
            return instr[k]
        if k not in foreign:  # an argument that is not a symbol of the table (malformed stream only)
            foreign[k] = flow.Functor(Stateless.builder(tag=10 ** 6 + k, rec=rec), flow.Apply())
        return foreign[k]

    symbols = tuple(flow.Symbol(instr[key], [ref(a) for a in args]) for key, _, args in spec['syms'])
    return symbols, instr, stateful


# --------------------------------------------------------------------------------------------------
# segments: real flow graphs, compiled by the real compiler and handed to `Runner._exec`
# --------------------------------------------------------------------------------------------------
#   seg ::= {'nodes': [[id, tag, szin, szout, fork_of | None], ...],       fork_of: made by `nodes[fork_of].fork()`
#            'train': [[id, [pub id, pub port], [pub id, pub port]], ...],  `node.train(features, labels)`
#            'subs':  [[sub id, sub port, pub id, pub port], ...],          `node[sub port].subscribe(pub[pub port])`
#            'head': id, 'tail': id, 'stateful': [tag...],
#            'assets': None | {'persistent': [node id of a member of the group...], 'prev': None | [...]}}


@contextlib.contextmanager
def isolated():
    """Snapshot / restore `Subscription._PORTS` (process-global, never emptied by forml; see BUILDING.md)."""
    from forml.flow._graph import port

    ports = port.Subscription._PORTS  # pylint: disable=protected-access
    saved = {k: set(v) for k, v in ports.items()}
    try:
        yield
    finally:
        ports.clear()
        ports.update(saved)


def _quiet_unraisable(unraisable):
    """`Subscription.__del__` of a node that is no longer registered raises AttributeError; CPython prints it."""
    if isinstance(unraisable.exc_value, (AttributeError, KeyError)):
        return
    sys.__unraisablehook__(unraisable)


def build_segment(seg, rec, builders, blinds=None):
    """(flow.Segment, asset.State | None, {id: node}) over fresh real workers."""
    nodes: dict = {}
    stateful = set(seg.get('stateful', ()))
    for nid, tag, szin, szout, fork in seg['nodes']:
        if fork is None:
            nodes[nid] = flow.Worker(make_builder(tag, rec, tag in stateful, (builders or {}).get(str(tag)),
                                                  (blinds or {}).get(str(tag))), szin, szout)
        else:
            nodes[nid] = nodes[fork].fork()
    for nid, feat, lab in seg.get('train', ()):
        nodes[nid].train(nodes[feat[0]][feat[1]], nodes[lab[0]][lab[1]])
    for sub, sp, pub, pp in seg['subs']:
        nodes[sub][sp].subscribe(nodes[pub][pp])
    a = seg.get('assets')
    assets = None if a is None else asset.State(FakeGeneration(rec, a.get('prev')), [nodes[i].gid for i in a['persistent']])
    return flow.Segment(nodes[seg['head']], nodes[seg['tail']]), assets, nodes


def describe_segment(seg, builders, blinds=None):
    """Build the segment, compile it with the real compiler and describe the table as a spec (syms, assets);
    None when the graph API / the compiler refuses it or emits something the spec vocabulary does not have."""
    sys.unraisablehook = _quiet_unraisable
    with isolated():
        try:
            segment, assets, nodes = build_segment(seg, None, builders, blinds)
            symbols = flow.compile(segment, assets)
        except Exception:  # pylint: disable=broad-except
            return None
        group = {}
        for nid, n in nodes.items():
            group.setdefault(n.gid, nid)
        ids: dict = {}
        for s in symbols:
            ids.setdefault(id(s.instruction), len(ids))
        syms = []
        for s in symbols:
            i = s.instruction
            if isinstance(i, flow.Functor):
                from forml.flow._code.target import user

                chain, action = 0, i.action
                while isinstance(action, user.SetState):
                    chain, action = chain + 1, action._action  # pylint: disable=protected-access
                if not isinstance(action, (flow.Apply, flow.Train)):
                    return None
                ins = ['functor', builder_tag(i.builder),
                       'apply' if isinstance(action, flow.Apply) else 'train', chain]
            elif isinstance(i, flow.Getter):
                ins = ['getter', i.index]
            elif isinstance(i, flow.Loader):
                if i._key not in group:  # pylint: disable=protected-access
                    return None
                ins = ['loader', group[i._key]]  # pylint: disable=protected-access
            elif isinstance(i, flow.Dumper):
                ins = ['dumper']
            elif isinstance(i, flow.Committer):
                ins = ['committer']
            else:
                return None
            syms.append([ids[id(i)], ins, [ids.setdefault(id(a), len(ids)) for a in s.arguments]])
        a = seg.get('assets')
        aspec = None if a is None else {'persistent': [group[nodes[i].gid] for i in a['persistent']], 'prev': a.get('prev')}
        return {'syms': syms, 'assets': aspec}


# --------------------------------------------------------------------------------------------------
# the harness's own interpreter on the real instruction objects (dependency ordered, memoised)
# --------------------------------------------------------------------------------------------------


class Cyclic(Exception):
    pass


def reference(symbols, head=None, x=None, shipped=False):
    """{id(instr): value}. When `head` is given that instruction receives `x` as an additional last argument
    (the single-function runner feeds the external input to the head). `shipped`: every instruction is executed the
    way a worker process of the `processes` scheduler would - on a copy of the instruction object and of its
    argument values rebuilt from their cloudpickle - and its result is pickled back."""
    if shipped:
        import cloudpickle
    up = {id(s.instruction): s for s in symbols}
    memo: dict = {}
    onstack: set = set()

    def ev(instr):
        k = id(instr)
        if k in memo:
            return memo[k]
        if k in onstack:
            raise Cyclic()
        onstack.add(k)
        args = [ev(a) for a in up[k].arguments] if k in up else []
        if head is not None and instr is head:
            args.append(x)
        if shipped:
            task, targs = cloudpickle.loads(cloudpickle.dumps((instr, tuple(args))))
            res = cloudpickle.loads(cloudpickle.dumps(task(*targs)))
        else:
            res = instr(*args)
        onstack.discard(k)
        memo[k] = res
        return res

    for s in symbols:
        ev(s.instruction)
    return memo


# --------------------------------------------------------------------------------------------------
# back-ends
# --------------------------------------------------------------------------------------------------
BACKENDS = ('ref', 'ref-shipped', 'dask-synchronous', 'dask-threads', 'dask-processes', 'dask-processes-fresh', 'pyfunc-run', 'pyfunc-call',
            'pyfunc-recover')

_POOL = None


def _pool():
    """A re-used spawn-context process pool for the `processes` scheduler (dask accepts it via config `pool`)."""
    global _POOL  # pylint: disable=global-statement
    if _POOL is None:
        import concurrent.futures
        import multiprocessing

        _POOL = concurrent.futures.ProcessPoolExecutor(2, mp_context=multiprocessing.get_context('spawn'))
    return _POOL


def probe_builder(bspec, stateful=False):
    """The real `flow.Spec` on one builder description: creation, instantiation, pickling (plain pickle and cloudpickle,
    which dask's `processes` scheduler uses), instantiation of the rebuilt builder. JSON-able."""
    import pickle

    import cloudpickle

    def params(builder):
        try:
            return ['ok', [[k, v] for k, v in builder().get_params().items()]]
        except TypeError:
            return ['typeError']

    try:
        b = make_builder(7, None, stateful, bspec)
    except TypeError:
        return {'new': 'typeError'}
    out = {'new': 'ok', 'call': params(b), 'roundtrip': {}}
    for name, mod in (('pickle', pickle), ('cloudpickle', cloudpickle)):
        try:
            c = mod.loads(mod.dumps(b))
        except TypeError:
            out['roundtrip'][name] = {'same': None, 'call': ['typeError']}
            continue
        same = c.actor is b.actor and tuple(c.args) == tuple(b.args) and dict(c.kwargs) == dict(b.kwargs) \
            and [type(x) for x in c.args] == [type(x) for x in b.args] \
            and {k: type(v) for k, v in c.kwargs.items()} == {k: type(v) for k, v in b.kwargs.items()}
        out['roundtrip'][name] = {'same': same, 'args': list(c.args[2:]), 'kw': [[k, v] for k, v in c.kwargs.items()],
                                  'call': params(c)}
    return out


def shutdown_pool():
    global _POOL  # pylint: disable=global-statement
    if _POOL is not None:
        _POOL.shutdown(wait=False, cancel_futures=True)
        _POOL = None


INPUT = ('input', 0)
INPUT2 = ('input', 1)


def run_backend(spec, backend, rec):
    """Drive one back-end on a freshly materialised table (or, for a spec with a 'segment', on a freshly built real
    flow segment: the dask and pyfunc runners then go through `Runner._exec(segment, assets)`, which compiles it).
    Returns a JSON-able outcome:

        {'status': 'ok'|'rejected'|'crash'|'unbuildable', 'error': class name, 'stage': 'build'|'run',
         'result': [digest, brief] (pyfunc only), 'records': [...]}
    """
    if spec.get('segment'):
        sys.unraisablehook = _quiet_unraisable
        with isolated():
            return _run_backend(spec, backend, rec)
    return _run_backend(spec, backend, rec)


def _run_backend(spec, backend, rec):
    import dask

    from forml.provider.runner import dask as daskrunner
    from forml.provider.runner import pyfunc

    if os.path.exists(rec):
        os.unlink(rec)
    out = {'backend': backend, 'status': 'ok'}
    segment = assets = None
    try:
        if spec.get('segment'):
            segment, assets, _ = build_segment(spec['segment'], rec, spec.get('builders'), spec.get('blind'))
            if backend in ('ref', 'ref-shipped', 'pyfunc-call', 'pyfunc-recover'):
                symbols = flow.compile(segment, assets)
        else:
            symbols, instr, _ = materialise(spec, rec)
    except Unbuildable as e:
        return {'backend': backend, 'status': 'unbuildable', 'error': str(e), 'records': []}
    except forml.AssemblyError:
        return {'backend': backend, 'status': 'unbuildable', 'error': 'AssemblyError', 'records': []}
    except TypeError as e:  # `Spec.__new__` refuses the builder arguments: there is no table
        return {'backend': backend, 'status': 'unbuildable', 'error': f'TypeError: {e}', 'records': []}
    try:
        if backend == 'ref':
            if segment is None:
                # the name dask gives the pure task of every instruction object (content part: `normalize_token`)
                try:
                    out['names'] = {str(k): dask.delayed(obj, pure=True, traverse=False).key for k, obj in instr.items()}
                except Exception as e:  # pylint: disable=broad-except
                    out['names'] = {'error': f'{type(e).__name__}: {e}'[:120]}
            reference(symbols)
        elif backend == 'ref-shipped':
            reference(symbols, shipped=True)
        elif backend.startswith('dask-'):
            sched = backend.split('-')[1]
            conf = dict(daskrunner.Runner.DEFAULTS, scheduler=sched)
            if backend == 'dask-processes':
                conf['pool'] = _pool()
            elif backend == 'dask-processes-fresh':
                conf['num_workers'] = 3
            with dask.config.set(conf):
                if segment is not None:
                    runner = object.__new__(daskrunner.Runner)  # `_exec` needs `run` and the constructor's kwargs only
                    runner._kwargs = {}  # pylint: disable=protected-access
                    runner._exec(segment, assets)  # pylint: disable=protected-access
                else:
                    daskrunner.Runner.run(symbols)
        elif backend == 'pyfunc-run':
            out['stage'] = 'run'
            if segment is not None:
                runner = object.__new__(pyfunc.Runner)
                runner._kwargs = {}  # pylint: disable=protected-access
                runner._exec(segment, assets)  # pylint: disable=protected-access
            else:
                pyfunc.Runner.run(symbols)
        elif backend == 'pyfunc-call':
            out['stage'] = 'build'
            expr = pyfunc.Expression(symbols)
            out['stage'] = 'call'
            x = Term(*INPUT)
            res = expr(x)
            out['result'] = [digest(res), _brief(res)]
            out['stage'] = 'call2'  # the expression is re-used for every request (serving)
            res2 = expr(Term(*INPUT2))
            out['result2'] = [digest(res2), _brief(res2)]
            out['stage'] = 'done'
        elif backend == 'pyfunc-recover':
            # a request on which one actor fails, followed by an ordinary request on the same expression
            out['stage'] = 'build'
            expr = pyfunc.Expression(symbols)
            out['stage'] = 'failing-call'
            FAIL['tag'] = spec.get('fail')
            try:
                expr(Term(*INPUT))
                out['injected'] = False
            except Injected:
                out['injected'] = True
            finally:
                FAIL['tag'] = None
            out['stage'] = 'call-after-failure'
            res2 = expr(Term(*INPUT2))
            out['result2'] = [digest(res2), _brief(res2)]
            out['stage'] = 'done'
        else:
            raise ValueError(backend)
    except RecursionError:
        out.update(status='crash', error='RecursionError')
    except AssertionError as e:
        out.update(status='assert', error='AssertionError', message=str(e)[:80])
    except Exception as e:  # pylint: disable=broad-except
        out.update(status='crash', error=type(e).__name__, message=str(e)[:120])
    out['records'] = read_records(rec)
    return out
