"""C03 — operator composition realises train/apply coherence (lean/ForML/Model/Compose.lean, Denote.lean).

Implementation: the real `flow.Composition(source, expression)` over the real operator library with symbolic
actors (props/pipegen.py); both segments compiled by `flow.compile` and executed by the memoising reference
interpreter. Compared with (a) the Lean model's expansion + graph evaluation, (b) the Lean denotation and
(c) the oracle `denote` below, written in Python from the documentation's coherence rule.
"""
from __future__ import annotations

import itertools
import typing

from core import framework as fw
from core import sexp

from . import c03_api as ax
from . import c03_bridge as br
from . import pipegen as pg

PROBE = 900  # tag of the stateful mapper appended to observe the final train features / labels
SIZE_LIMIT = 40000  # provenance terms are printed as trees; larger cases are re-drawn
NONE = pg.NONE


# --------------------------------------------------------------------------------------------------
# oracle: ⟦e⟧ from the documentation (terms are the tuples the symbolic actors build)
# --------------------------------------------------------------------------------------------------
class Sem(typing.NamedTuple):
    apply: typing.Any
    train: typing.Any
    label: typing.Any
    states: tuple  # ((tag, state term), ...)


def _origin(xa, xt, xl) -> Sem:
    return Sem(xa, xt, xl, ())


def _fit(actor, x, y):
    """A stateful actor trained on features x and labels y; a stateless one has no state."""
    tag, stateful = actor
    return ('state', tag, None, x, y) if stateful else None


def _map(actor, state, *xs):
    return ('apply', actor[0], state, tuple(xs))


def denote(ast, scope=_origin):
    """Meaning of `ast` composed onto `scope` (a function of the three inputs)."""
    kind = ast[0]
    if kind == 'seq':
        # (l >> r) composed onto a scope: the scope first, then r with l as *its* scope
        inner = denote(ast[2], denote(ast[1]))

        def seq(xa, xt, xl):
            s = scope(xa, xt, xl)
            t = inner(s.apply, s.train, s.label)
            return Sem(t.apply, t.train, t.label, s.states + t.states)

        return seq
    if kind == 'wrap':
        lab, app, trn = ast[1:4]

        def wrap(xa, xt, xl):
            s = scope(xa, xt, xl)
            actors: dict = {}  # one actor per builder (tag)
            states: dict = {}
            label = s.label
            if lab != NONE:
                actors[lab[0]] = lab
                states[lab[0]] = _fit(lab, s.train, s.label)  # the label actor sees the untransformed labels
                label = _map(lab, states[lab[0]], s.label)
            for slot in (app, trn):
                if slot != NONE and slot[0] not in actors:
                    actors[slot[0]] = slot
                    states[slot[0]] = _fit(slot, s.train, label)  # everybody else the transformed ones
            apply = s.apply if app == NONE else _map(actors[app[0]], states[app[0]], s.apply)
            train = s.train if trn == NONE else _map(actors[trn[0]], states[trn[0]], s.train)
            new = tuple((t, states[t]) for t, a in actors.items() if a[1])
            return Sem(apply, train, label, s.states + new)

        return wrap
    if kind == 'mapreduce':
        mappers, reducer = ast[1], [ast[2], False]

        def mapreduce(xa, xt, xl):
            s = scope(xa, xt, xl)
            sts = [_fit(m, s.train, s.label) for m in mappers]
            return Sem(_map(reducer, None, *(_map(m, st, s.apply) for m, st in zip(mappers, sts))),
                       _map(reducer, None, *(_map(m, st, s.train) for m, st in zip(mappers, sts))),
                       s.label, s.states + tuple((m[0], st) for m, st in zip(mappers, sts) if m[1]))

        return mapreduce
    if kind == 'debug':
        a, t = ast[1], ast[2]

        def debug(xa, xt, xl):
            s = scope(xa, xt, xl)
            return Sem(_map(a, None, s.apply), s.train, s.label, s.states + ((t[0], _fit(t, s.train, s.label)),))

        return debug
    if kind == 'api':
        return ax.denote_api(ast, scope, Sem)
    if kind == 'stack':
        _, bases, n, splitter, appender, stacker, reducer = ast
        bases = [denote(b) for b in bases]
        splitter, appender, stacker, reducer = ([t, f] for t, f in zip((splitter, appender, stacker, reducer), (True, False, False, False)))

        def stack(xa, xt, xl):
            st = _fit(splitter, xt, xl)
            feats, labs = _map(splitter, st, xt), _map(splitter, st, xl)

            def part(i, v):
                return ('proj', i, v)

            states = ((splitter[0], st),)
            folds, tests = [], []
            for k in range(n):
                fold = scope(xa, part(2 * k, feats), part(2 * k, labs))  # the scope trained on fold k
                held = scope(part(2 * k + 1, feats), part(2 * k, feats), part(2 * k, labs)).apply  # held-out part through it
                folds.append(fold)
                tests.append(held)
                states += fold.states
            applies, trains = [], []
            for base in bases:
                fitted = [base(f.apply, f.train, f.label) for f in folds]
                heldout = [base(t, f.train, f.label).apply for t, f in zip(tests, folds)]
                for f in fitted:
                    states += f.states
                applies.append(_map(reducer, None, *(f.apply for f in fitted)))
                trains.append(_map(stacker, None, *heldout))
            return Sem(_map(appender, None, *applies), _map(appender, None, *trains),
                       _map(stacker, None, *(part(2 * k + 1, labs) for k in range(n))), states)

        return stack
    raise ValueError(kind)


def oracle(ast) -> Sem:
    return denote(ax.to_library(ast))(pg.INPUT_APPLY, pg.INPUT_TRAIN, pg.INPUT_LABEL)


# --------------------------------------------------------------------------------------------------
# implementation adapter (runs in worker processes)
# --------------------------------------------------------------------------------------------------
def _canon(term) -> str:
    return sexp.dumps(pg.to_sexp(term))


def _expansion_groups(trunk):
    """{gid: (tag, members, trained)} and the set of node uids of one expanded trunk."""
    from forml import flow

    nodes: dict = {}

    class V(flow.Visitor):
        def visit_node(self, node):
            nodes[node.uid] = node

    for segment in trunk:
        segment.accept(V())
    groups = {}
    for node in nodes.values():
        if isinstance(node, flow.Worker) and node.gid not in groups:
            members = node.group
            groups[node.gid] = (pg.node_tag(node), len(members), sum(1 for m in members if m.trained))
    return groups, set(nodes)


def _site(err) -> str:
    """Innermost forml frame of an exception: `<module>.<function>` (part of the violation signature)."""
    import os
    import traceback

    site = '?'
    for frame in traceback.extract_tb(err.__traceback__):
        if os.sep + 'forml' + os.sep in frame.filename:
            site = f'{os.path.splitext(os.path.basename(frame.filename))[0]}.{frame.name}'
    return site


def _edges(segment) -> list:
    """Canonical multiset of the subscriptions between the members of a segment: publisher (tag, shape), the publisher's
    OUTPUT PORT INDEX, subscriber (tag, shape), kind and index of the subscribed input port."""
    from forml import flow

    # the members of the segment: everything reachable from its head through apply-mode subscriptions (what a copy copies)
    head = tuple(segment)[0]
    nodes, todo, members = [], [head], set()
    while todo:
        node = todo.pop()
        if id(node) in members:
            continue
        members.add(id(node))
        nodes.append(node)
        for subs in node.output:
            todo.extend(sub.node for sub in subs if type(sub.port).__name__ == 'Apply')

    def name(node):
        return ('w', pg.node_tag(node), node.szin, node.szout) if isinstance(node, flow.Worker) else ('f', node.szin, node.szout)

    def index(prt):
        try:
            return int(prt)
        except (TypeError, ValueError):
            return -1

    out = []
    for node in nodes:
        for i, subs in enumerate(node.output):
            for sub in subs:
                if id(sub.node) in members and type(sub.port).__name__ == 'Apply':
                    out.append(repr((name(node), i, name(sub.node), type(sub.port).__name__, index(sub.port))))
    return sorted(out)


def _copy_check(trunk) -> list:
    """`Segment.copy` (what the ensembler does per fold and the evaluation stage per run) of each segment of an expanded
    trunk, twice: the copy must have the topology of the original, publisher port indices included."""
    bad = []
    for name, segment in (('apply', trunk.apply),):  # (a copy is bounded by the tail: train / label segments carry side branches)
        want = _edges(segment)
        for attempt in range(2):
            got = _edges(segment.copy())
            if got != want:
                bad.append([name, attempt, [e for e in want if e not in got][:3], [e for e in got if e not in want][:3]])
                break
    return bad


def impl(ast):
    """`_impl`, an exception of the real code mapped to ('exception', class, message, site)."""
    try:
        return _impl(ast)
    except Exception as err:  # pylint: disable=broad-except
        return 'exception', type(err).__name__, str(err)[:300], _site(err)


def _impl(ast):
    """Real composition: outputs of both compiled segments + trained states; and two expansions of the
    same expression for the independence clause."""
    comp = ax.composition(ast)
    res = pg.run_composition(comp)
    out = {
        'train': _canon(res.train),
        'apply': _canon(res.apply),
        'states': sorted(sexp.dumps([t, pg.to_sexp(s)]) for t, s in res.states),
        'stats': res.stats,
    }
    try:
        out['segments'] = br.real_segments(comp)
    except Exception as err:  # pylint: disable=broad-except
        out['segments'] = {'export_error': f'{type(err).__name__}: {err}'[:300]}  # a defect of the exporter, not of forml
    del comp
    expr = ax.build(ast)
    first, second = expr.expand(), expr.expand()
    out['copy'] = _copy_check(expr.expand())
    g1, n1 = _expansion_groups(first)
    g2, n2 = _expansion_groups(second)
    out['indep'] = {
        'shared_nodes': len(n1 & n2),
        'shared_groups': len(set(g1) & set(g2)),
        'groups1': sorted(g1.values()),
        'groups2': sorted(g2.values()),
    }
    return out


# --------------------------------------------------------------------------------------------------
# the check
# --------------------------------------------------------------------------------------------------
def with_probe(ast):
    return ['seq', ast, ['wrap', NONE, [PROBE, True], [PROBE, True]]]


def probed(ast):
    """An expression with an api operator is only ever evaluated with a closing mapper behind it (`Composition` re-traces
    the final tails: a side branch left on the last tail of the pipeline legitimately becomes the tail)."""
    if not ax.has_api(ast):
        return ast
    last = ast
    while last[0] == 'seq':
        last = last[2]
    if last[0] == 'wrap' and last[2] != NONE and last[3] != NONE and last[2][0] == last[3][0] and last[1] == NONE:
        return ast
    return with_probe(ast)


CORPUS = [
    # the documentation's examples and the shapes the anchors talk about
    ['wrap', NONE, [1, True], [1, True]],
    ['seq', ['wrap', NONE, [1, True], [1, True]], ['wrap', NONE, [2, True], [2, True]]],
    ['seq', ['wrap', [1, True], NONE, NONE], ['wrap', NONE, [2, True], [2, True]]],
    ['seq', ['wrap', [1, False], NONE, NONE], ['seq', ['wrap', NONE, NONE, [2, False]], ['wrap', NONE, [3, True], NONE]]],
    ['seq', ['seq', ['wrap', [1, False], NONE, NONE], ['wrap', NONE, NONE, [2, False]]], ['wrap', NONE, [3, True], NONE]],
    ['wrap', [1, True], [2, True], [3, True]],
    ['wrap', [1, True], [1, True], NONE],
    ['wrap', [1, True], [1, True], [1, True]],
    ['wrap', [1, True], NONE, [1, True]],
    ['wrap', NONE, [1, True], [2, True]],
    ['mapreduce', [[1, True], [2, False]], 3],
    ['seq', ['wrap', [1, True], NONE, NONE], ['mapreduce', [[2, True], [3, True]], 4]],
    ['seq', ['debug', [1, True], [2, True]], ['wrap', NONE, [3, True], [3, True]]],
    ['seq', ['wrap', NONE, [1, True], [1, True]], ['debug', [2, False], [3, True]]],
    ['stack', [['wrap', NONE, [5, True], [5, True]]], 2, 1, 2, 3, 4],
    ['seq', ['wrap', NONE, [1, True], [1, True]], ['stack', [['wrap', NONE, [6, True], [6, True]]], 2, 2, 3, 4, 5]],
    ['seq', ['wrap', NONE, [1, True], [1, True]],
     ['seq', ['wrap', [2, True], NONE, NONE], ['stack', [['wrap', NONE, [7, True], [7, True]]], 2, 3, 4, 5, 6]]],
    ['seq', ['seq', ['wrap', NONE, [1, True], [1, True]], ['wrap', [2, True], NONE, NONE]],
     ['stack', [['wrap', NONE, [7, True], [7, True]], ['seq', ['wrap', NONE, [8, False], [8, False]], ['wrap', NONE, [9, True], [9, True]]]],
      3, 3, 4, 5, 6]],
    ['seq', ['debug', [1, True], [2, True]], ['stack', [['mapreduce', [[7, True], [8, False]], 9]], 2, 3, 4, 5, 6]],
    ['seq', ['stack', [['wrap', NONE, [5, True], [5, True]]], 2, 1, 2, 3, 4], ['stack', [['wrap', NONE, [15, True], [15, True]]], 2, 11, 12, 13, 14]],
]

# operators written against the public composition API (docs/workflow/operator.rst), alone and mixed with the library
CORPUS_API = [
    ['custom', [1, True]],
    ['custom', [1, False]],
    ['seq', ['custom', [1, True]], ['custom', [2, True]]],
    ['seq', ['wrap', [1, True], NONE, NONE], ['seq', ['custom', [2, True]], ['wrap', NONE, [3, True], [3, True]]]],
    ['seq', ['seq', ['wrap', [1, True], NONE, NONE], ['custom', [2, True]]], ['mapreduce', [[3, True], [4, False]], 5]],
    ['seq', ['custom', [1, True]], ['stack', [['custom', [6, True]]], 2, 2, 3, 4, 5]],
    ['stack', [['seq', ['custom', [5, False]], ['wrap', NONE, [6, True], [6, True]]]], 2, 1, 2, 3, 4],
]

# minimised past failures, evaluated bare (no probe: the train path must end where the expression ends).
# C03-X1: the train path ends in a dangling Future behind a MapReduce with a trained mapper
CORPUS_BARE = [
    ['seq', ['mapreduce', [[1, True], [2, False]], 3], ['seq', ['wrap', NONE, [4, False], NONE], ['wrap', NONE, [5, False], NONE]]],
    ['seq', ['mapreduce', [[1, False], [2, True]], 3], ['seq', ['wrap', [4, False], NONE, NONE], ['wrap', [5, False], NONE, NONE]]],
    ['seq', ['mapreduce', [[1, True], [2, True]], 3], ['seq', ['custom', [4, False]], ['seq', ['wrap', NONE, [5, False], NONE], ['wrap', NONE, [6, True], NONE]]]],
    # C03-X2: Segment.copy of a segment ending in a dangling Future (scope / base of FullStack)
    ['stack', [['seq', ['wrap', NONE, NONE, [5, False]], ['seq', ['wrap', [6, False], NONE, NONE], ['wrap', NONE, NONE, [7, False]]]]], 2, 1, 2, 3, 4],
    ['seq', ['seq', ['wrap', NONE, NONE, [1, True]], ['seq', ['wrap', [2, True], NONE, NONE], ['wrap', [3, True], NONE, NONE]]],
     ['stack', [['mapreduce', [[8, False]], 9]], 2, 4, 5, 6, 7]],
    ['seq', ['seq', ['mapreduce', [[1, True], [2, False]], 3], ['seq', ['wrap', NONE, NONE, [4, False]], ['wrap', NONE, NONE, [5, False]]]],
     ['stack', [['wrap', NONE, [10, True], [10, True]]], 2, 6, 7, 8, 9]],
    ['seq', ['seq', ['wrap', NONE, [1, True], [1, True]], ['seq', ['wrap', NONE, NONE, [2, False]], ['wrap', NONE, NONE, [3, False]]]],
     ['stack', [['wrap', NONE, [10, True], [10, True]]], 2, 6, 7, 8, 9]],
]

# malformed stream: operators that refuse to compose (model: Err, implementation: exception class)
MALFORMED = [
    (['debug', [1, True], [2, False]], 'TopologyError', 'statelessTrain'),
    (['seq', ['wrap', NONE, [1, True], [1, True]], ['debug', [2, False], [3, False]]], 'TopologyError', 'statelessTrain'),
]


# nested ensembles (FullStack in a base / in the scope of another FullStack), debug operators inside ensembles, label
# operators in the scope and in the bases of ensembles: hand-picked, always evaluated (with probe and bare)
def _w(stateful=True):
    return ['wrap', NONE, [0, stateful], [0, stateful]]


def _lab(stateful=True):
    return ['wrap', [0, stateful], NONE, NONE]


def _dbg():
    return ['debug', [0, False], [0, True]]


def _stk(bases, n=2):
    return ['stack', list(bases), n, 0, 0, 0, 0]


def _seq(*xs):
    tree = xs[0]
    for x in xs[1:]:
        tree = ['seq', tree, x]
    return tree


CORPUS_NESTED = [
    # a stack in the bases of a stack
    _stk([_stk([_w()])]),
    _stk([_stk([_w()]), _w(False)], 3),
    _stk([_seq(_w(), _stk([_w()]))]),
    _stk([_seq(_stk([_w()]), _w())]),
    _stk([_stk([_w(), ['mapreduce', [[0, True], [0, False]], 0]], 3)]),
    _seq(_w(), _stk([_seq(_lab(), _stk([_seq(_dbg(), _w())]))])),
    # a stack in the scope of a stack
    _seq(_stk([_w()]), _stk([_w()])),
    _seq(_seq(_w(), _stk([_w()])), _stk([_w()])),
    _seq(_seq(_stk([_w()]), _w()), _stk([_w()])),
    _seq(_w(), _seq(_stk([_w()]), _stk([_w()]))),
    _seq(_seq(_lab(), _stk([_w()], 3)), _stk([_w(), _w(False)])),
    # both
    _seq(_stk([_w()]), _stk([_stk([_w()])])),
    _seq(_seq(_dbg(), _stk([_seq(_lab(), _w())])), _stk([_seq(_dbg(), _w())])),
    # debug operators inside ensembles (base = debug alone / debug >> estimator / estimator >> debug; debug in the scope)
    _stk([_dbg()]),
    _stk([_seq(_dbg(), _w())]),
    _stk([_seq(_w(), _dbg()), _w()]),
    _seq(_dbg(), _stk([_w()])),
    _seq(_seq(_w(), _dbg()), _stk([_seq(_dbg(), _w())], 3)),
    # label operators in the scope and in the bases of ensembles
    _seq(_lab(), _stk([_w()])),
    _seq(_seq(_lab(), _w()), _stk([_w()])),
    _seq(_seq(_w(), _lab(False)), _stk([_seq(_lab(), _w())])),
    _seq(['wrap', [0, True], [0, True], [0, True]], _stk([['wrap', [0, True], [1, True], [1, True]]])),
    _seq(_lab(), _seq(_lab(), _stk([_w()]))),
    _seq(_seq(_dbg(), _w()), _stk([_w()])),
    _seq(_w(), _seq(_dbg(), _stk([_w(), _w(False)]))),
    _stk([_seq(_lab(), _w()), _w()]),
]


def _mentions(ast, pred) -> bool:
    if pred(ast):
        return True
    if ast[0] == 'seq':
        return _mentions(ast[1], pred) or _mentions(ast[2], pred)
    if ast[0] == 'stack':
        return any(_mentions(b, pred) for b in ast[1])
    return False


def _is_stack(ast) -> bool:
    return ast[0] == 'stack'


def _is_debug(ast) -> bool:
    return ast[0] == 'debug'


def _is_label(ast) -> bool:
    return ast[0] == 'wrap' and ast[1] != NONE


def features(ast) -> set:
    """Which of the shapes the nested-ensemble stream is about occur in `ast`. The scope of an ensemble is the left
    operand of the `>>` whose right operand it is (`A >> (B >> stack)`: `B`), its bases are expanded on their own."""
    out = set()
    k = ast[0]
    if k == 'seq':
        left, right = ast[1], ast[2]
        out |= features(left) | features(right)
        if right[0] == 'stack':
            if _mentions(left, _is_stack):
                out.add('stack-in-scope')
            if _mentions(left, _is_debug):
                out.add('debug-in-scope')
            if _mentions(left, _is_label):
                out.add('label-in-scope')
    elif k == 'stack':
        for base in ast[1]:
            out |= features(base)
            if _mentions(base, _is_stack):
                out.add('stack-in-base')
            if _mentions(base, _is_debug):
                out.add('debug-in-base')
            if _mentions(base, _is_label):
                out.add('label-in-base')
    return out


FEATURES = ('stack-in-base', 'stack-in-scope', 'debug-in-base', 'debug-in-scope', 'label-in-base', 'label-in-scope')


class C03(fw.Check):
    ID = 'C03'
    LEAN_MODULES = ['ForML.Props.C03', 'ForML.Props.C03E2E']
    DRIVER = 'drv_c03'
    RULE = ('pipeline expressions over the real operator library (wrap mapper/apply/train/label operators and their '
            'combinations incl. builders shared between slots, payload.MapReduce, payload.Dump, ensemble.FullStack with 2-3 '
            'folds and 1-2 bases as scope-wrapping operator, and a mapper written directly against the public composition API '
            'as documented in docs/workflow/operator.rst) x stateful/stateless symbolic actors x parenthesisations: '
            'hand-picked corpus, every expression up to 2 (quick) / 4 (thorough) leaves over the basic wrap alphabet and up to 3 '
            'over the extended one, all parenthesisations of random 5-leaf sequences, random expressions up to 12 leaves; '
            'a nested-ensemble stream (hand-picked + random: FullStack inside a base / inside the scope of another FullStack, '
            'both, debug operators inside bases and scopes of ensembles, label operators in scopes and bases; in every '
            'parenthesisation with a neighbouring operator; the quick tier must evaluate every one of these six shapes); '
            'operators written against the public composition API (Trunk.extend / Trunk.use with every non-empty subset of '
            'segments supplied, labels rewritten from the train features through an untrained side branch on the train tail, a '
            'trained side branch, an untrained sink on the train tail), each form around mappers / label operators / MapReduce / '
            'ensembles and in random mixtures; '
            'each with a stateful probe mapper appended (reveals the final train features and labels) and a third of them '
            'also bare. A case is the expression (tags renumbered); non-trivial when it has >= 2 leaves or a compound operator. '
            'Implementation = flow.Composition(source, expr): train and apply segment compiled and interpreted, the apply '
            'run loading the states of the train run; compared with the Lean expansion+evaluation, the Lean denotation and '
            'the Python oracle (train output, apply output, multiset of trained states); plus two expansions of the same '
            'expression: no shared node, no shared group, equal group structure. C01 bridge: the train / apply segments of the '
            'real composition (Traversal.each members, subscriptions, groups, trained-elsewhere, Composition.persistent) against '
            'toSegment of the model in a uid/gid/order-independent canonical form; the hypothesis of C03_end_to_end_partial '
            '(bridgeOK) and the model-level chain compile -> reference interpreter = denotation evaluated on every case that '
            'maps the train path.')
    TRUSTED = [
        'symbolic payloads: actors are uninterpreted function symbols over provenance terms (parametricity of the flow layer, DESIGN section 3)',
        'reference interpreter of compiled symbol tables (props/pipegen.interpret) and the asset.State double: the apply run '
        'loads, by gid, the states the train run of the same composition produced (positional persistence is C04)',
        'graph evaluation in the model resolves a stateful worker to the state of its group trainer (same rule in both modes)',
    ]
    ASSUMPTIONS = [
        'uuid4 values are fresh (model: counter)',
        'Segment tail tracing and the topology refusals of atomic/port other than double subscription, stateless training and '
        'fork-train collision are outside Compose.lean (C11/C01); any exception of the real code is reported',
        'Compound._TERMS non-linearity guard: every generated expression uses each operator instance once',
    ]

    # ---- generation ----------------------------------------------------------------------------
    def _cases(self) -> list:
        rng = self.rng
        gen = pg.Gen(rng)
        basic = pg.wrap_leaves(pg.BASIC_WRAPS)  # 8 leaves
        extended = basic + pg.wrap_leaves(['label+mapper']) + [
            pg.wrap_leaf('apply+train', [True, True]), pg.wrap_leaf('label=apply', [True]),
            ['mapreduce', [[0, True], [0, False]], 0], ['debug', [0, False], [0, True]],
            ['stack', [['wrap', NONE, [0, True], [0, True]]], 2, 0, 0, 0, 0],
        ]
        out = [ax.retag(c) for c in CORPUS]
        seen = set()
        # exhaustive depths are not case counts: the framework's escalation (quick tier on a changed source tree: counts x4)
        # adds one level, not two (8^4 x 5 expressions would turn the quick tier into the thorough one)
        deeper = 1 if self.quick and self.escalation > 1 else 0
        for n in range(1, (2 + deeper if self.quick else 4) + 1):
            out.extend(pg.enumerate_exprs(n, basic))
        for n in range(1, (1 + deeper if self.quick else 3) + 1):
            out.extend(pg.enumerate_exprs(n, extended))
        # all parenthesisations of random leaf sequences of length 3..5
        for _ in range(self.n(4, 60)):
            n = rng.choice([3, 4, 5, 5])
            seq = [gen.leaf(1) if rng.random() < 0.5 else rng.choice(extended) for _ in range(n)]
            out.extend(ax.retag(t) for t in pg.parenthesisations(seq))
        # the scope-wrapping operator in every position and parenthesisation of short sequences
        for _ in range(self.n(8, 150)):
            n = rng.choice([2, 3, 3, 4])
            seq = [rng.choice(extended[:-1]) if rng.random() < 0.7 else gen.leaf(1) for _ in range(n)]
            bases = [gen.expr(rng.choice([1, 1, 2]), depth=1, stack=False) for _ in range(rng.choice([1, 1, 2]))]
            seq[rng.randrange(n)] = ['stack', bases, rng.choice([2, 2, 3]), 0, 0, 0, 0]
            out.extend(ax.retag(t) for t in pg.parenthesisations(seq))
        # random larger ones
        for _ in range(self.n(120, 2000)):
            out.append(gen.expr(rng.randint(2, 12)))
        # nested ensembles, debug operators inside ensembles, label operators in scopes (also in the quick tier)
        out.extend(self._nested(gen))
        # operators written against the public composition API (always followed by the probe: see `_api`)
        out.extend(self._api(gen, extended))
        # operators written against the public API, alone and mixed with library operators in every parenthesisation
        out.extend(ax.retag(c) for c in CORPUS_API)
        customs = [['custom', [0, True]], ['custom', [0, False]]]
        for _ in range(self.n(6, 120)):
            n = rng.choice([2, 3, 3, 4])
            seq = [rng.choice(customs) if rng.random() < 0.5 else rng.choice(extended) for _ in range(n)]
            seq[rng.randrange(n)] = rng.choice(customs)
            out.extend(ax.retag(t) for t in pg.parenthesisations(seq))
        out.extend(self._branching(gen, extended))
        cases = []
        for ast in out:
            key = sexp.dumps(ast)
            if key in seen:
                continue
            seen.add(key)
            cases.append(with_probe(ast))
            # a third also bare; thorough: every expression up to 3 leaves also bare, the exhaustive 4-leaf sweep only
            # with the probe (budget)
            bare = (rng.random() < 0.34 or key in getattr(self, '_always_bare', ())) and not ax.has_api(ast)
            if not self.quick:
                nl = ax.leaves(ast)
                bare = nl <= 3 or (bare and (nl != 4 or ax.kinds(ast) != {'wrap'}))
            # never bare with an api operator: `Composition` re-traces the final tails, a side branch left on the last tail
            # of the pipeline legitimately becomes the tail (two of them: `Ambiguous tail`)
            bare = bare and not ax.has_api(ast)
            if bare:
                cases.append(ast)
        for ast in CORPUS_BARE:
            ast = ax.retag(ast)
            if sexp.dumps(ast) not in seen:
                seen.add(sexp.dumps(ast))
                cases.append(ast)
        return cases

    def _api(self, gen, extended) -> list:
        """Operators written against the public composition API (props/c03_api.py): `Trunk.extend` / `Trunk.use` with every
        non-empty subset of (apply, train, label) supplied, labels rewritten from the train-mode features through an
        untrained side branch on the tail of the train segment, a trained side branch, an untrained sink on the train
        tail. Every form right behind and right in front of a stateful mapper / a label operator / a MapReduce / an
        ensemble, in both parenthesisations; then random mixtures with library operators in every parenthesisation.
        Never bare: `Composition` re-traces the final tails, a side branch left on the last tail would become the tail."""
        rng = self.rng
        out = []
        forms = ax.api_leaves()
        mapper = ['wrap', NONE, [0, True], [0, True]]
        around = [mapper, ['wrap', [0, True], NONE, NONE], ['mapreduce', [[0, True], [0, False]], 0], _stk([_w()])]
        for form in forms:
            out.append(ax.retag(['seq', mapper, ['seq', form, mapper]]))
            out.append(ax.retag(['seq', ['seq', mapper, form], mapper]))
            out.append(ax.retag(['seq', form, mapper]))
        for form in forms[:7] + forms[-3:]:
            for other in around[1:]:
                out.append(ax.retag(['seq', ['seq', mapper, form], other]))
                out.append(ax.retag(['seq', other, ['seq', form, mapper]]))
        # api operators inside the bases / the scope of an ensemble
        for form in forms[-3:] + [forms[3], forms[6]]:
            out.append(ax.retag(_stk([_seq(form, _w())])))
            out.append(ax.retag(_stk([_seq(_w(), form)])))
            out.append(ax.retag(_seq(_seq(_w(), form), _stk([_w()]))))
        for _ in range(self.n(40, 500)):
            n = rng.choice([2, 3, 3, 4])
            seq = [rng.choice(forms) if rng.random() < 0.5 else (rng.choice(extended) if rng.random() < 0.6 else gen.leaf(1))
                   for _ in range(n)]
            seq[rng.randrange(n)] = rng.choice(forms)
            trees = list(pg.parenthesisations(seq))
            if len(trees) > 5:
                trees = rng.sample(trees, 5)
            out.extend(ax.retag(t) for t in trees)
        return out

    def _branching(self, gen, extended) -> list:
        """Operators whose sub-graph contains a MULTI-OUTPUT worker (split -> arms on output ports 0..n-1 -> merge, see
        props/c03_api.py) alone, between mappers, and in every position that gets copied: in the scope of an ensemble
        (left of `>> FullStack`), inside a base, both, and behind an ensemble; random mixtures in every parenthesisation."""
        rng = self.rng
        out = []

        def br():
            return ax.branch_leaf(rng)

        fixed = ['api', 'branch', 0, 2, [[0, 0], [0, 1]], 0]
        for form in (fixed, ['api', 'branch', 0, 3, [[0, 2], [0, 0]], 0], ['api', 'branch', 0, 2, [[0, 1]], 0]):
            out.append(form)
            out.append(_seq(_w(), form, _w()))
            out.append(_seq(form, _stk([_w()])))
            out.append(_seq(_w(), form, _stk([_w()])))
            out.append(['seq', _w(), ['seq', form, _stk([_w()])]])
            out.append(_stk([form]))
            out.append(_stk([_seq(_w(), form)]))
            out.append(_stk([_seq(form, _w()), _w(False)], 3))
            out.append(_seq(_stk([_w()]), form))
            out.append(_seq(form, _stk([form])))
            out.append(_seq(_lab(), form, _stk([_w()])))
        for _ in range(self.n(16, 300)):
            r = rng.random()
            other = (lambda: rng.choice(extended[:-1]) if rng.random() < 0.6 else gen.leaf(1))
            if r < 0.4:  # in the scope of an ensemble
                items = [br(), _stk([gen.expr(rng.choice([1, 2]), depth=1, stack=False)], rng.choice([2, 2, 3]))]
                if rng.random() < 0.6:
                    items.insert(rng.randrange(2), other())
            elif r < 0.75:  # in a base
                base = rng.choice([br(), _seq(other(), br()), _seq(br(), other())])
                bases = [base] + ([gen.expr(1, depth=1, stack=False)] if rng.random() < 0.3 else [])
                items = [_stk(bases, rng.choice([2, 2, 3]))]
                if rng.random() < 0.5:
                    items.insert(0, other())
            else:
                items = [br() if rng.random() < 0.5 else other() for _ in range(rng.choice([2, 3]))]
                items[rng.randrange(len(items))] = br()
            trees = list(pg.parenthesisations(items))
            if len(trees) > 3:
                trees = rng.sample(trees, 3)
            out.extend(trees)
        return [ax.retag(t) for t in out]

    def _nested(self, gen) -> list:
        """Hand-picked nested ensembles (each also bare) + random ones: an inner ensemble in a base or in the scope of an
        outer one, with random stack-free neighbours (incl. debug and label operators), 2-3 folds, 1-2 bases, in every
        parenthesisation with an optional operator before / after. Oversize provenance terms are re-drawn."""
        rng = self.rng
        out = [ax.retag(c) for c in CORPUS_NESTED]
        self._always_bare = {sexp.dumps(c) for c in out}
        self._spec_cache = {}

        def chain(n):
            return gen.expr(n, depth=1, stack=False)

        def spice():
            r = rng.random()
            if r < 0.3:
                return _dbg()
            if r < 0.6:
                return rng.choice([_lab(True), _lab(False), pg.wrap_leaf('label+mapper', [True, True])])
            return chain(1)

        def stack(bases, folds=None):
            return _stk(bases, folds or rng.choice([2, 2, 2, 3]))

        def inner():
            bases = [chain(rng.choice([1, 1, 2]))]
            if rng.random() < 0.25:
                bases.append(spice())
            return stack(bases)

        def in_base():
            core = inner()
            r = rng.random()
            if r < 0.35:
                base = core
            elif r < 0.6:
                base = _seq(spice(), core)
            elif r < 0.85:
                base = _seq(core, spice())
            else:
                base = ['seq', spice(), ['seq', core, chain(1)]]
            bases = [base]
            if rng.random() < 0.3:
                bases.insert(rng.randrange(2), chain(1))
            return stack(bases)

        def in_scope():
            first = inner()
            r = rng.random()
            if r < 0.3:
                scope = first
            elif r < 0.55:
                scope = _seq(spice(), first)
            elif r < 0.8:
                scope = _seq(first, spice())
            else:
                scope = ['seq', spice(), ['seq', first, spice()]]
            second = in_base() if rng.random() < 0.2 else stack([chain(rng.choice([1, 1, 2]))] + ([spice()] if rng.random() < 0.2 else []))
            return ['seq', scope, second]

        def spiced_flat():
            # debug / label operators in the scope and in the bases of a single ensemble
            bases = [rng.choice([_seq(spice(), chain(1)), _seq(chain(1), spice()), spice()])]
            if rng.random() < 0.3:
                bases.append(chain(1))
            return ['seq', _seq(spice(), chain(1)) if rng.random() < 0.5 else spice(), stack(bases)]

        want = self.n(36, 500)
        tries = 0
        while want and tries < 40 * self.n(36, 500):
            tries += 1
            core = rng.choice([in_base, in_base, in_scope, in_scope, spiced_flat])()
            items = [core]
            if rng.random() < 0.4:
                items.insert(0, spice())
            if rng.random() < 0.4:
                items.append(spice())
            trees = [ax.retag(t) for t in pg.parenthesisations(items)]
            specs = {sexp.dumps(with_probe(t)): self._oracle_canon(with_probe(t)) for t in trees}
            if any(v is None for v in specs.values()):
                continue
            self._spec_cache.update(specs)
            out.extend(trees)
            want -= 1
        return out

    # ---- one batch: implementation, model, oracle ----------------------------------------------
    @staticmethod
    def _oracle_canon(ast):
        """(train, apply, label, sorted states) canonical strings of the oracle, or None when oversize."""
        d = oracle(ast)
        interner = pg.Interner()
        size = interner.size(d.train) + interner.size(d.apply) + sum(interner.size(s) for _, s in d.states)
        if size > SIZE_LIMIT:
            return None
        return {'train': _canon(d.train), 'apply': _canon(d.apply), 'label': _canon(d.label),
                'states': sorted(sexp.dumps([t, pg.to_sexp(s)]) for t, s in d.states)}

    @staticmethod
    def _model_fields(answer: str):
        m = sexp.loads(answer)
        if not isinstance(m, list) or not m or m[0] != 'ok':
            return {'error': m}
        f = {k: v for k, v in (x for x in m[1:])}
        out = {'train': sexp.dumps(f['train']), 'apply': sexp.dumps(f['apply']), 'label': sexp.dumps(f['label']),
               'states': sorted(sexp.dumps(s) for s in f['states']) if isinstance(f['states'], list) else f['states']}
        if 'stats' in f:
            out['stats'] = {k: int(v) for k, v in f['stats']}
            out['groups'] = sorted(tuple(int(i) for i in g) for g in f.get('groupsig', []))
        return out

    def _compare_segments(self, ast, real, mseg) -> bool:
        """C01 bridge: the model's `toSegment` of the composition against the segments of the real composition (canonical
        form of props/c03_bridge.py), C01's decidable side conditions on the model's segments and the model-level chain
        compile -> reference interpreter = denotation."""
        ok = True
        case = {'expr': ast}
        rseg = real.get('segments') if isinstance(real, dict) else None
        if rseg is None:
            return True
        if 'export_error' in rseg:
            raise fw.MachineryError('segment exporter failed on ' + sexp.dumps(ast) + ': ' + rseg['export_error'])
        if 'error' in mseg:
            self.diverge('model refuses the composition (bridge)', case, 'ok', mseg['error'])
            return False
        # an expression that leaves the train path untouched ends the train segment in the `Future` proxying the first
        # output port of the (two-output) label extractor: not a `(head, tail)` of workers, outside C01's `Segment`
        for name in (('train', 'apply') if ax.maps_train(ast) else ('apply',)):
            for key in ('nodes', 'head', 'tail', 'groups', 'elsewhere', 'dangling'):
                if rseg[name][key] != mseg[name][key]:
                    self.diverge(f'{name} segment of flow.Composition vs toSegment of the model: {key}', case,
                                 str(rseg[name][key])[:300], str(mseg[name][key])[:300])
                    ok = False
        if rseg['persistent'] != mseg['persistent']:
            self.diverge('Composition.persistent vs persistentOf of the model (groups in list order)', case,
                         rseg['persistent'], mseg['persistent'])
            ok = False
        if ax.maps_train(ast):
            bad = [n for n, b in mseg['checks'].items() if not b]
            if bad:
                self.diverge('C01 side conditions (wf / connected / assetsOK) fail on the segments of the model', case, None, bad)
                ok = False
            elif not mseg['agree']:
                self.diverge('model: compiled tables of the two segments do not evaluate to the Lean denotation (C03_end_to_end)',
                             case, None, 'agree=false')
                ok = False
        self._bridge_count = getattr(self, '_bridge_count', 0) + 1
        return ok

    def _compare(self, ast, spec, real, mrun, mden):
        """Appends divergences / violations for one case; returns True when everything agreed."""
        ok = True
        case = {'expr': ast}
        if isinstance(real, tuple) and real and real[0] == 'exception':
            site = real[3] if len(real) > 3 else '?'
            self.violate(f'composition of a library expression raised {real[1]} in {site}: {real[2]}', case,
                         f'exception-{real[1]}@{site}')
            return False
        # model <-> implementation
        if 'error' in mrun:
            self.diverge('model refuses an expression the implementation composes', case, 'ok', mrun['error'])
            ok = False
        else:
            for part in ('train', 'apply', 'states'):
                if real[part] != mrun[part]:
                    self.diverge(f'{part} of the expanded graphs', case, real[part][:600] if part != 'states' else real[part][:6],
                                 mrun[part][:600] if part != 'states' else mrun[part][:6])
                    ok = False
            # (an API-level operator has no orphan prototype worker: its group sizes differ from the library operator's)
            if 'custom' not in ax.kinds(ast) and real['indep']['groups1'] != mrun['groups']:
                self.diverge('group structure of one expansion (tag, members, trained)', case, real['indep']['groups1'], mrun['groups'])
                ok = False
            # Lean denotation <-> Lean graph evaluation (what C03_coherence states), incl. the label path
            for part in ('train', 'apply', 'label', 'states'):
                if mrun[part] != mden[part]:
                    self.diverge(f'model: {part} of the expanded graph differs from the Lean denotation (theorem C03_coherence)',
                                 case, None, {'graph': str(mrun[part])[:400], 'denote': str(mden[part])[:400]})
                    ok = False
        # Lean denotation <-> Python oracle (two independent transcriptions of the documentation)
        for part in ('train', 'apply', 'label', 'states'):
            if mden.get(part) != spec[part]:
                self.diverge(f'Lean denotation and Python oracle disagree on {part}', case, str(spec[part])[:400], str(mden.get(part))[:400])
                ok = False
        return self._compare_oracle(ast, spec, real) and ok

    def _compare_oracle(self, ast, spec, real) -> bool:
        """Oracle on the real code (outputs, states, independence of expansions, faithfulness of segment copies)."""
        ok = True
        case = {'expr': ast}
        if isinstance(real, tuple) and real and real[0] == 'exception':
            site = real[3] if len(real) > 3 else '?'
            self.violate(f'composition of a library expression raised {real[1]} in {site}: {real[2]}', case,
                         f'exception-{real[1]}@{site}')
            return False
        if real.get('copy'):
            self.violate(f'Segment.copy of a segment of the expanded expression has another topology than the original '
                         f'(publisher output port / subscriber port of a subscription) ({ax.shape(ast)})', case, 'copy-topology',
                         {'impl': str(real['copy'])[:500], 'spec': 'the edges of the original'})
            ok = False
        for part, what in (('train', 'train-mode output'), ('apply', 'apply-mode output'), ('states', 'set of trained states')):
            if real[part] != spec[part]:
                self.violate(f'{what} of the composed pipeline differs from the denotation of the expression ({ax.shape(ast)})',
                             case, f'coherence-{part}', {'impl': str(real[part])[:500], 'spec': str(spec[part])[:500]})
                ok = False
        ind = real['indep']
        if ind['shared_nodes'] or ind['shared_groups']:
            self.violate(f'two expansions of the same expression share {ind["shared_nodes"]} nodes / {ind["shared_groups"]} groups',
                         case, 'expansions-share')
            ok = False
        if ind['groups1'] != ind['groups2']:
            self.violate('two expansions of the same expression have different group structure', case, 'expansions-differ',
                         {'first': ind['groups1'], 'second': ind['groups2']})
            ok = False
        return ok

    def _evaluate(self, asts: list, account: bool = True) -> list:
        if not hasattr(self, '_feature_count'):
            self._feature_count = {}
        specs, kept = [], []
        oversize = 0
        cache = getattr(self, '_spec_cache', {})
        for ast in asts:
            spec = cache.pop(sexp.dumps(ast), None) or self._oracle_canon(ast)
            if spec is None:
                oversize += 1
                continue
            specs.append(spec)
            kept.append(ast)
        if oversize:
            self.notes.append(f'{oversize} generated expressions skipped: provenance terms above {SIZE_LIMIT} nodes')
        reals = pg.run_batch(impl, kept)
        lines = []
        modelled = [ast for ast in kept if not ax.has_branch(ast)]
        for ast in modelled:
            lines.append(sexp.dumps(['run', ax.to_library(ast)]))
            lines.append(sexp.dumps(['denote', ax.to_library(ast)]))
            lines.append(sexp.dumps(['bridge', [br.SRC_APPLY, br.SRC_TRAIN, br.SRC_LABEL], ax.to_library(ast)]))
        answers = self.model(lines)
        verdicts = []
        i = -1
        for ast, spec, real in zip(kept, specs, reals):
            if ax.has_branch(ast):
                # multi-output operators are outside the Lean expansion model: oracle + copy check on the real code
                self._branch_count = getattr(self, '_branch_count', 0) + 1
                if account:
                    self.case(sexp.dumps(ast), f'leaves={min(ax.leaves(ast), 7)} multi-output ' + '+'.join(sorted(ax.kinds(ast))),
                              nontrivial=True)
                verdicts.append(self._compare_oracle(ast, spec, real))
                continue
            i += 1
            mrun = self._model_fields(answers[3 * i])
            mden = self._model_fields(answers[3 * i + 1])
            mseg = br.model_segments(sexp.loads(answers[3 * i + 2]))
            if account:
                kinds = ax.kinds(ast)
                nl = ax.leaves(ast)
                feats = features(ast)
                for f in feats:
                    self._feature_count[f] = self._feature_count.get(f, 0) + 1
                bucket = f'leaves={nl if nl <= 6 else "7+"} ' + '+'.join(sorted(k for k in kinds)) + ''.join(
                    ' ' + f for f in FEATURES if f in feats)
                self.case(sexp.dumps(ast), bucket, nontrivial=nl >= 2 or bool(kinds - {'wrap'}),
                          sample={'expr': sexp.dumps(ast), 'train': spec['train'][:200]} if nl >= 3 else None)
            verdict = self._compare(ast, spec, real, mrun, mden)
            verdicts.append(self._compare_segments(ast, real, mseg) and verdict)
        return verdicts

    def _malformed(self):
        lines = [sexp.dumps(['run', ast]) for ast, _, _ in MALFORMED]
        answers = self.model(lines)
        reals = pg.run_batch(impl, [m[0] for m in MALFORMED], procs=1)
        for (ast, exc, err), ans, real in zip(MALFORMED, answers, reals):
            self.case(('malformed', sexp.dumps(ast)), 'refused', nontrivial=False)
            m = sexp.loads(ans)
            got = real[1] if isinstance(real, tuple) and real and real[0] == 'exception' else 'ok'
            if got != exc or m != ['error', err]:
                self.diverge('refused composition', {'expr': ast}, got, m)

    def _selftest(self):
        """Planted divergence: the comparator must notice when the model / oracle are given another expression than
        the implementation (guards against a vacuous comparison)."""
        ast = with_probe(['seq', ['wrap', [1, True], NONE, NONE], ['wrap', NONE, [2, True], [2, True]]])
        planted = [
            with_probe(['seq', ['wrap', [1, True], NONE, NONE], ['wrap', NONE, [2, False], [2, False]]]),  # stateless mapper
            with_probe(['seq', ['wrap', NONE, [2, True], [2, True]], ['wrap', [1, True], NONE, NONE]]),  # swapped order
        ]
        with pg.isolated():
            real = impl(ast)
        for other in planted:
            answers = self.model([sexp.dumps(['run', other]), sexp.dumps(['denote', other])])
            probe = C03(self.tier, self.seed)
            probe._compare(ast, self._oracle_canon(other), real, self._model_fields(answers[0]), self._model_fields(answers[1]))
            if not probe.divergences or not probe.violations:
                raise fw.MachineryError('planted divergence not detected by the comparator: ' + sexp.dumps(other))
        self.notes.append('planted-divergence self-test: 2 wrong model/oracle expressions flagged by the comparator')

    def correspondence(self):
        pg.quiet()
        self._selftest()
        cases = self._cases()
        self._evaluate(cases)
        counts = {f: self._feature_count.get(f, 0) for f in FEATURES}
        self.notes.append('nested-ensemble stream, cases evaluated per shape: ' + ', '.join(f'{f}={n}' for f, n in counts.items()))
        self.notes.append(f'C01 bridge: segments of {getattr(self, "_bridge_count", 0)} real compositions compared with toSegment of the model')
        self.notes.append(f'multi-output stream: {getattr(self, "_branch_count", 0)} expressions with a multi-output worker '
                          '(alone / in scopes and bases of ensembles) evaluated against the oracle and the copy check')
        if getattr(self, '_branch_count', 0) < 30:
            raise fw.MachineryError('generator did not reach operators with multi-output workers')
        thin = [f for f, n in counts.items() if n < 8]
        if thin:
            raise fw.MachineryError(f'generator did not reach the shapes {thin} (nested ensembles / debug / label operators in ensembles)')
        self._malformed()
        bad = sexp.loads(self.model(['(run (wrap none))'])[0])
        if bad != 'bad-op':
            self.diverge('driver must reject what it cannot parse', '(run (wrap none))', None, bad)
        self._minimise()

    def _minimise(self):
        """Shrink the witnesses of the violations found (one per signature is reported anyway)."""
        shrunk, done = [], set()
        for v in self.violations:
            if v.signature in done:
                continue
            done.add(v.signature)
            if isinstance(v.witness, dict) and 'expr' in v.witness and v.signature.startswith(('coherence-', 'expansions-', 'exception-', 'copy-')):
                small = self._shrink(v.witness['expr'], v.signature)
                f = self._fails(small)
                detail = {'impl': str(f[1])[:500], 'spec': str(f[2])[:500]} if f else v.detail
                shrunk.append(fw.Violation(v.what.split(' (')[0] + f' ({ax.shape(small)})', {'expr': small}, v.signature, detail))
            else:
                shrunk.append(v)
        self.violations[:] = shrunk

    # ---- failing-input search -------------------------------------------------------------------
    @staticmethod
    def _subtrees(ast):
        """Smaller candidates: a child instead of a seq, fewer bases/folds/mappers, dropped slots."""
        k = ast[0]
        if k == 'seq':
            yield ast[1]
            yield ast[2]
            for l in C03._subtrees(ast[1]):
                yield ['seq', l, ast[2]]
            for r in C03._subtrees(ast[2]):
                yield ['seq', ast[1], r]
        elif k == 'stack':
            for b in ast[1]:
                yield b
            if len(ast[1]) > 1:
                for i in range(len(ast[1])):
                    yield ['stack', ast[1][:i] + ast[1][i + 1:]] + ast[2:]
            if ast[2] > 2:
                yield ['stack', ast[1], ast[2] - 1] + ast[3:]
            for i, b in enumerate(ast[1]):
                for s in C03._subtrees(b):
                    yield ['stack', ast[1][:i] + [s] + ast[1][i + 1:]] + ast[2:]
        elif k == 'mapreduce':
            if len(ast[1]) > 1:
                for i in range(len(ast[1])):
                    yield ['mapreduce', ast[1][:i] + ast[1][i + 1:], ast[2]]
        elif k == 'wrap':
            filled = [i for i in (1, 2, 3) if ast[i] != NONE]
            if len(filled) > 1:
                for i in filled:
                    yield ast[:i] + [NONE] + ast[i + 1:]

    def _fails(self, ast) -> typing.Optional[tuple]:
        """Oracle on the real code for one expression (in-process): (part, impl, spec) of the first mismatch."""
        ast = probed(ast)
        spec = self._oracle_canon(ast)
        if spec is None:
            return None
        with pg.isolated():
            real = impl(ast)
        if isinstance(real, tuple) and real and real[0] == 'exception':
            return f'exception-{real[1]}@{real[3]}', real[2][:200], None
        for part in ('train', 'apply', 'states'):
            if real[part] != spec[part]:
                return 'coherence-' + part, real[part], spec[part]
        if real.get('copy'):
            return 'copy-topology', real['copy'], 'the edges of the original'
        ind = real['indep']
        if ind['shared_nodes'] or ind['shared_groups']:
            return 'expansions-share', ind, None
        if ind['groups1'] != ind['groups2']:
            return 'expansions-differ', ind, None
        return None

    def _shrink(self, ast, signature):
        cur = ast
        progress = True
        seen = {sexp.dumps(cur)}
        while progress:
            progress = False
            for cand in self._subtrees(cur):
                cand = probed(cand)  # (re-attaching the closing mapper must not make the candidate grow: no cycles)
                key = sexp.dumps(cand)
                if key in seen or ax.leaves(cand) > ax.leaves(cur):
                    continue
                seen.add(key)
                f = self._fails(cand)
                if f and f[0] == signature:
                    cur, progress = cand, True
                    break
        return ax.retag(cur)

    def search(self, reason):
        """Widen around the diverging expressions: their sub-expressions and neighbours in every parenthesisation,
        oracle on the real code; every violation found so far is shrunk by subtree replacement."""
        seeds = [d.case['expr'] for d in self.divergences if isinstance(d.case, dict) and 'expr' in d.case][:30]
        tried = 0
        found = []
        for ast in seeds:
            cands = [ast] + list(itertools.islice(self._subtrees(ast), 40))
            for cand in cands:
                tried += 1
                f = self._fails(cand)
                if f:
                    found.append((cand, f))
                    break
        if not self.quick or not found:
            # fresh seeded sweep over everything small
            basic = pg.wrap_leaves(pg.BASIC_WRAPS)
            for n in (1, 2, 3):
                for ast in pg.enumerate_exprs(n, basic):
                    if tried > 1500 or found:
                        break
                    tried += 1
                    f = self._fails(with_probe(ast))
                    if f:
                        found.append((with_probe(ast), f))
        for ast, f in found[:5]:
            small = self._shrink(ast, f[0])
            f2 = self._fails(small) or f
            self.violate(f'{f2[0]}: composed pipeline differs from the denotation of {ax.shape(small)}', {'expr': small}, f2[0],
                         {'impl': str(f2[1])[:500], 'spec': str(f2[2])[:500]})
        self.notes.append(f'failing-input search ({reason}): {tried} expressions around {len(seeds)} diverging cases')

    def replay_finding(self, entry):
        w = entry['witness']
        if not isinstance(w, dict) or 'expr' not in w:
            return None
        pg.quiet()
        f = self._fails(w['expr'])
        if f is None:
            return None
        return fw.Violation(f'{f[0]}: composed pipeline differs from the denotation of {ax.shape(w["expr"])}', w, f[0],
                            {'impl': str(f[1])[:500], 'spec': str(f[2])[:500]})


if __name__ == '__main__':
    raise SystemExit(fw.run(C03))
