"""Shared DSL statement generator (foundation of C06, C07, C08, C09, C14).

Everything is generated as a plain **AST** (nested tuples, `sexp.dumps`-able, hashable, structurally comparable)
in the wire format documented in lean/ForML/Model/Dsl.lean:

    kind     'boolean'|'integer'|'float'|'decimal'|'string'|'date'|'timestamp'
             ('array', k) | ('map', k, v) | ('struct', (name, k), ...)
    lit      ('int', n) | ('bool', b) | ('str', s) | ('float', repr)
    feature  ('lit', lit) | ('elem', source, name) | ('alias', feature, name) | ('expr', op, *features)
             ('cast', feature, kind) | ('window', feature, (features...), (orderings...))
    ordering ('ord', feature, 'asc'|'desc')
    source   ('table', name, ((fname, kind), ...)) | ('ref', source, name) | ('join', l, r, jkind, cond|None)
             ('set', l, r, skind)
             ('query', source, (sel...), pre|None, (grp...), post|None, (ord...), None|('rows', count, offset))

and turned into **real forml objects** by a `Builder` that only uses the public DSL API (declarative
`dsl.Schema` classes, `origin[name]`, python operators / `function.*`, `.select/.where/...`, `.reference`,
`.inner_join`, `.union`, ...).  `to_ast(obj)` reads a real object back into an AST.

    CATALOG                      the 3-table catalog (ASTs): Student, School, Campus (= twin of School)
    Builder(via='chain'|'ctor', ops='operator'|'class', elem='getitem'|'ctor', proxy=False)
        .build(ast)              AST -> real object (raises what forml raises); tables are cached per Builder,
                                 so two Builders rebuild "the same structure twice" from scratch
    to_ast(obj)                  real Source/Feature/kind/Ordering -> AST
    Gen(rng).statement(depth)    a conforming statement (typed generation, every clause optional)
    Gen(rng).feature(origins, want, depth)   a conforming operable of a kind class
    leaf_mutations(ast, rng)     [(label, mutated_ast)] : exactly one leaf changed, type-preserving where possible
    violations(ast, rng)         [(rule, where, mutated_ast)] : exactly one documented grammar rule violated
    well_formed(ast)             (ok, rule) : the documented grammar evaluated on the AST alone (spec-shaped oracle)
    schema_of(ast)               [(name, kind)] of a statement AST per the documented schema rule
    with_let(op_line)            wrap a protocol line in `(let ((T0 <table>)...) ...)` to keep lines short

Nothing here imports forml at module import time (the framework puts $FORML_REPO on sys.path first).
"""
from __future__ import annotations

import datetime
import itertools
import types
import typing

PRIMITIVES = ('boolean', 'integer', 'float', 'decimal', 'string', 'date', 'timestamp')
NUMERIC = ('integer', 'float', 'decimal')

COMPARISON = ('lt', 'le', 'gt', 'ge', 'eq', 'ne')
POSTFIX = ('isnull', 'notnull')
LOGICAL2 = ('and', 'or')
ARITH = ('add', 'sub', 'mul', 'div', 'mod')
MATH1 = ('abs', 'ceil', 'floor')
AGG_NUM = ('avg', 'max', 'min', 'sum')
AGGREGATES = ('count',) + AGG_NUM
OPS = COMPARISON + POSTFIX + LOGICAL2 + ('not',) + ARITH + MATH1 + AGGREGATES + ('year', 'rownumber')
ARITY = {**{o: 2 for o in COMPARISON + LOGICAL2 + ARITH}, **{o: 1 for o in POSTFIX + ('not',) + MATH1 + AGGREGATES + ('year',)},
         'rownumber': 0}
OP_CLASS = {
    'lt': 'LessThan', 'le': 'LessEqual', 'gt': 'GreaterThan', 'ge': 'GreaterEqual', 'eq': 'Equal', 'ne': 'NotEqual',
    'isnull': 'IsNull', 'notnull': 'NotNull', 'and': 'And', 'or': 'Or', 'not': 'Not', 'add': 'Addition',
    'sub': 'Subtraction', 'mul': 'Multiplication', 'div': 'Division', 'mod': 'Modulus', 'abs': 'Abs', 'ceil': 'Ceil',
    'floor': 'Floor', 'count': 'Count', 'avg': 'Avg', 'max': 'Max', 'min': 'Min', 'sum': 'Sum', 'year': 'Year',
    'rownumber': 'RowNumber',
}
CLASS_OP = {v: k for k, v in OP_CLASS.items()}
JOIN_KINDS = ('inner', 'left', 'right', 'full', 'cross')
SET_KINDS = ('union', 'intersection', 'difference')

# ---- the catalog ---------------------------------------------------------------------------------------------
#: (attribute key, field name, kind): `score` is declared as attribute `points` with an explicit name
_STUDENT = (('id', 'id', 'integer'), ('name', 'name', 'string'), ('points', 'score', 'float'), ('level', 'level', 'integer'),
            ('active', 'active', 'boolean'), ('born', 'born', 'date'), ('school', 'school', 'integer'))
_SCHOOL = (('id', 'id', 'integer'), ('name', 'name', 'string'), ('rank', 'rank', 'integer'))
_KEYS = {'Student': _STUDENT, 'School': _SCHOOL, 'Campus': _SCHOOL}


def _table(name: str):
    return ('table', name, tuple((n, k) for _, n, k in _KEYS[name]))


STUDENT, SCHOOL, CAMPUS = _table('Student'), _table('School'), _table('Campus')
CATALOG = (STUDENT, SCHOOL, CAMPUS)
TWIN = {'School': 'Campus', 'Campus': 'School'}


def with_let(line) -> tuple:
    """`line` may use the atoms $Student/$School/$Campus instead of the table ASTs (see `short`)."""
    return ('let', tuple((t[1], t) for t in CATALOG), line)


def short(ast):
    """Replace the catalog tables inside an AST by `$Name` atoms (inverse of the `let` expansion)."""
    if isinstance(ast, tuple):
        if ast in CATALOG:
            return '$' + ast[1]
        return tuple(short(a) for a in ast)
    return ast


# ---- AST -> real objects --------------------------------------------------------------------------------------
class Builder:
    """Interprets an AST through the public DSL API."""

    def __init__(self, via: str = 'chain', ops: str = 'operator', elem: str = 'getitem', proxy: bool = False):
        assert via in ('chain', 'ctor') and ops in ('operator', 'class') and elem in ('getitem', 'ctor')
        self.via, self.ops, self.elem, self.proxy = via, ops, elem, proxy
        self._tables: dict = {}

    # kinds / literals
    def kind(self, k):
        from forml.io import dsl

        if isinstance(k, str):
            return {'boolean': dsl.Boolean, 'integer': dsl.Integer, 'float': dsl.Float, 'decimal': dsl.Decimal,
                    'string': dsl.String, 'date': dsl.Date, 'timestamp': dsl.Timestamp}[k]()
        if k[0] == 'array':
            return dsl.Array(self.kind(k[1]))
        if k[0] == 'map':
            return dsl.Map(self.kind(k[1]), self.kind(k[2]))
        if k[0] == 'struct':
            return dsl.Struct(**{n: self.kind(v) for n, v in k[1:]})
        raise ValueError(f'bad kind {k!r}')

    @staticmethod
    def value(lit):
        tag, v = lit
        if tag == 'int':
            return int(v)
        if tag == 'bool':
            return bool(v)
        if tag == 'str':
            return str(v)
        if tag == 'float':
            return float(v)
        raise ValueError(f'bad literal {lit!r}')

    # sources
    def table(self, ast):
        from forml.io import dsl

        _, name, fields = ast
        key = (name, fields)
        if key not in self._tables:
            keys = {n: k for k, n, _ in _KEYS.get(name, ())} if tuple((n, k) for _, n, k in _KEYS.get(name, ())) == fields else {}
            namespace = {}
            for fname, kind in fields:
                attr = keys.get(fname, fname)
                namespace[attr] = dsl.Field(self.kind(kind), name=fname if attr != fname else None)
            self._tables[key] = types.new_class(name, (dsl.Schema,), {}, lambda ns: ns.update(namespace))
        return self._tables[key]

    def source(self, ast):
        from forml.io import dsl

        tag = ast[0]
        if tag == 'table':
            return self.table(ast)
        if tag == 'ref':
            return self.source(ast[1]).reference(ast[2])
        if tag == 'join':
            _, l, r, kind, cond = ast
            left, right = self.source(l), self.source(r)
            condition = None if cond is None else self.feature(cond, toplevel=True)
            if self.via == 'chain' and (kind == 'cross') == (condition is None):
                if kind == 'cross':
                    return left.cross_join(right)
                return getattr(left, f'{kind}_join')(right, condition)
            return dsl.Join(left, right, dsl.Join.Kind(kind), condition)
        if tag == 'set':
            _, l, r, kind = ast
            return getattr(self.source(l), kind)(self.source(r))
        if tag == 'query':
            _, src, sel, pre, grp, post, order, rows = ast
            source = self.source(src)
            selection = [self.feature(f, toplevel=True) for f in sel]
            prefilter = None if pre is None else self.feature(pre, toplevel=True)
            grouping = [self.feature(f, toplevel=True) for f in grp]
            postfilter = None if post is None else self.feature(post, toplevel=True)
            ordering = [(self.feature(o[1], toplevel=True), o[2]) for o in order]
            if self.via == 'ctor' or not isinstance(source, dsl.Queryable) or isinstance(source, dsl.Query):
                return dsl.Query(source, selection, prefilter, grouping, postfilter, ordering,
                                 None if rows is None else dsl.Rows(rows[1], rows[2]))
            query = source.query
            if selection:
                query = query.select(*selection)
            if prefilter is not None:
                query = query.where(prefilter)
            if grouping:
                query = query.groupby(*grouping)
            if postfilter is not None:
                query = query.having(postfilter)
            if ordering:
                query = query.orderby(*ordering)
            if rows is not None:
                query = query.limit(rows[1], rows[2])
            return query
        raise ValueError(f'bad source {ast!r}')

    # features
    def feature(self, ast, toplevel: bool = False):
        """`toplevel`: the feature is handed to a statement clause (a comparison proxy is left as the operators
        return it only there and only with `proxy=True`)."""
        from forml.io import dsl
        from forml.io.dsl import function

        tag = ast[0]
        if tag == 'lit':
            return dsl.Literal(self.value(ast[1]))
        if tag == 'elem':
            origin = self.source(ast[1])
            if self.elem == 'ctor':
                return dsl.Element(origin, ast[2])
            return origin[ast[2]]
        if tag == 'alias':
            return self.feature(ast[1]).alias(ast[2])
        if tag == 'cast':
            return function.Cast(self.feature(ast[1]), self.kind(ast[2]))
        if tag == 'window':
            _, fn, partition, order = ast
            func = function.RowNumber() if fn == ('expr', 'rownumber') else self.feature(fn)
            return func.over([self.feature(p) for p in partition], [(self.feature(o[1]), o[2]) for o in order])
        if tag == 'expr':
            op, args = ast[1], [self.feature(a) for a in ast[2:]]
            if op == 'rownumber':
                return function.RowNumber()
            result = None
            if self.ops == 'operator' and len(args) == ARITY[op]:
                import operator as o

                table = {'lt': o.lt, 'le': o.le, 'gt': o.gt, 'ge': o.ge, 'eq': o.eq, 'ne': o.ne, 'and': o.and_,
                         'or': o.or_, 'not': o.invert, 'add': o.add, 'sub': o.sub, 'mul': o.mul, 'div': o.truediv,
                         'mod': o.mod}
                # python tries the reflected method of the right operand first when its type is a proper subclass of
                # the left one's (Column < Element): `elem > col` would come out as `col < elem`; use the class then
                swapped = len(args) == 2 and type(args[1]) is not type(args[0]) and issubclass(type(args[1]), type(args[0]))
                if op in table and not swapped and all(isinstance(a, dsl.Operable) for a in args):
                    result = table[op](*args)
                    if type(result).__name__ == 'Pythonic' and not (self.proxy and toplevel):
                        result = result.operable
            if result is None:
                result = getattr(function, OP_CLASS[op])(*args)
            return result
        raise ValueError(f'bad feature {ast!r}')

    def build(self, ast):
        """Dispatch on the sort of the AST (kinds are strings or array/map/struct tuples)."""
        if isinstance(ast, str) or ast[0] in ('array', 'map', 'struct'):
            return self.kind(ast)
        if ast[0] in ('table', 'ref', 'join', 'set', 'query'):
            return self.source(ast)
        if ast[0] == 'ord':
            from forml.io import dsl

            return dsl.Ordering(self.feature(ast[1]), ast[2])
        return self.feature(ast)


# ---- real objects -> AST ---------------------------------------------------------------------------------------
def kind_ast(kind):
    from forml.io import dsl

    if isinstance(kind, dsl.Array):
        return ('array', kind_ast(kind.element))
    if isinstance(kind, dsl.Map):
        return ('map', kind_ast(kind.key), kind_ast(kind.value))
    if isinstance(kind, dsl.Struct):
        return ('struct',) + tuple((e.name, kind_ast(e.kind)) for e in kind)
    name = type(kind).__name__.lower()
    if name not in PRIMITIVES:
        raise ValueError(f'not a kind: {kind!r}')
    return name


def lit_ast(value):
    if isinstance(value, bool):
        return ('bool', value)
    if isinstance(value, int):
        return ('int', value)
    if isinstance(value, str):
        return ('str', value)
    if isinstance(value, float):
        return ('float', repr(value))
    raise ValueError(f'literal outside the generated alphabet: {value!r}')


def to_ast(obj):
    """Read a real DSL object back (structure as stored by the constructors)."""
    from forml.io import dsl
    from forml.io.dsl import function

    if isinstance(obj, dsl.Any):
        return kind_ast(obj)
    if isinstance(obj, dsl.Table):
        return ('table', obj.schema.__name__, tuple((f.name, kind_ast(f.kind)) for f in obj.schema))
    if isinstance(obj, dsl.Reference):
        return ('ref', to_ast(obj.instance), obj.name)
    if isinstance(obj, dsl.Join):
        return ('join', to_ast(obj.left), to_ast(obj.right), obj.kind.value,
                None if obj.condition is None else to_ast(obj.condition))
    if isinstance(obj, dsl.Set):
        return ('set', to_ast(obj.left), to_ast(obj.right), obj.kind.value)
    if isinstance(obj, dsl.Query):
        return ('query', to_ast(obj.source), tuple(to_ast(f) for f in obj.selection),
                None if obj.prefilter is None else to_ast(obj.prefilter), tuple(to_ast(f) for f in obj.grouping),
                None if obj.postfilter is None else to_ast(obj.postfilter), tuple(to_ast(o) for o in obj.ordering),
                None if obj.rows is None else ('rows', obj.rows.count, obj.rows.offset))
    if isinstance(obj, dsl.Ordering):
        return ('ord', to_ast(obj.feature), 'asc' if obj.direction is dsl.Ordering.Direction.ASCENDING else 'desc')
    if isinstance(obj, dsl.Aliased):
        return ('alias', to_ast(obj.operable), obj.name)
    if isinstance(obj, dsl.Literal):
        return ('lit', lit_ast(obj.value))
    if isinstance(obj, dsl.Element):
        return ('elem', to_ast(obj.origin), obj.name)
    if isinstance(obj, function.Cast):
        return ('cast', to_ast(obj.value), kind_ast(obj.kind))
    if isinstance(obj, dsl.Window):
        fn = ('expr', 'rownumber') if isinstance(obj.function, function.RowNumber) else to_ast(obj.function)
        return ('window', fn, tuple(to_ast(p) for p in obj.partition), tuple(to_ast(o) for o in tuple(obj.ordering)))
    if type(obj).__name__ == 'Pythonic':
        return ('pythonic', CLASS_OP.get(obj.operator.__name__, obj.operator.__name__), to_ast(obj.left), to_ast(obj.right))
    if isinstance(obj, dsl.Feature) and type(obj).__name__ in CLASS_OP:
        return ('expr', CLASS_OP[type(obj).__name__]) + tuple(to_ast(a) for a in obj)
    raise ValueError(f'cannot read back {type(obj).__name__}: {obj!r}')


# ---- static semantics on the AST (spec-shaped, written from docs/dsl/query/syntax.rst + the property text) -------
def fields_of(src) -> tuple:
    """Output features of a source AST as ((name|None, kind|None, feature_ast)...) per the documented model:
    table -> its columns; reference -> elements of the reference named like the instance's features;
    join/set -> left + right; query -> selection or the source's features."""
    tag = src[0]
    if tag == 'table':
        return tuple((n, k, ('elem', src, n)) for n, k in src[2])
    if tag == 'ref':
        return tuple((n, k, ('elem', src, n)) for n, k, _ in fields_of(src[1]))
    if tag in ('join', 'set'):
        return fields_of(src[1]) + fields_of(src[2])
    if tag == 'query':
        if src[2]:
            return tuple((name_of(f), kind_of(f), f) for f in src[2])
        return fields_of(src[1])
    raise ValueError(src)


def name_of(f) -> typing.Optional[str]:
    if f[0] == 'alias':
        return f[2]
    if f[0] == 'elem':
        return f[2]
    return None


def rank(kind) -> int:
    return {'boolean': 0, 'integer': 1, 'float': 2, 'decimal': 1, 'string': 1, 'date': 2, 'timestamp': 1}.get(kind, 9) \
        if isinstance(kind, str) else len(kind) - 1


def kind_of(f):
    """Kind of a feature AST (None when undetermined, e.g. unknown element name)."""
    tag = f[0]
    if tag == 'lit':
        return {'int': 'integer', 'bool': 'boolean', 'str': 'string', 'float': 'float'}[f[1][0]]
    if tag == 'elem':
        for n, k, _ in fields_of(f[1]):
            if n == f[2]:
                return k
        return None
    if tag == 'alias':
        return kind_of(f[1])
    if tag == 'cast':
        return f[2]
    if tag == 'window':
        return 'integer' if f[1] == ('expr', 'rownumber') else kind_of(f[1])
    if tag == 'expr':
        op = f[1]
        if op in COMPARISON + POSTFIX + LOGICAL2 + ('not',):
            return 'boolean'
        if op in ('count', 'ceil', 'floor', 'year', 'rownumber'):
            return 'integer'
        kinds = [kind_of(a) for a in f[2:]]
        if any(k is None for k in kinds) or not kinds:
            return None
        best = kinds[0]
        for k in kinds[1:]:  # functools.reduce(max by rank): the first of equal ranks wins
            if rank(k) > rank(best):
                best = k
        return best
    return None


def schema_of(src) -> list:
    """Documented schema rule: names and kinds of the output features in order."""
    return [(n, k) for n, k, _ in fields_of(src)]


def subfeatures(f):
    """All feature nodes of a feature AST (pre-order), not descending into element origins."""
    yield f
    tag = f[0]
    if tag in ('alias', 'cast'):
        yield from subfeatures(f[1])
    elif tag == 'expr':
        for a in f[2:]:
            yield from subfeatures(a)
    elif tag == 'window':
        # the documented visitor does not descend into a window (Feature.Visitor.visit_window)
        return


def elements(f) -> set:
    return {g for g in subfeatures(f) if g[0] == 'elem'}


def has_aggregate(f) -> bool:
    return any(g[0] == 'expr' and g[1] in AGGREGATES for g in subfeatures(f))


def has_window(f) -> bool:
    return any(g[0] == 'window' for g in subfeatures(f))


def has_cumulative(f) -> bool:
    return has_aggregate(f) or has_window(f)


def operable_ok(f) -> typing.Optional[str]:
    """Rules local to an operable expression (operand kinds); returns the violated rule or None."""
    tag = f[0]
    if tag == 'alias':
        return 'operand-not-operable'
    if tag == 'lit':
        return None
    if tag == 'elem':
        return source_ok(f[1])
    if tag == 'cast':
        return 'operand-not-operable' if f[1][0] == 'alias' else operable_ok(f[1])
    if tag == 'window':
        for g in (f[1],) + tuple(f[2]) + tuple(o[1] for o in f[3]):
            if g != ('expr', 'rownumber'):
                if g[0] == 'alias':
                    return 'operand-not-operable'
                r = operable_ok(g)
                if r:
                    return r
        return None
    op, args = f[1], f[2:]
    if len(args) != ARITY[op]:
        return 'arity'
    for a in args:
        r = operable_ok(a)
        if r:
            return r
    kinds = [kind_of(a) for a in args]
    if op in LOGICAL2 + ('not',):
        return None if all(k == 'boolean' for k in kinds) else 'logical-operand-not-boolean'
    if op in COMPARISON + POSTFIX:
        if all(k in NUMERIC for k in kinds) or all(k == kinds[0] for k in kinds):
            return None
        return 'comparison-operands-incompatible'
    if op in ARITH + MATH1 + AGG_NUM:
        return None if all(k in NUMERIC for k in kinds) else 'arithmetic-operand-not-numeric'
    if op == 'year':
        return None if kinds[0] in ('date', 'timestamp') else 'year-operand-not-date'
    return None  # count


def feature_ok(f) -> typing.Optional[str]:
    if f[0] == 'alias':
        return operable_ok(f[1])
    return operable_ok(f)


def source_ok(src) -> typing.Optional[str]:
    """None if the source obeys the documented rules, else the name of the first violated rule."""
    tag = src[0]
    if tag == 'table':
        return None
    if tag == 'ref':
        return source_ok(src[1])
    if tag == 'join':
        _, l, r, kind, cond = src
        for s in (l, r):
            v = source_ok(s)
            if v:
                return v
        if (kind == 'cross') != (cond is None):
            return 'cross-join-condition'
        if cond is not None:
            v = operable_ok(cond)
            if v:
                return v
            if kind_of(cond) != 'boolean':
                return 'condition-not-boolean'
            if has_cumulative(cond):
                return 'aggregate-in-condition'
            avail = {g for _, _, g in fields_of(l) + fields_of(r)}
            if not elements(cond) <= avail:
                return 'foreign-element'
        return None
    if tag == 'set':
        _, l, r, _ = src
        for s in (l, r):
            v = source_ok(s)
            if v:
                return v
        return None if schema_of(l) == schema_of(r) else 'set-schemas-differ'
    if tag == 'query':
        _, s, sel, pre, grp, post, order, _ = src
        v = source_ok(s)
        if v:
            return v
        avail = set()
        for _, _, g in fields_of(s):
            avail |= elements(g)
        for f in sel:
            v = feature_ok(f)
            if v:
                return v
        for f in sel:
            if not elements(f) <= avail:
                return 'foreign-element'
        if pre is not None:
            v = operable_ok(pre)
            if v:
                return v
            if not elements(pre) <= avail:
                return 'foreign-element'
            if kind_of(pre) != 'boolean':
                return 'condition-not-boolean'
            if has_cumulative(pre):
                return 'aggregate-in-condition'
        if grp:
            for g in grp:
                v = operable_ok(g)
                if v:
                    return v
                if has_cumulative(g):
                    return 'aggregate-in-grouping'
            for g in grp:
                if not elements(g) <= avail:
                    return 'foreign-element'
            selected = [f for f in sel] or [g for _, _, g in fields_of(s)]
            for f in selected:
                op = f[1] if f[0] == 'alias' else f
                if op not in grp and not has_aggregate(op):
                    return 'non-aggregate-outside-grouping'
        if post is not None:
            v = operable_ok(post)
            if v:
                return v
            if not elements(post) <= avail:
                return 'foreign-element'
            if kind_of(post) != 'boolean':
                return 'condition-not-boolean'
            if has_window(post):
                return 'window-in-having'
        for o in order:
            v = operable_ok(o[1])
            if v:
                return v
        for o in order:
            if not elements(o[1]) <= avail:
                return 'foreign-element'
        return None
    raise ValueError(src)


def well_formed(ast) -> tuple:
    rule = source_ok(ast)
    return rule is None, rule


# ---- generation -------------------------------------------------------------------------------------------------
INT_POOL = (0, 1, 2, 3, 7, 10, 42, 100, -1, -2, -5, 2 ** 31, 2 ** 61 - 1, 2 ** 61, -(2 ** 61), 10 ** 20)
STR_POOL = ('a', 'b', 'foo', 'bar', '', 'x y', 'A')
FLOAT_POOL = ('0.5', '1.0', '2.5', '-1.5', '100.0', '1e+30')
NAME_POOL = ('x', 'y', 'z', 'total', 'n', 'id', 'name')
REF_POOL = ('r', 's', 'ref', 'other')


class Gen:
    """Typed random generator of conforming statements."""

    def __init__(self, rng, small_ints: bool = False):
        self.rng = rng
        self.ints = tuple(i for i in INT_POOL if abs(i) < 1000) if small_ints else INT_POOL

    # literals / columns
    def literal(self, want: str):
        r = self.rng
        if want == 'integer':
            return ('lit', ('int', r.choice(self.ints)))
        if want == 'float':
            return ('lit', ('float', r.choice(FLOAT_POOL)))
        if want == 'numeric':
            return self.literal(r.choice(('integer', 'float')))
        if want == 'string':
            return ('lit', ('str', r.choice(STR_POOL)))
        if want == 'boolean':
            return ('lit', ('bool', r.choice((True, False))))
        return None

    @staticmethod
    def _matches(kind, want) -> bool:
        if want == 'any':
            return True
        if want == 'numeric':
            return kind in NUMERIC
        return kind == want

    def column(self, feats, want: str):
        """An element of the available features `feats` (= fields_of(source)) of the wanted kind class."""
        cands = [g for _, k, g in feats if g[0] == 'elem' and self._matches(k, want)]
        return self.rng.choice(cands) if cands else None

    def feature(self, feats, want: str = 'any', depth: int = 2, agg: bool = False):
        """A conforming operable over `feats`; `agg` allows (and then forces at the top) an aggregate."""
        r = self.rng
        has_date = self.column(feats, 'date') is not None
        if want == 'any':
            want = r.choice(('numeric', 'numeric', 'string', 'boolean', 'integer') + (('date',) if has_date else ()))
        if want == 'date' and not has_date:
            want = 'integer'
        if agg:
            if want in ('integer', 'numeric') and r.random() < 0.4:
                arg = self.feature(feats, 'any', depth - 1)
                return ('expr', 'count', arg)
            if want in ('numeric', 'integer', 'float'):
                arg = self.feature(feats, want, depth - 1)
                f = ('expr', r.choice(AGG_NUM), arg)
                if r.random() < 0.25:
                    f = ('expr', r.choice(ARITH), f, self.literal('integer'))
                return f
            if want == 'boolean':
                return ('expr', r.choice(COMPARISON), self.feature(feats, 'numeric', depth - 1, agg=True), self.literal('numeric'))
            return None
        leaf = depth <= 0 or r.random() < 0.35
        if leaf:
            col = self.column(feats, want)
            if col is not None and r.random() < 0.8:
                return col
            lit = self.literal(want)
            if lit is not None:
                return lit
            if col is not None:
                return col
        if want in ('numeric', 'integer', 'float'):
            choice = r.random()
            if choice < 0.6:
                a, b = self.feature(feats, want, depth - 1), self.feature(feats, want, depth - 1)
                return ('expr', r.choice(ARITH), a, b)
            if choice < 0.75 and want != 'float':
                return ('expr', r.choice(('ceil', 'floor')), self.feature(feats, 'numeric', depth - 1))
            if choice < 0.85:
                return ('expr', 'abs', self.feature(feats, want, depth - 1))
            if choice < 0.92 and want != 'float':
                d = self.column(feats, 'date')
                if d is not None:
                    return ('expr', 'year', d)
            k = {'numeric': r.choice(('integer', 'float')), 'integer': 'integer', 'float': 'float'}[want]
            return ('cast', self.feature(feats, r.choice(('numeric', 'string')), depth - 1), k)
        if want == 'string':
            col = self.column(feats, 'string')
            if col is not None and r.random() < 0.5:
                return col
            return ('cast', self.feature(feats, 'numeric', depth - 1), 'string') if r.random() < 0.5 else self.literal('string')
        if want == 'date':
            return self.column(feats, 'date')
        if want == 'boolean':
            choice = r.random()
            if choice < 0.5:
                k = r.choice(('numeric', 'numeric', 'string') + (('date',) if has_date else ()))
                a, b = self.feature(feats, k, depth - 1), self.feature(feats, k, depth - 1)
                return ('expr', r.choice(COMPARISON), a, b)
            if choice < 0.6:
                return ('expr', r.choice(POSTFIX), self.feature(feats, r.choice(('numeric', 'string')), depth - 1))
            if choice < 0.85:
                return ('expr', r.choice(LOGICAL2), self.feature(feats, 'boolean', depth - 1), self.feature(feats, 'boolean', depth - 1))
            if choice < 0.93:
                return ('expr', 'not', self.feature(feats, 'boolean', depth - 1))
            col = self.column(feats, 'boolean')
            return col if col is not None else self.literal('boolean')
        return self.literal('integer')

    # sources
    def origin(self, depth: int = 1):
        """table | reference | join (of origins)"""
        r = self.rng
        choice = r.random()
        if depth <= 0 or choice < 0.5:
            return r.choice(CATALOG)
        if choice < 0.7:
            inner = r.choice(CATALOG) if r.random() < 0.6 else self.query(depth - 1, limit=False, named=True)
            return ('ref', inner, r.choice(REF_POOL))
        left = r.choice(CATALOG)
        right = r.choice([t for t in CATALOG if t != left])
        if r.random() < 0.3:
            right = ('ref', right, r.choice(REF_POOL))
        kind = r.choice(JOIN_KINDS)
        if kind == 'cross':
            return ('join', left, right, kind, None)
        lf, rf = fields_of(left), fields_of(right)
        a, b = self.column(lf, 'integer'), self.column(rf, 'integer')
        cond = ('expr', r.choice(('eq', 'eq', 'lt', 'ge')), a, b)
        if r.random() < 0.3:
            cond = ('expr', 'and', cond, self.feature(lf + rf, 'boolean', 1))
        return ('join', left, right, kind, cond)

    def _named(self, sel: tuple) -> tuple:
        """Alias every selected feature that has no name of its own and make the names distinct (the schema of
        a query is only defined then; it is needed as soon as the query is referenced or used in a set)."""
        out, seen = [], set()
        for i, f in enumerate(sel):
            name = name_of(f)
            if name is None or name in seen:
                base = f[1] if f[0] == 'alias' else f
                name = next(n for n in itertools.chain(NAME_POOL, (f'c{j}' for j in itertools.count(i))) if n not in seen)
                f = ('alias', base, name)
            seen.add(name)
            out.append(f)
        return tuple(out)

    def query(self, depth: int = 1, limit: bool = True, named: bool = False):
        """A conforming query; `named`: every output feature has a distinct name."""
        r = self.rng
        src = self.origin(depth)
        feats = fields_of(src)
        sel, pre, grp, post, order, rows = (), None, (), None, (), None
        grouped = r.random() < 0.3
        if grouped:
            grp = tuple(dict.fromkeys(self.feature(feats, 'any', 1) for _ in range(r.randint(1, 2))))
            grp = tuple(g for g in grp if g is not None and g[0] != 'lit') or (self.column(feats, 'any'),)
            items = []
            for g in grp:
                if r.random() < 0.8:
                    items.append(g if r.random() < 0.6 else ('alias', g, r.choice(NAME_POOL)))
            for _ in range(r.randint(1, 2)):
                a = self.feature(feats, r.choice(('numeric', 'integer')), 1, agg=True)
                items.append(a if r.random() < 0.4 else ('alias', a, r.choice(NAME_POOL)))
            sel = tuple(items)
            if r.random() < 0.5:
                post = self.feature(feats, 'boolean', 1, agg=True)
        elif r.random() < 0.75:
            items = []
            for _ in range(r.randint(1, 4)):
                f = self.feature(feats, 'any', 2)
                if f is None:
                    continue
                items.append(f if r.random() < 0.5 else ('alias', f, r.choice(NAME_POOL)))
            sel = tuple(items)
        if r.random() < 0.5:
            pre = self.feature(feats, 'boolean', 2)
        if r.random() < 0.4:
            terms = []
            for _ in range(r.randint(1, 2)):
                f = self.feature(feats, 'any', 1)
                if f is not None:
                    terms.append(('ord', f, r.choice(('asc', 'desc'))))
            order = tuple(terms)
        if limit and r.random() < 0.3:
            rows = ('rows', r.choice((1, 10, 100)), r.choice((0, 0, 5)))
        if named:
            if not sel and len({n for n, _, _ in feats}) < len(feats):
                sel = tuple(g for _, _, g in feats) if not grp else sel
            sel = self._named(sel)
        return ('query', src, sel, pre, grp, post, order, rows)

    def statement(self, depth: int = 1):
        """query | set of two queries with equal schemas | origin"""
        r = self.rng
        choice = r.random()
        if choice < 0.75:
            return self.query(depth)
        if choice < 0.9:
            left = self.query(depth, limit=False, named=True)
            # same schema: re-query the same source with the same selection and another filter
            feats = fields_of(left[1])
            right = ('query', left[1], left[2], self.feature(feats, 'boolean', 1), left[4], left[5], (), None)
            return ('set', left, right, r.choice(SET_KINDS))
        return self.origin(depth)


# ---- positions -----------------------------------------------------------------------------------------------
def replace(ast, path: tuple, new):
    if not path:
        return new
    i = path[0]
    return ast[:i] + (replace(ast[i], path[1:], new),) + ast[i + 1:]


def get(ast, path: tuple):
    for i in path:
        ast = ast[i]
    return ast


def positions(ast, path: tuple = ()):
    """Yield (path, sort, node) for every node of a source/feature AST; sorts: source, feature, ordering."""
    tag = ast[0]
    if tag in ('table', 'ref', 'join', 'set', 'query'):
        yield path, 'source', ast
        if tag == 'ref':
            yield from positions(ast[1], path + (1,))
        elif tag == 'join':
            yield from positions(ast[1], path + (1,))
            yield from positions(ast[2], path + (2,))
            if ast[4] is not None:
                yield from positions(ast[4], path + (4,))
        elif tag == 'set':
            yield from positions(ast[1], path + (1,))
            yield from positions(ast[2], path + (2,))
        elif tag == 'query':
            yield from positions(ast[1], path + (1,))
            for i, f in enumerate(ast[2]):
                yield from positions(f, path + (2, i))
            if ast[3] is not None:
                yield from positions(ast[3], path + (3,))
            for i, f in enumerate(ast[4]):
                yield from positions(f, path + (4, i))
            if ast[5] is not None:
                yield from positions(ast[5], path + (5,))
            for i, o in enumerate(ast[6]):
                yield path + (6, i), 'ordering', o
                yield from positions(o[1], path + (6, i, 1))
    elif tag == 'ord':
        yield path, 'ordering', ast
        yield from positions(ast[1], path + (1,))
    else:
        yield path, 'feature', ast
        if tag == 'elem':
            yield from positions(ast[1], path + (1,))
        elif tag in ('alias', 'cast'):
            yield from positions(ast[1], path + (1,))
        elif tag == 'expr':
            for i, a in enumerate(ast[2:], start=2):
                yield from positions(a, path + (i,))
        elif tag == 'window':
            yield from positions(ast[1], path + (1,))
            for i, f in enumerate(ast[2]):
                yield from positions(f, path + (2, i))
            for i, o in enumerate(ast[3]):
                yield from positions(o, path + (3, i))


_OP_SWAP = {**{o: COMPARISON for o in COMPARISON}, **{o: POSTFIX for o in POSTFIX}, **{o: LOGICAL2 for o in LOGICAL2},
            **{o: ARITH for o in ARITH}, **{o: AGG_NUM for o in AGG_NUM}, 'abs': ('abs',), 'ceil': ('floor',), 'floor': ('ceil',)}


def leaf_mutations(ast, rng, limit: int = 0) -> list:
    """[(label, mutated)] — each differs from `ast` in exactly one leaf (and nothing else):
    literal value, operator class, alias, direction, column name, reference name, join kind, set kind, row limit,
    cast kind, table (its twin with the same fields)."""
    out = []
    for path, sort, node in positions(ast):
        tag = node[0]
        if sort == 'feature':
            if tag == 'lit':
                kind, value = node[1]
                if kind == 'int':
                    cands = [value + 1, -value if value else 5, value + (2 ** 61 - 1), -2 if value == -1 else -1 if value == -2 else value - 1]
                    new = rng.choice([c for c in cands if c != value])
                    out.append(('literal', replace(ast, path + (1,), ('int', new))))
                elif kind == 'bool':
                    out.append(('literal', replace(ast, path + (1,), ('bool', not value))))
                elif kind == 'str':
                    out.append(('literal', replace(ast, path + (1,), ('str', rng.choice([s for s in STR_POOL if s != value])))))
                elif kind == 'float':
                    out.append(('literal', replace(ast, path + (1,), ('float', rng.choice([s for s in FLOAT_POOL if s != value])))))
            elif tag == 'alias':
                out.append(('alias', replace(ast, path + (2,), rng.choice([n for n in NAME_POOL if n != node[2]]))))
            elif tag == 'expr' and node[1] in _OP_SWAP:
                cands = [o for o in _OP_SWAP[node[1]] if o != node[1]]
                if cands:
                    out.append(('operator', replace(ast, path + (1,), rng.choice(cands))))
            elif tag == 'cast':
                out.append(('cast-kind', replace(ast, path + (2,), rng.choice([k for k in ('integer', 'float', 'string') if k != node[2]]))))
            elif tag == 'elem':
                mine = kind_of(node)
                cands = [n for n, k, _ in fields_of(node[1]) if n != node[2] and k == mine] or \
                        [n for n, k, _ in fields_of(node[1]) if n != node[2]]
                if cands:
                    out.append(('column', replace(ast, path + (2,), rng.choice(cands))))
        elif sort == 'ordering':
            out.append(('direction', replace(ast, path + (2,), 'desc' if node[2] == 'asc' else 'asc')))
        elif sort == 'source':
            if tag == 'ref':
                out.append(('reference-name', replace(ast, path + (2,), rng.choice([n for n in REF_POOL if n != node[2]]))))
            elif tag == 'join' and node[3] != 'cross':
                out.append(('join-kind', replace(ast, path + (3,), rng.choice([k for k in JOIN_KINDS[:4] if k != node[3]]))))
            elif tag == 'set':
                out.append(('set-kind', replace(ast, path + (3,), rng.choice([k for k in SET_KINDS if k != node[3]]))))
            elif tag == 'query' and node[7] is not None:
                which = rng.choice((1, 2))
                rows = list(node[7])
                rows[which] += 1
                out.append(('rows', replace(ast, path + (7,), tuple(rows))))
            elif tag == 'table' and node[1] in TWIN:
                out.append(('table', replace(ast, path, _table(TWIN[node[1]]))))
    if limit and len(out) > limit:
        out = rng.sample(out, limit)
    return out
