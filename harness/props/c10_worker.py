"""C10 worker: launch sequences in a process of their own.

Reads one JSON job from stdin, writes one JSON result to stdout:

  job    = {"repo": <forml tree>, "home": <FORML_HOME>, "cases": [case…], "platform": [case…]}
  result = {"cases": [impl…], "platform": [impl…]}          (impl as `C10._run_e2e` returns it)

`cases` are window histories against the provider feed `forml.provider.feed.alchemy.Feed`; the tables are created by the
first process that meets them and only attached to by later ones, so that a second run of the same job in a *new*
process finds the parquet files that the first one left under $FORML_HOME/.cache/alchemy (a sequence of launches, each
a process of its own, sharing one FORML_HOME).

`platform` cases go all the way through the interactive launcher: `source.bind(pipeline).launcher(runner='dask',
feeds=[feed]).apply/train(lower, upper)` — real `Runner`, real registry, the dask runner with its default `processes`
scheduler, which ships the extract actors to worker processes.
"""
import json
import logging
import os
import sys
import warnings


def platform_case(chk, c10, case):
    """-> [['ok', rid…] | ['error', Exc] per window]"""
    from forml.pipeline import payload

    kind = case['kind']
    env = chk.env(kind, 'alchemy')
    env.load(case['data'])
    source = env.source(case['ordinal'], chk._once_value(case), case.get('base'))  # pylint: disable=protected-access
    handler = source.bind(payload.Sniff()).launcher(runner='dask', feeds=[env.feed])
    out = []
    for lo, hi in case['windows']:
        lower = None if lo is None else c10.value(kind, *lo)
        upper = None if hi is None else c10.value(kind, *hi)
        try:
            if case.get('mode', 'apply') == 'apply':
                rows = handler.apply(lower, upper)
            else:
                rows = handler.train(lower, upper).features
            out.append(['ok'] + sorted(int(list(r)[0]) for r in rows))
        except Exception as e:  # pylint: disable=broad-except
            out.append(['error', type(e).__name__])
    return out


def main() -> int:
    job = json.load(sys.stdin)
    os.environ['FORML_HOME'] = job['home']
    os.environ.setdefault('PYTHONWARNINGS', 'ignore')
    warnings.filterwarnings('ignore')
    here = os.path.dirname(os.path.dirname(os.path.abspath(__file__)))
    sys.path.insert(0, here)
    sys.path.insert(0, job['repo'])
    os.environ['PYTHONPATH'] = os.pathsep.join([job['repo'], here])  # for the runner's worker processes
    logging.disable(logging.CRITICAL)
    from props import c10

    chk = c10.C10('quick', 0, home=job['home'], attach=True)
    result = {'cases': [], 'platform': []}
    for case in job.get('cases', []):
        impl = chk._run_e2e(case)  # pylint: disable=protected-access
        result['cases'].append(['ctor-error', impl[1]] if isinstance(impl, tuple) else impl)
    for case in job.get('platform', []):
        try:
            result['platform'].append(platform_case(chk, c10, case))
        except Exception as e:  # pylint: disable=broad-except
            result['platform'].append(['machinery', f'{type(e).__name__}: {e}'])
    sys.stdout.write('\n@@C10-RESULT@@' + json.dumps(result) + '\n')
    return 0


if __name__ == '__main__':  # nothing but definitions above: the runner's worker processes re-import this module
    sys.exit(main())
